#!/bin/sh
# run the quick tier of every claimed property on /repo's working tree; print only violations and a one-line tally
cd /verif
for c in C01 C02 C03 C04 C05 C06 C07 C08 C09 C10 C11 C12 C13 C14 C15 C16 C18 C19 C20; do
  out=$(./check $c --tier quick 2>&1); rc=$?
  echo "$out" | grep -E "^VIOLATION|^  key:" | head -12
  echo "== $c rc=$rc known=$(echo "$out" | grep -c '^KNOWN-FINDING')"
done
