"""Claim table: which properties are claimed, with what words. Edited by hand; MANIFEST.json is generated."""
CLAIMS = {
 "C03": {"design_ref": "DESIGN.md §2 C03",
  "technique": "who-may-call + type-driven root/trace completeness via def-use flow on MIR",
  "text": "Decides on every run, from the MIR of the current tree: collection can start only between instructions (no function in run_one's extent, builtins included through the fn-pointer slot, reaches run_gc/sweep/free); every Vm field whose type can hold a heap reference flows into a marker adequate for its type; both markers pass every reference-carrying field of every VCell variant and payload struct to a marker, or the variant is confined to where the other marker looks; mark tests visited before descending and sweep frees only Allocated cells; symbols enter the heap only through the interning arms. These are necessary conditions for 'no live object is reclaimed under any schedule'; termination of marking and value equality of runs are not decided."},
 "C04": {"design_ref": "DESIGN.md §2 C04",
  "technique": "tail-flag provenance table over call sites + frame-reuse shape of TCALL + call-graph re-entry check",
  "text": "Decides that every tail position of R7RS 3.5 that the compiler handles receives the caller's tail flag (multiset table per compiling function, opcode selected on the flag's true edge), that the TCALL handler builds no new return linkage and writes sp only relative to bp, and that no builtin re-enters the interpreter (apply/eval/call-cc re-arm the calling instruction exactly once). A constant-space tail call requires all three; measured stack depth is not decided."},
 "C05": {"design_ref": "DESIGN.md §2 C05",
  "technique": "register save/restore symmetry from field-write sets; dominance ordering in call/cc; CALL/TCALL twin isomorphism",
  "text": "Decides that to_continuation saves and restore_continuation writes every machine register (derived as the Vm fields written in run_one's extent), that call/cc pops before capturing and pushes/decrements ip after, that CALL and TCALL invoke a continuation identically (pop, restore, deliver), and that the collector traces continuations. Necessary for re-entrant continuations; whether the restored state is right for a program is value-level and not decided."},
 "C07": {"design_ref": "DESIGN.md §2 C07",
  "technique": "must-pass-through on the CFG of run_count with callee effect summaries; dominance in prepare_eval",
  "text": "Decides that every path from the Err edge of an instruction to run_count's return resets the stack pointer after the trace is captured, that ip is written only on the success edge of compilation, and that the previous trace is cleared first. Necessary for 'repeated failures do not accumulate'; equality of later results with a fresh VM is not decided."},
 "C12": {"design_ref": "DESIGN.md §2 C12",
  "technique": "dominance / must-pass-through on run_count and run_gc; who-may-call on Heap::grow; sweep state machine",
  "text": "Decides the structural causes of unbounded retention named by the anchors: the success path wipes the stack before the final collection, the error path resets the stack pointer, sweep frees every Allocated cell and resets Used, freed symbols leave the table, the heap grows only after a sweep or an empty free list. Heap growth over unbounded executions is a run-time quantity and is not decided."},
 "C13": {"design_ref": "DESIGN.md §2 C13",
  "technique": "must-pass-through (progress) + who-may-call (single loop) + liveness across the loop back edge",
  "text": "Decides that every path to the budget-exhausted return executes an instruction, that run_one has a single caller (run is run_count with the maximal budget), and that nothing but arguments and the cycle counter is live across the interpreter loop, with the exhausted path doing nothing but collect. Together with C03 this makes a slice boundary unobservable by construction; equality of results for concrete programs is not decided."},
 "C18": {"design_ref": "DESIGN.md §2 C18",
  "technique": "construction-site flow (who may create a Symbol cell) + dominance in the interning arms and in Heap::free",
  "text": "Decides that every VCell::Symbol constructed outside derived impls goes directly to Heap::put/maybe_put or is a builtin's Ok value, that both interning arms do lookup -> allocate -> insert, that Heap::free removes a freed symbol's name before overwriting the cell, and that eqv decides pointers by identity. Necessary for 'same name iff eq?'; string round trips beyond the escape-introducer clause are not decided."},
 "C11": {"design_ref": "DESIGN.md §2 C11",
  "technique": "None-edge classification of every token-cursor read + scanner/parser table agreement (switch/str-compare table recovery)",
  "text": "Decides the incompleteness clause and the table-agreement clauses: every handled end-of-tokens site in the parser yields parse::Error::Incomplete (ok_or / None arm), every next().unwrap() is dominated by a peek() with no intervening next(), the string/char scanners report only lex::Error::Incomplete, both front ends give Incomplete its own arm, the characters lex::scan sends to scan_simple_token and the number prefixes it produces are exactly those the handlers accept (their fall-through is panic!), and the remainder returned by parse_text starts at the next token's span.0. Scanner termination, token ordering and one-datum-per-parse are not decided."},
 "C20": {"design_ref": "DESIGN.md §2 C20",
  "technique": "parser/highlighter bracket-class agreement (arm tables) + slice-partition shape of highlight",
  "text": "Decides that every token type the parser treats as an opener (its arm hands off to a sub-parser with a RightParen arm) is known to find_matching_bracket, and that highlight formats exactly [0..s0] + on + [s0..s1] + off + [s1..] of one token span with one escape pair. Necessary for 'exactly the matching bracket and nothing else'; that the partner is the properly nested one is value-level and not decided."},
 "C19": {"design_ref": "DESIGN.md §2 C19",
  "technique": "strongly connected components of the resolved call graph (with fmt / forwarding-impl / fn-pointer / dyn edges) + self-reaching type graph",
  "text": "Decides the exact static form of the property: there is no native recursion whose depth follows the data other than the inventoried ones. Every recursive call edge of the workspace call graph is either in a reviewed bounded list (retry-after-grow, type-bounded) or reported; every local type that owns itself without a hand-written Drop is reported. All data-driven recursions of the pinned tree are genuine (depth 10^5 aborts the process) and are listed as known findings per call edge with site counts, so any new recursive call site or newly recursive routine is a violation. Frame sizes and the exact depth of the abort are not decided."},
}
NOT_APPLICABLE = {
 "C17": "Matcher/instantiator soundness and termination are properties of what two hand-written iterator state machines compute for every transformer and use; no structural clause is a faithful necessary condition without restating the algorithm (DESIGN.md §2 C17). transform.rs is still covered by C06 (panic sites) and C19 (recursion).",
}
# properties whose rule packs are designed (DESIGN.md §2) but not built yet; moved to CLAIMS as they land
PENDING = {p: "rule pack designed in DESIGN.md §2 but not built yet in this revision; not claimed until it is" for p in
           ["C01", "C02", "C06", "C08", "C09", "C10", "C14", "C15", "C16"]}
