#!/bin/sh
# tools/try_patch.sh <patch> <Cnn>...  — apply a patch (zero fuzz) to a scratch copy of /repo's tracked tree and run the quick
# checks on it; says so when the patched tree does not build or cannot be analysed (an empty report is not "silent" then)
set -e
P=$(readlink -f "$1"); shift
D=/verif/.work/try.$$
rm -rf "$D"; mkdir -p "$D"
git -C /repo archive HEAD | tar -x -C "$D"
(cd "$D" && patch -p1 -s -F0 < "$P") || { echo "== PATCH DOES NOT APPLY"; rm -rf "$D"; exit 2; }
for c in "$@"; do
  set +e
  /verif/check "$c" --tier quick --root "$D" > "$D/.out" 2>&1; rc=$?
  set -e
  grep -E "^VIOLATION|^  key:" "$D/.out" | head -${LINES_MAX:-6} || true
  if [ $rc -ne 0 ] && [ $rc -ne 1 ]; then echo "== $c NOT ANALYSED (exit $rc): $(tail -1 "$D/.out")"; else echo "== $c done"; fi
done
rm -rf "$D"
