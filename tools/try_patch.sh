#!/bin/sh
# tools/try_patch.sh <patch> <Cnn>...  — apply a patch to a scratch copy of /repo's tracked tree and run the quick checks on it
set -e
P=$(readlink -f "$1"); shift
D=/verif/.work/try.$$
rm -rf "$D"; mkdir -p "$D"
git -C /repo archive HEAD | tar -x -C "$D"
(cd "$D" && patch -p1 -s < "$P")
for c in "$@"; do
  /verif/check "$c" --tier quick --root "$D" 2>&1 | grep -E "^VIOLATION|^  key:|KNOWN" | grep -v KNOWN | head -${LINES_MAX:-6} || true
  echo "== $c done"
done
rm -rf "$D"
