#!/usr/bin/env bash
# tools/build_all_patches.sh — every recorded patch must apply with zero fuzz to /repo HEAD and the result must compile.
set -u
W=/verif/.work/bap; rm -rf $W; mkdir -p $W/tree
git -C /repo archive HEAD | tar -x -C $W/tree
cd $W/tree && git init -q . && git add -A && git -c user.email=a@b -c user.name=x commit -q -m base
export CARGO_TARGET_DIR=$W/target CARGO_NET_OFFLINE=true
cargo check --offline -q --workspace 2>/dev/null
for p in /verif/mutants/*.diff /verif/neutral/*.diff /verif/seeded/*/patch.diff; do
  git checkout -q . && git clean -fdq
  if ! patch -p1 -s -F0 < $p >/dev/null 2>&1; then echo "NOAPPLY $p"; continue; fi
  if ! cargo check --offline -q --workspace 2>$W/err.txt; then echo "NOBUILD $p"; grep -m3 -E "^error" -A4 $W/err.txt; fi
done
cd /verif; rm -rf $W; echo ALLDONE
