#!/usr/bin/env python3
"""One-off triage aid for C06: assigns a reviewed reason to every inventory site that no idiom discharges, by a table
of (function, site kind) -> reason that was filled in by reading the code, and writes /verif/c06_reviewed.json keyed by
the full line-free site key (function, operation, operand shape, relevant dominating guards).  The JSON is the frozen,
committed review; the check never writes it.  Re-run only to re-review after an intentional change of the tree."""
import json, os, re, sys
VERIF = os.path.dirname(os.path.dirname(os.path.abspath(__file__)))
sys.path.insert(0, VERIF)
from mwcheck import extract
from mwcheck.facts import Facts
from mwcheck.callgraph import CallGraph
from mwcheck.rules import C06

INV_SPAN = "INV-SPAN: token spans are produced by lex::scan for the same text, in bounds and on character boundaries (units checked by R15a/R11d)"
INV_PTR = "INV-PTR: the index is a heap index (from Heap::alloc or a VCell::Ptr/HeapRef field) and the heap vector never shrinks"
INV_SLOT = "INV-SLOT: slot indices are emitted by the compiler from the environment map / GlobalEnvironment::get_binding of the same VM"
INV_FRAME = "INV-FRAME: bp/sp arithmetic inside a frame laid out by CALL/ENTER (argc, ep, ip, bp pushed in that order); argument counts come from the frame"
INV_IP = "INV-IP: ip.0 is the heap index of a Lambda (prepare_eval, CALL/TCALL after matching Closure/Lambda, RET from a saved InstructionPointer) and ip.1 >= 1 once an opcode was read"
INV_PUT = "Heap::put / put_cell return VCell::Ptr for every non-Ptr input and pass a Ptr through, so as_ptr() succeeds"
DIAG = "diagnostic path (arguments of trace! / debug-only instruction trace): decompiles bytecode the compiler just emitted, whose opcodes all have a schema entry followed by their operands"
OFFS = "byte offsets computed by char_indices()/len() of the same string with start <= end (char_substring_offset / nth); units checked by R15a"

TRIAGE = [
    (r"^number::ratio_(add|sub|div)$", r"ratio", "both operands are 32-bit rationals widened to 64 bits by number::widen: the cross products "
     "a sum, a difference or a quotient is formed from are below 2^62 and their sum below 2^63; ratio_div returns for a zero divisor first"),
    (r"^vm::compile::<Vm>::transform_procedure_application$", r"unwrap", "under rest.is_list(): Cell::is_list holds only for a non-empty proper list, which has a car and a cdr", r"cell::Cell::c[ad]r\(v:Cell\)"),
    (r"^number::approximate$", r"ratio", "arbitrary-precision rationals: the product cannot overflow, and the quotient is formed only in the arm "
     "whose guard found the divisor's numerator non-zero (the zero-divisor case takes the float arm below it)"),
    (r"^vm::builtin::number::divide::\{closure#0\}$", r"ratio", "the closure divide hands to exact_result: its second argument is y as an "
     "arbitrary-precision rational, and divide has returned its error for y.is_zero() before the call (to_big_rational preserves the value)"),
    (r"^vm::heap::payload$", r"DivisionByZero", "the divisor is size_of::<VCell>(), the size of a non-empty enum: not zero"),
    (r"^marwood_wasm::Marwood::autocomplete$", r"unwrap", "chars().last() of a text tested non-empty in the same condition (short-circuit `||`)", r"Chars.*last"),
    (r"^marwood_wasm::Marwood::eval$", r"index", INV_SPAN),
    (r"highlight_char$", r"Overflow\(Add\)", "pos is rustyline's cursor, a byte offset into the line: pos <= line.len() <= isize::MAX"),
    (r"^marwood_repl::main$", r"unwrap", "start-up of the line editor, before any text is read: not reachable from input"),
    (r"^lex::Token::span", r".", INV_SPAN),
    (r"^lex::scan_simple_token$", r"panic", "R06c/R11c(i): lex::scan dispatches here only the characters that have an arm"),
    (r"^lex::scan_string$", r"unwrap", "the loop is left with `terminated` set only after peek() returned the closing quote; nothing is consumed in between"),
    (r"^parse::parse_text::", r"index", INV_SPAN),
    (r"^parse::parse$", r".", "a String token spans at least its two quote characters (scan_string) and the empty spelling is matched first; the quotes are ASCII, so 1 and len-1 are character boundaries"),
    (r"^parse::parse_(list|vector)$", r"unwrap", "a bracket token is one non-empty character (scan_simple_token / scan_hash_token)"),
    (r"^parse::parse_char$", r".", "a Char token is the two ASCII bytes #\\ followed by at least one character (scan_char reports Incomplete otherwise); after starts_with('x') offset 1 is a boundary"),
    (r"^parse::parse_number$", r"panic", "R06c/R11c(ii): the scanner produces NumberPrefix only for the spellings that have an arm"),
    (r"^syntax::ReplHighlighter::highlight$", r"index", INV_SPAN),
    (r"^syntax::find_matching_bracket$", r"index", "bracket.0 is the enumerate() position of a token of the same slice: bracket.0 < len and bracket.0 + 1 <= len"),
    (r"^vm::builtin::char::char_(upcase|downcase|foldcase)$", r"unwrap", "ToUppercase / ToLowercase yield at least one character for every char"),
    (r"^vm::builtin::<Vm>::load_builtin$", r"unwrap", INV_PUT),
    (r"^vm::compile::<Vm>::compile_(symbol_expression|define|set)$", r"unwrap", INV_PUT),
    (r"^vm::Vm::prepare_eval$", r"unwrap", INV_PUT),
    (r"^vm::builtin::procedure::(eval|apply|call_cc)$", r"Overflow\(Sub\)", INV_IP + " (a builtin runs after the CALL opcode was read)"),
    (r"^vm::builtin::string::char_substring_offset$", r"Overflow\(Sub\)", "end is given only together with start; equal indices return early and end < start is rejected, so end >= 1 here"),
    (r"^vm::builtin::string::(string_list|string_copy|string_vector)$", r"index", OFFS),
    (r"^number::big_quotient_to_f64$", r"ratio", "Ratio::new panics only for a zero denominator; the function returns on the line above when rhs.sign() is NoSign (zero)"),
    (r"^vm::builtin::vector::vector_to_list$", r"unwrap", "the index ranges over start..end and vector_range returned end <= vector.len(), so Vector::get is Some"),
    (r"^vm::builtin::string::vector_string$", r"unwrap", "the index ranges over start..end and end <= v.len() was checked just above (end defaults to v.len()), so Vector::get is Some"),
    (r"^vm::builtin::string::(string_fill|string_set)$", r"string-edit", OFFS),
    (r"^vm::builtin::vector::vector_mut_copy$", r".", "start <= from.len(), end <= from.len() and start <= end were checked just above (end defaults to from.len()), at <= to.len() and at + (end - start) <= to.len(); i ranges over start..end, so Vector::get(i) is Some, i - start does not underflow and at + (i - start) < at + (end - start) <= to.len(); sums of lengths cannot overflow"),
    (r"^vm::compare::<Vm>::compare_vector$", r"unwrap", "idx < left.len() and left.len() == right.len() was tested just above"),
    (r"^vm::compile::<Vm>::compile_(symbol_expression|define|set)$", r"Overflow\(Add\)", "n is the index of an argument of this lambda (n < argc), both far below 2^63"),
    (r"^vm::compile::<Vm>::compile_if$", r"unwrap", "the index is bc.len() taken immediately before an emit, so it is in range afterwards"),
    (r"^vm::compile::<Vm>::compile_quasiquote$", r"Overflow\(Add\)", "depth counts nested quasiquote forms of the datum being compiled (bounded by its nesting)"),
    (r"^vm::compile::<Vm>::transform_template$", r"Overflow\(Add\)", "depth counts nested quasiquote forms of the template being expanded (bounded by its nesting)"),
    (r"^vm::environment::find_free_symbols_in_template$", r"Overflow\(Add\)", "depth counts nested quasiquote forms of the template being scanned (bounded by its nesting)"),
    (r"^vm::environment::LexicalEnvironment::(get|put)$", r"unwrap", INV_SLOT),
    (r"^vm::environment::GlobalEnvironment::(get_slot|put_slot)$", r"unwrap", INV_SLOT),
    (r"^vm::environment::GlobalEnvironment::get_binding$", r"Overflow\(Sub\)", "len() - 1 directly after a push"),
    (r"^<vm::gc::State as convert::From<u8>>::from$", r"panic", "only the 2-bit values 0..2 (State::bits of Free/Allocated/Used) are ever written by Map::set"),
    (r"^vm::gc::Map::(new|resize)$", r"panic", "sizes are multiples of the heap chunk size 8192 (Heap::new / Heap::grow)"),
    (r"^vm::gc::Map::set$", r"panic", INV_PTR + " (the map has one 2-bit entry per heap cell)"),
    (r"^vm::heap::Heap::grow$", r".", "chunk_size is the non-zero constant HEAP_CHUNK_SIZE given to Heap::new; the ceiling of a finite positive value converts to usize; the product is the new heap length"),
    (r"^vm::heap::Heap::(free|put|maybe_put|get_at_index|get_at_index_mut)$", r"unwrap", INV_PTR),
    (r"^vm::heap::Heap::maybe_put_cell$", r"panic", "INV-DATUM (checked by R06q): both ways into the compiler for a Cell that did not come from the reader - the eval builtin (a run-time value converted by Heap::get_as_cell) and Vm::prepare_eval (a Cell of the host's making) - reject a cell that is not a datum (Cell::is_datum) before compiling; put_cell of a datum component yields a Ptr"),
    (r"^vm::heap::Heap::get_as_cell(_under)?$", r"unwrap", "`rest` is a Pair by the loop invariant (the matched Pair arm, then only cells tested is_pair()); as_cdr of a Pair is a Ptr"),
    (r"^vm::heap::Heap::get_as_cell(_under)?$", r"panic", "INV-USERVAL: register, frame-linkage and opcode cells are never the value of an expression or an element of user data; the one caller that converts something other than a value — the decompiler, for the operands of an instruction — leaves the Ptr-encoded offsets of JMP / JNT alone (R06v)"),
    (r"^vm::heap::Heap::sweep$", r"Overflow\(Sub\)", "free_list only grows during sweep"),
    (r"^vm::heap::Heap::used_size$", r"Overflow\(Sub\)", "free_list holds distinct indices of the heap vector"),
    (r"^vm::Vm::load_prelude$", r"unwrap", "the input is the prelude compiled into the library (include_str!); loaded by every VM the test suite creates"),
    (r"^vm::Vm::global_symbols::", r"unwrap", "keys of globenv.bindings are heap indices of interned symbol cells (R18a) and are GC roots (R03b)"),
    (r"^vm::opcode::<Vm>::decompile", r"unwrap", DIAG),
    (r"^vm::run::<Vm>::trace_instruction$", r"index", "the slice bc[ip.1..] of the lambda %ip names: ip.1 <= bc.len() — it is advanced one cell at a time by read_opcode / read_operand, which stop at the end, and parked at bc.len() after a failure (R07j)"),
    (r"^vm::run::<Vm>::trace_instruction$", r"unwrap", "%ip.0 names a Lambda whenever run_one is entered (prepare_eval installs one; CALL / RET only ever store lambdas there): as_lambda succeeds", r"as_lambda"),
    (r"^vm::run::<Vm>::run(::|$)", r"unwrap", "run_count(usize::MAX) returns Ok(None) only after 2^64-1 instructions"),
    (r"^vm::run::<Vm>::run_one$", r"Overflow\(Sub\)", INV_FRAME + "; VARARG is emitted only for lambdas whose args include the rest parameter"),
    (r"^vm::run::<Vm>::(load_arg|build_lexical_environment|load_operand|store_operand)$", r"Overflow", INV_FRAME),
    (r"^vm::run::<Vm>::lambda$", r"unwrap", INV_IP),
    (r"^vm::stack::Stack::(iter_to_sp|to_continuation)$", r"index", "INV-STACK: sp < stack.len() (push grows the vector before moving sp; clear keeps the length; R05f)"),
    (r"^vm::stack::Stack::get_offset(_mut)?$", r"Overflow\(Add\)", "sp as i64 plus a small constant offset from compiled code"),
    (r"^vm::stack::Stack::restore_continuation$", r"slice-op", "R06s/R05f: the live stack vector is never shorter than a saved one, and both halves have the saved length"),
    (r"^vm::trace::StackTrace::new$", r".", INV_IP + "; InstructionPointer cells on the stack were pushed by CALL with the then-current ip"),
    (r"^vm::transform::Transform::expand$", r"unwrap", "the template is a Pair, whose iterator yields at least one element"),
    (r"^vm::transform::PatternEnvironment", r".", "start is 0 or a previous match position + 1 <= bindings.len()"),
    (r"^<number::Number as hash::Hash>::hash$", r"panic", "only Symbol cells are ever inserted into or looked up in a hash set / map keyed by Cell (every insert and contains in environment.rs and transform.rs is under is_symbol / a Symbol arm)"),
    (r"^number::Number::parse_rational$", r"unwrap", "Ratio<i32>::to_i64 of an integer-valued ratio always fits"),
    (r"^number::Number::parse_with_exactness::", r"unwrap", "Number::to_inexact returns Some for every representation"),
    (r"^number::Number::sqrt$", r"unwrap", "Number::to_f64 returns Some for every representation (BigInt saturates to infinity)"),
    (r"^number::Number::to_(u32|u64|usize)$", r"unwrap", "the BigInt was just compared against 0 and the target type's MAX in the match guard"),
    (r"^vm::vector::Vector::clone_vector$", r"index", "start and end are clamped to len and len-1 (non-empty here) and the builtins reject start > end"),
]
GENUINE = [
]


def main():
    F = Facts(extract.extract()[0])
    cg = CallGraph(F)
    sites = [s for s in C06.inventory(F) if not C06.covered_by_r08(s)]
    C06.assign_keys(sites)
    C06.discharge(F, cg, sites)
    front = C06.front_inventory(F)
    C06.assign_keys(front)
    C06.discharge(F, cg, front)
    sites = sites + front
    out = {}
    unmatched = []
    genuine = []
    for s in sites:
        if s.verdict:
            continue
        fn = s.fn.short
        kind = s.kind.split(":", 1)[1]
        if any(re.search(a, fn) and re.search(b, kind) for a, b in GENUINE):
            genuine.append(s)
            continue
        hit = None
        for ent in TRIAGE:
            a, b, why = ent[:3]
            if re.search(a, fn) and re.search(b, kind) and (len(ent) < 4 or re.search(ent[3], s.shape)):
                hit = why
                break
        if hit:
            out[s.key] = {"reason": hit, "fn": fn, "site": s.what}
        else:
            unmatched.append(s)
    with open(os.path.join(VERIF, "c06_reviewed.json"), "w") as f:
        json.dump({"_format": "exact site key -> reviewed reason; frozen review of the pinned tree, never written by a check",
                   "entries": out}, f, indent=1, sort_keys=True)
    print("reviewed:", len(out), "genuine:", len(genuine), "unmatched:", len(unmatched))
    for s in unmatched:
        print("  UNMATCHED %s:%d %s %s || %s" % (s.loc["file"], s.loc["line"], s.kind, s.fn.short, C06.source_line("/repo", s.loc)[:90]))
    for s in genuine:
        print("  GENUINE %s" % s.key)


main()
