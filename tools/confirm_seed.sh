#!/usr/bin/env bash
# tools/confirm_seed.sh <seed-src-dir> <seed-id>
# Confirms a seeded change in a scratch worktree of /repo HEAD: (1) patch applies, (2) suite passes with it,
# (3) demo fails with it, (4) demo passes without it. On success copies it to /verif/seeded/<seed-id>/.
set -u
SRC=$(realpath "$1"); ID=$2
WT=/tmp/mw-confirm-$ID
LOG=/tmp/mw-confirm-$ID.log
: > "$LOG"
git -C /repo worktree remove --force "$WT" >/dev/null 2>&1
git -C /repo worktree add -q --detach "$WT" HEAD || { echo "worktree failed"; exit 2; }
export CARGO_TARGET_DIR=/tmp/mw-confirm-target CARGO_NET_OFFLINE=true
cleanup() { git -C /repo worktree remove --force "$WT" >/dev/null 2>&1; }
cd "$WT"
if ! git apply --check "$SRC/patch.diff" 2>>"$LOG"; then echo "RESULT $ID: patch does not apply"; cleanup; exit 1; fi
DEMO_DST=marwood/tests/seed_demo.rs
DEMO_CMD="cargo test -p marwood --test seed_demo --offline"
if [ -f "$SRC/demo_dst.txt" ]; then DEMO_DST=$(sed -n 1p "$SRC/demo_dst.txt"); DEMO_CMD=$(sed -n 2p "$SRC/demo_dst.txt"); fi
# without the change: demo passes
cp "$SRC/demo.rs" "$DEMO_DST"
timeout 900 $DEMO_CMD >>"$LOG" 2>&1; base=$?
git apply "$SRC/patch.diff"
timeout 900 $DEMO_CMD >>"$LOG" 2>&1; mut=$?
rm -f "$DEMO_DST"
timeout 1200 cargo test --workspace --no-fail-fast --offline >"$LOG.suite" 2>&1; suite=$?
passed=$(grep -E "^test result" "$LOG.suite" | sed -E 's/.* ([0-9]+) passed.*/\1/' | paste -sd+ | bc)
failed=$(grep -E "^test result" "$LOG.suite" | sed -E 's/.* ([0-9]+) failed.*/\1/' | paste -sd+ | bc)
echo "RESULT $ID: demo_without_change_exit=$base demo_with_change_exit=$mut suite_exit=$suite passed=$passed failed=$failed"
ok=0
if [ "$base" = 0 ] && [ "$mut" != 0 ] && [ "$suite" = 0 ] && [ "$failed" = 0 ]; then
  ok=1
  mkdir -p /verif/seeded/$ID
  cp "$SRC/patch.diff" "$SRC/demo.rs" /verif/seeded/$ID/
  [ -f "$SRC/demo_dst.txt" ] && cp "$SRC/demo_dst.txt" /verif/seeded/$ID/
  python3 - "$SRC/meta.json" /verif/seeded/$ID/meta.json "$passed" "$DEMO_CMD" "$DEMO_DST" <<'PY'
import json,sys
m=json.load(open(sys.argv[1]))
m["confirmed"]={"base_commit": __import__("subprocess").check_output(["git","-C","/repo","rev-parse","--short","HEAD"],text=True).strip(),
  "ran": ["git apply patch.diff in a scratch worktree of /repo HEAD",
          "cargo test --workspace --no-fail-fast --offline  -> %s passed, 0 failed (with the change)"%sys.argv[3],
          "demo copied to %s; `%s` -> fails with the change, passes without it"%(sys.argv[5],sys.argv[4])]}
json.dump(m,open(sys.argv[2],"w"),indent=1)
PY
  echo "CONFIRMED $ID -> /verif/seeded/$ID"
else
  echo "NOT CONFIRMED $ID (see $LOG, $LOG.suite)"
fi
cleanup
exit $((1-ok))
