#!/usr/bin/env python3
"""Regenerate /verif/MANIFEST.json from the claim table below (single source of truth for claims)."""
import json, os, sys
VERIF = os.path.dirname(os.path.dirname(os.path.abspath(__file__)))
sys.path.insert(0, VERIF)
from tools.claims import CLAIMS, NOT_APPLICABLE, PENDING

NOTE = ("Trusted: rustc's type checker, MIR construction and Instance resolution on the pinned nightly; that cargo "
        "check (dev profile) sees the same non-test items as the test build; the mwfacts serialisation; external "
        "callees not listed as panicking are total. The check decides the named structural clauses (necessary "
        "conditions), not the behaviour; see DESIGN.md for what is explicitly not decided.")

def main():
    checks = []
    for pid, c in sorted(CLAIMS.items()):
        checks.append({
            "property_id": pid,
            "quick_cmd": "./check %s --tier quick" % pid,
            "thorough_cmd": "./check %s --tier thorough" % pid,
            "evidence_file": "evidence/%s.json" % pid,
            "replay_cmd_template": "./check %s --explain {path}" % pid,
            "engine": "mwcheck",
            "level_claimed": {"category": "other", "text": c["text"], "design_ref": c["design_ref"]},
            "level_note": NOTE,
            "technique": c["technique"],
        })
    na = [{"property_id": p, "reason": r} for p, r in sorted({**NOT_APPLICABLE, **PENDING}.items())]
    m = {
        "version": 1,
        "setup_cmd": "python3 -m mwcheck.extract warm",
        "hooks": {
            "guard": "marwood_verif",
            "enable": "none needed: static analysis reads the unmodified source; no hook commits exist",
            "baseline_off_cmd": "cd /repo && cargo test --workspace --no-fail-fast --offline",
            "source_commits": [],
            "add_only": True,
        },
        "engines": [
            {"name": "mwfacts", "path": "driver/", "serves_properties": sorted(CLAIMS),
             "kind_free_text": "rustc_private driver (RUSTC_WORKSPACE_WRAPPER under cargo +nightly check): dumps MIR CFGs, resolved callees, constants, HIR type spellings as JSON; executes nothing under /repo"},
            {"name": "mwcheck", "path": "mwcheck/", "serves_properties": sorted(CLAIMS),
             "kind_free_text": "Python stdlib: call graph with explicit indirect edges, dominators/must-pass-through, def-use label propagation, liveness, arm splitting, table recovery; one rule pack per property"},
        ],
        "checks": checks,
        "not_applicable": na,
        "notes": "Technique family: static analysis only. Level 'other' everywhere: each check decides structural necessary conditions of its property on every path of the built program. Genuine defects found on the pinned tree are either repaired (fix: commits in /repo, listed under 'fixed' in known_findings.json) or listed as known findings keyed by construct.",
    }
    with open(os.path.join(VERIF, "MANIFEST.json"), "w") as f:
        json.dump(m, f, indent=1)
    print("MANIFEST.json: %d checks, %d not claimed" % (len(checks), len(na)))

main()
