"""S1: workspace call graph over resolved instances, with explicit indirect edges."""
import re
from collections import defaultdict

from .facts import callee

LOCAL_TY = re.compile(r"marwood(?:_repl|_wasm)?::[A-Za-z0-9_:]+")

FMT_CTORS = {
    "new_display": "std::fmt::Display",
    "new_debug": "std::fmt::Debug",
    "new_lower_hex": "std::fmt::LowerHex",
    "new_upper_hex": "std::fmt::UpperHex",
    "new_octal": "std::fmt::Octal",
    "new_binary": "std::fmt::Binary",
    "new_lower_exp": "std::fmt::LowerExp",
    "new_upper_exp": "std::fmt::UpperExp",
    "new_pointer": "std::fmt::Pointer",
}

FORWARD_TRAITS = {
    "std::clone::Clone::clone": "std::clone::Clone",
    "std::clone::Clone::clone_from": "std::clone::Clone",
    "std::cmp::PartialEq::eq": "std::cmp::PartialEq",
    "std::cmp::PartialEq::ne": "std::cmp::PartialEq",
    "std::hash::Hash::hash": "std::hash::Hash",
    "std::fmt::Debug::fmt": "std::fmt::Debug",
    "std::fmt::Display::fmt": "std::fmt::Display",
    "std::cmp::PartialOrd::partial_cmp": "std::cmp::PartialOrd",
    "std::string::ToString::to_string": "std::fmt::Display",
}


class CallGraph:
    def __init__(self, facts):
        self.facts = facts
        self.out = defaultdict(set)       # caller -> {callee}
        self.inn = defaultdict(set)
        self.sites = defaultdict(list)    # (caller, callee) -> [(bb, term, kind)]
        self.registry = {}                # builtin fn path -> [(registrar fn, scheme name or None)]
        self.indirect_sites = []          # (fn, bb, term)
        self.unresolved = []              # (fn, bb, term) calls with no resolved instance
        self.external = defaultdict(int)  # external callee -> count
        self.drop_types = defaultdict(list)  # fn -> [(bb, type str)]
        self._impls = defaultdict(list)   # (trait, method) -> [fn paths]
        for p, f in facts.fns.items():
            if f.impl_trait:
                m = p.rsplit("::", 1)[-1]
                self._impls[(f.impl_trait, m)].append(p)
        self._build()

    def _edge(self, a, b, bb, t, kind):
        self.out[a].add(b)
        self.inn[b].add(a)
        self.sites[(a, b)].append((bb, t, kind))

    def _trait_impls_for(self, trait, method, ty_text):
        """local impls `<T as trait>::method` for every local type T mentioned in ty_text"""
        outs = []
        for m in set(LOCAL_TY.findall(ty_text or "")):
            cand = "<%s as %s>::%s" % (m, trait, method)
            if cand in self.facts.fns:
                outs.append(cand)
        return outs

    def _build(self):
        fns = self.facts.fns
        # registry: every ReifyFnPointer cast of a local fn
        for p, f in fns.items():
            for bb, j, s in f.stmts():
                rv = s["rv"]
                if rv["k"] == "cast" and rv.get("reify"):
                    tgt = rv["reify"]
                    if tgt in fns:
                        self.registry.setdefault(tgt, []).append((p, bb, s))
                if rv["k"] == "agg" and rv.get("closure"):
                    c = rv["closure"]
                    if c in fns:
                        self._edge(p, c, bb, s, "closure-construct")
        for p, f in fns.items():
            for bb, t in f.calls():
                if "indirect" in t:
                    self.indirect_sites.append((f, bb, t))
                    continue
                c = callee(t)
                if c in fns:
                    self._edge(p, c, bb, t, "call")
                else:
                    self.external[c] += 1
                    if "res" not in t:
                        self.unresolved.append((f, bb, t))
                # closures / fn items passed as generic arguments
                for ga in t.get("gargs", []):
                    if ga.get("closure") in fns:
                        self._edge(p, ga["closure"], bb, t, "closure-arg")
                    if ga.get("fndef") in fns:
                        self._edge(p, ga["fndef"], bb, t, "fn-arg")
                w = t.get("fn", "")
                # dyn dispatch / unresolved trait method: every local impl of that method
                if t.get("reskind") == "virtual" or ("res" not in t and "::" in w):
                    tr, _, m = w.rpartition("::")
                    for imp in self._impls.get((tr, m), []):
                        self._edge(p, imp, bb, t, "dyn")
                    if w == "std::convert::Into::into":
                        m_ = re.search(r"Into<(.*)>>::into$", t.get("fnargs") or "")
                        for imp in self._impls.get(("std::convert::From", "from"), []):
                            if m_ and fns[imp].impl_self == m_.group(1):
                                self._edge(p, imp, bb, t, "dyn")
                # formatting machinery
                last = w.rsplit("::", 1)[-1]
                if "fmt::rt::Argument" in w and last in FMT_CTORS:
                    tys = " ".join(g["ty"] for g in t.get("gargs", []))
                    for imp in self._trait_impls_for(FMT_CTORS[last], "fmt", tys):
                        self._edge(p, imp, bb, t, "fmt")
                # std forwarding impls (Box<T>, Vec<T>, &T, Option<T>, tuples ...)
                if c not in fns and w in FORWARD_TRAITS:
                    tys = " ".join(g["ty"] for g in t.get("gargs", [])[:1])
                    if "Clone" in w and tys.startswith(("std::rc::Rc<", "std::sync::Arc<", "&")):
                        tys = ""   # cloning an Rc / a reference does not clone the pointee
                    m = w.rsplit("::", 1)[-1]
                    if m == "to_string":
                        m = "fmt"
                    for imp in self._trait_impls_for(FORWARD_TRAITS[w], m, tys):
                        self._edge(p, imp, bb, t, "forward")
            for bb, b in enumerate(f.blocks):
                if b.get("cleanup"):
                    continue
                t = b["term"]
                if t["k"] == "drop":
                    self.drop_types[p].append((bb, t["place"]["ty"]))
        # the function-pointer slot: indirect call sites may reach every registry entry
        for f, bb, t in self.indirect_sites:
            for tgt in self.registry:
                self._edge(f.path, tgt, bb, t, "fnptr")

    # ------------------------------------------------------------ queries
    def callers(self, path):
        return set(self.inn.get(path, ()))

    def reachable_from(self, roots, avoid=()):
        avoid = set(avoid)
        seen = set(r for r in roots if r not in avoid)
        st = list(seen)
        while st:
            x = st.pop()
            for y in self.out.get(x, ()):
                if y not in seen and y not in avoid:
                    seen.add(y)
                    st.append(y)
        return seen

    def reaches(self, a, b, avoid=()):
        return b in self.reachable_from([a], avoid)

    def path(self, a, b, avoid=()):
        """one shortest call path a -> b (list of fn paths) or None"""
        from collections import deque
        avoid = set(avoid)
        prev = {a: None}
        q = deque([a])
        while q:
            x = q.popleft()
            if x == b:
                out = []
                while x is not None:
                    out.append(x)
                    x = prev[x]
                return out[::-1]
            for y in sorted(self.out.get(x, ())):
                if y not in prev and y not in avoid:
                    prev[y] = x
                    q.append(y)
        return None

    def sccs(self, nodes=None):
        """Tarjan SCCs (iterative) over `nodes` (default: all local fns). Returns list of lists."""
        nodes = list(nodes) if nodes is not None else list(self.facts.fns)
        nodeset = set(nodes)
        index = {}
        low = {}
        onst = set()
        st = []
        out = []
        counter = [0]
        for root in nodes:
            if root in index:
                continue
            work = [(root, iter(sorted(y for y in self.out.get(root, ()) if y in nodeset)))]
            index[root] = low[root] = counter[0]
            counter[0] += 1
            st.append(root)
            onst.add(root)
            while work:
                v, it = work[-1]
                adv = False
                for w in it:
                    if w not in index:
                        index[w] = low[w] = counter[0]
                        counter[0] += 1
                        st.append(w)
                        onst.add(w)
                        work.append((w, iter(sorted(y for y in self.out.get(w, ()) if y in nodeset))))
                        adv = True
                        break
                    elif w in onst:
                        low[v] = min(low[v], index[w])
                if adv:
                    continue
                work.pop()
                if work:
                    u = work[-1][0]
                    low[u] = min(low[u], low[v])
                if low[v] == index[v]:
                    comp = []
                    while True:
                        w = st.pop()
                        onst.discard(w)
                        comp.append(w)
                        if w == v:
                            break
                    out.append(comp)
        return out
