"""Fact loader and per-function CFG / def-use utilities (S2, S3 of DESIGN.md)."""
import json
import os
from collections import defaultdict


def place_str(p):
    s = "_%d" % p["l"]
    for e in p["p"]:
        if e == "*":
            s = "(*%s)" % s
        elif isinstance(e, dict):
            if "f" in e:
                s = "%s.%s" % (s, e["n"])
            elif "dc" in e:
                s = "(%s as %s)" % (s, e["dc"])
            elif "idx" in e:
                s = "%s[_%d]" % (s, e["idx"])
            elif "ci" in e:
                s = "%s[%d]" % (s, e["ci"])
            else:
                s = "%s{%s}" % (s, json.dumps(e))
        else:
            s = "%s{%s}" % (s, e)
    return s


def op_place(op):
    if op is None:
        return None
    return op.get("copy") or op.get("move")


def op_const(op):
    return op.get("const") if op else None


def op_local(op):
    """local index if operand is a bare local (no projection)"""
    p = op_place(op)
    if p is not None and not p["p"]:
        return p["l"]
    return None


def op_str(op):
    p = op_place(op)
    if p is not None:
        return place_str(p)
    c = op_const(op)
    if c is not None:
        return "const " + c.get("text", "?")
    return json.dumps(op)


def field_names(p):
    return [e["n"] for e in p["p"] if isinstance(e, dict) and "f" in e]


def loc_str(loc):
    if not loc:
        return "?"
    return "%s:%d" % (loc.get("file", "?"), loc.get("line", 0))


class Fn:
    def __init__(self, d, crate):
        self.d = d
        self.crate = crate
        self.path = d["path"]
        self.kind = d["kind"]
        self.vis = d.get("vis", "")
        self.argc = d["argc"]
        self.span = d["span"]
        self.locals = d["locals"]
        self.blocks = d["blocks"]
        self.promoted = d.get("promoted")
        self.parent = d.get("parent")
        self.impl_self = d.get("impl_self")
        self.impl_trait = d.get("impl_trait")
        self.names = {}
        for nm, pl in d.get("names", []):
            if not pl["p"]:
                self.names.setdefault(pl["l"], nm)
        self.var_places = [(nm, pl) for nm, pl in d.get("names", [])]
        n = len(self.blocks)
        self.succ = [[] for _ in range(n)]
        self.pred = [[] for _ in range(n)]
        for i, b in enumerate(self.blocks):
            for t in self.term_targets(b["term"]):
                if t is not None and t not in self.succ[i]:
                    self.succ[i].append(t)
        for i in range(n):
            for t in self.succ[i]:
                self.pred[t].append(i)
        self._dom = None
        self._pdom = None
        self._defs = None
        self._reach = None

    # ------------------------------------------------------------ basics
    @property
    def short(self):
        return short_path(self.path)

    @property
    def file(self):
        return self.span.get("file")

    @staticmethod
    def term_targets(t):
        k = t["k"]
        if k in ("goto", "drop", "assert"):
            return [t["target"]]
        if k == "call":
            return [t["target"]] if t.get("target") is not None else []
        if k == "switch":
            return [x[1] for x in t["targets"]] + [t["otherwise"]]
        return []

    def is_cleanup(self, b):
        return self.blocks[b].get("cleanup", False)

    def local_name(self, l):
        return self.names.get(l, "_%d" % l)

    def calls(self):
        for i, b in enumerate(self.blocks):
            if b.get("cleanup"):
                continue
            t = b["term"]
            if t["k"] == "call":
                yield i, t

    def stmts(self):
        for i, b in enumerate(self.blocks):
            if b.get("cleanup"):
                continue
            for j, s in enumerate(b["stmts"]):
                yield i, j, s

    def return_blocks(self):
        return [i for i, b in enumerate(self.blocks)
                if b["term"]["k"] == "return" and not b.get("cleanup")]

    def reachable(self):
        if self._reach is None:
            seen = {0}
            st = [0]
            while st:
                x = st.pop()
                for y in self.succ[x]:
                    if y not in seen:
                        seen.add(y)
                        st.append(y)
            self._reach = seen
        return self._reach

    # ------------------------------------------------------------ dominators
    def dominators(self):
        """dom[b] = set of blocks dominating b (including b), over blocks reachable from entry."""
        if self._dom is not None:
            return self._dom
        reach = sorted(self.reachable())
        allb = set(reach)
        dom = {b: set(allb) for b in reach}
        dom[0] = {0}
        changed = True
        # reverse post-order would be faster; sizes here are small
        while changed:
            changed = False
            for b in reach:
                if b == 0:
                    continue
                ps = [p for p in self.pred[b] if p in allb]
                if not ps:
                    new = {b}
                else:
                    new = set.intersection(*(dom[p] for p in ps)) | {b}
                if new != dom[b]:
                    dom[b] = new
                    changed = True
        self._dom = dom
        return dom

    def dominates(self, a, b):
        d = self.dominators()
        return b in d and a in d[b]

    def reach_from(self, start, avoid=(), succ=None):
        """blocks reachable from `start` (inclusive) without entering blocks in `avoid`"""
        succ = succ or self.succ
        avoid = set(avoid)
        if start in avoid:
            return set()
        seen = {start}
        st = [start]
        while st:
            x = st.pop()
            for y in succ[x]:
                if y not in seen and y not in avoid:
                    seen.add(y)
                    st.append(y)
        return seen

    def reach_back(self, start, avoid=()):
        return self.reach_from(start, avoid, succ=self.pred)

    def edge_dominated(self, src, dst):
        """blocks that can only be reached through the edge src->dst
        (approximation: dst has a single predecessor => blocks dominated by dst)."""
        if len([p for p in self.pred[dst] if p in self.reachable()]) != 1:
            return set()
        return {b for b in self.reachable() if self.dominates(dst, b)}

    def back_edges(self):
        out = []
        for b in self.reachable():
            for s_ in self.succ[b]:
                if self.dominates(s_, b):
                    out.append((b, s_))
        return out

    # ------------------------------------------------------------ def-use
    def defs(self):
        """local -> list of (bb, idx or 'term', kind, payload). Only whole-local writes
        (no projection) are definitions; projected writes are recorded as 'partial'."""
        if self._defs is not None:
            return self._defs
        d = defaultdict(list)
        for i, b in enumerate(self.blocks):
            if b.get("cleanup"):
                continue
            for j, s in enumerate(b["stmts"]):
                l = s["lhs"]
                if not l["p"]:
                    d[l["l"]].append((i, j, "assign", s))
                else:
                    d[l["l"]].append((i, j, "partial", s))
            t = b["term"]
            if t["k"] == "call":
                l = t["dest"]
                if not l["p"]:
                    d[l["l"]].append((i, "term", "call", t))
                else:
                    d[l["l"]].append((i, "term", "partial", t))
        self._defs = d
        return d

    def single_def(self, local):
        ds = [x for x in self.defs().get(local, []) if x[2] != "partial"]
        if len(ds) == 1:
            return ds[0]
        return None

    def origin(self, op, depth=12):
        """Follow copies/moves/refs/derefs back to a root description.
        Returns a tuple describing where the value came from:
          ('arg', n, proj) | ('call', term, bb) | ('const', c) | ('rv', stmt, bb) | ('local', l, proj)
        `proj` is the accumulated list of field names along the way (outermost last)."""
        proj = []
        cur = op
        for _ in range(depth):
            c = op_const(cur)
            if c is not None:
                return ("const", c, proj)
            p = op_place(cur)
            if p is None:
                return ("unknown", cur, proj)
            fl = [e for e in p["p"] if e != "*"]
            proj = fl + proj
            l = p["l"]
            if 1 <= l <= self.argc:
                return ("arg", l, proj)
            sd = self.single_def(l)
            if sd is None:
                return ("local", l, proj)
            bb, idx, kind, payload = sd
            if kind == "call":
                # `x?` : Try::branch(x) matched as Continue(v)  ==>  the Ok/Some payload of x
                cn = payload.get("fnargs") or ""
                if cn.endswith("as std::ops::Try>::branch") and len(proj) >= 2 and isinstance(proj[0], dict) \
                        and proj[0].get("dc") == "Continue" and payload["args"]:
                    which = "Some" if cn.startswith("<std::option::Option") else "Ok"
                    proj = [{"dc": which}, {"f": 0, "n": "0"}] + proj[2:]
                    cur = payload["args"][0]
                    continue
                return ("call", payload, proj, bb)
            rv = payload["rv"]
            if rv["k"] == "use":
                cur = rv["a"]
                continue
            if rv["k"] == "ref":
                cur = {"copy": rv["place"]}
                continue
            if rv["k"] == "cast" and rv["ck"] in ("PtrToPtr", "Transmute") :
                cur = rv["a"]
                continue
            return ("rv", payload, proj, bb)
        return ("deep", cur, proj)


def short_path(p):
    """Compact, line-free function name for keys: drop crate/module prefixes inside impl headers."""
    import re
    s = p
    s = s.replace("marwood::vm::", "vm::").replace("marwood::", "")
    s = re.sub(r"<impl ([^>]*)>", lambda m: "<" + m.group(1).split("::")[-1] + ">", s)
    s = s.replace("std::", "").replace("core::", "")
    return s


class Facts:
    def __init__(self, facts_dir, crates=("marwood", "marwood_repl", "marwood_wasm")):
        self.dir = facts_dir
        self.fns = {}
        self.promoted = {}
        self.adts = {}
        self.census = {}
        self.by_crate = defaultdict(list)
        for c in crates:
            with open(os.path.join(facts_dir, c + ".json")) as f:
                d = json.load(f)
            self.census[c] = d["census"]
            for a in d["adts"]:
                self.adts[a["path"]] = a
            for fd in d["fns"]:
                fn = Fn(fd, c)
                if fn.promoted is not None:
                    self.promoted[(fn.path, fn.promoted)] = fn
                else:
                    if fn.path in self.fns:
                        # same def path twice (cfg'd twins never coexist) — keep first, count it
                        self.census.setdefault("_dup", []).append(fn.path)
                        continue
                    self.fns[fn.path] = fn
                    self.by_crate[c].append(fn)

    def fn(self, path):
        return self.fns.get(path)

    def find(self, suffix, crate=None):
        """functions whose path ends with `suffix` (on a :: boundary)"""
        out = []
        for p, f in self.fns.items():
            if crate and f.crate != crate:
                continue
            if p == suffix or p.endswith("::" + suffix):
                out.append(f)
        return out

    def one(self, suffix, crate=None):
        fs = self.find(suffix, crate)
        if len(fs) == 1:
            return fs[0]
        return None

    def closures_of(self, fn):
        pre = fn.path + "::{closure#"
        return [f for p, f in self.fns.items() if p.startswith(pre)]

    def total_census(self):
        out = defaultdict(int)
        for c, d in self.census.items():
            if c.startswith("_"):
                continue
            for k, v in d.items():
                out[k] += v
        out["fns_indexed"] = len(self.fns)
        out["adts"] = len(self.adts)
        return dict(out)


def callee(t):
    """resolved callee path of a call terminator (falls back to the path as written)"""
    return t.get("res") or t.get("fn")


def callee_w(t):
    return t.get("fn")
