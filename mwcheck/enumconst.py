"""Enum-constant propagation over one MIR body.

Code that touches values of a field-less enum only through equality tests and `match` has, for each choice of those
values, a path that can be followed statically: discriminant reads, `PartialEq::eq` between two known variants and
`Clone::clone` of a known variant are evaluated, switches on known values take one edge, everything else is unknown
and forks.  The result is the set of blocks (and callees) reachable for that choice — enough to recover
classification tables ("which token types bump the counter").  Nothing of /repo is executed.
"""
import json
from .facts import callee, op_const, op_place

MAX_STATES = 4000


class Budget(Exception):
    pass


class EnumConst:
    def __init__(self, facts, fn, adt_path, input_field):
        self.facts, self.fn, self.adt = facts, fn, adt_path
        self.variants = [v["name"] for v in facts.adts[adt_path]["variants"]]
        self.input_field = input_field

    # ---- values: ("E", name) | ("B", bool) | ("I", int) | ("T", tuple) | ("P", place) | None
    def read(self, pl, env, inp):
        cur = env.get(pl["l"])
        proj = list(pl["p"])
        i = 0
        while i < len(proj):
            e = proj[i]
            if e == "*":
                if cur is not None and cur[0] == "P":
                    cur = self.read(json.loads(cur[1]), env, inp)
                else:
                    cur = None
            elif isinstance(e, dict) and "f" in e:
                if cur is not None and cur[0] == "T" and e["f"] < len(cur[1]):
                    cur = cur[1][e["f"]]
                elif e.get("n") == self.input_field and cur is None:
                    cur = ("E", inp) if inp is not None else None
                else:
                    cur = None
            elif isinstance(e, dict) and "dc" in e:
                pass          # downcast keeps the value
            else:
                cur = None
            i += 1
        return cur

    def operand(self, op, env, inp):
        c = op_const(op)
        if c is not None:
            if c.get("ty") == "bool" and "int" in c:
                return ("B", bool(c["int"]))
            if "int" in c:
                try:
                    return ("I", int(c["int"]))
                except (TypeError, ValueError):
                    return None
            return None
        pl = op_place(op)
        if pl is None:
            return None
        return self.read(pl, env, inp)

    def deref(self, v, env, inp):
        for _ in range(4):
            if v is not None and v[0] == "P":
                v = self.read(json.loads(v[1]), env, inp)
            else:
                break
        return v

    def stmt(self, st, env, inp):
        lhs = st["lhs"]
        rv = st["rv"]
        k = rv["k"]
        val = None
        if k == "use":
            val = self.operand(rv["a"], env, inp)
        elif k == "ref":
            pl = rv["place"]
            # &(*r) of a stored reference is that reference
            if pl["p"] == ["*"] and env.get(pl["l"]) is not None and env[pl["l"]][0] == "P":
                val = env[pl["l"]]
            else:
                val = ("P", json.dumps(pl, sort_keys=True))
        elif k == "agg":
            if rv.get("adt") == self.adt and not rv["ops"]:
                val = ("E", rv.get("variant"))
            elif rv.get("adt") == "(tuple)":
                val = ("T", tuple(self.operand(o, env, inp) for o in rv["ops"]))
        elif k == "disc":
            v = self.deref(self.read(rv["place"], env, inp), env, inp)
            if v is not None and v[0] == "E" and v[1] in self.variants:
                val = ("I", self.variants.index(v[1]))
        elif k == "bin" and rv["op"] in ("Eq", "Ne"):
            a, b = self.operand(rv["a"], env, inp), self.operand(rv["b"], env, inp)
            if a is not None and b is not None and a[0] == b[0] and a[0] in ("I", "B", "E"):
                r = a[1] == b[1]
                val = ("B", r if rv["op"] == "Eq" else not r)
        elif k == "un" and rv["op"] == "Not":
            a = self.operand(rv["a"], env, inp)
            if a is not None and a[0] == "B":
                val = ("B", not a[1])
        if not lhs["p"]:
            if val is None:
                env.pop(lhs["l"], None)
            else:
                env[lhs["l"]] = val
        # writes through projections are ignored (only whole-local tracking)

    def explore(self, start, env0, inp, stops=()):
        """returns (blocks visited, callees seen, exits) where exits is a set of ('return'|'stop', bb)"""
        fn = self.fn
        stops = set(stops)
        seen = set()
        visited, calls, exits = set(), set(), set()
        work = [(start, tuple(sorted(env0.items(), key=repr)))]
        n = 0
        while work:
            bb, env_t = work.pop()
            if (bb, env_t) in seen:
                continue
            seen.add((bb, env_t))
            n += 1
            if n > MAX_STATES:
                raise Budget()
            env = dict(env_t)
            visited.add(bb)
            b = fn.blocks[bb]
            for st in b["stmts"]:
                self.stmt(st, env, inp)
            t = b["term"]
            k = t["k"]
            nxt = []
            if k == "return":
                exits.add(("return", bb))
                continue
            if k in ("goto", "drop", "assert"):
                nxt = [t["target"]]
            elif k == "switch":
                v = self.deref(self.operand(t["op"], env, inp), env, inp)
                val = None
                if v is not None and v[0] == "I":
                    val = v[1]
                elif v is not None and v[0] == "B":
                    val = 1 if v[1] else 0
                if val is not None:
                    tg = [target for x, target in t["targets"] if x == val]
                    nxt = [tg[0] if tg else t["otherwise"]]
                else:
                    nxt = list(dict.fromkeys([tg for _, tg in t["targets"]] + [t["otherwise"]]))
            elif k == "call":
                c = callee(t) or ""
                fa = t.get("fnargs") or c
                calls.add(c)
                res = None
                args = [self.deref(self.operand(a, env, inp), env, inp) for a in t["args"]]
                if self.adt + " as std::cmp::PartialEq>::eq" in fa or self.adt + " as std::cmp::PartialEq>::ne" in fa:
                    if len(args) == 2 and all(a is not None and a[0] == "E" for a in args):
                        r = args[0][1] == args[1][1]
                        res = ("B", r if fa.endswith("::eq") else not r)
                elif self.adt + " as std::clone::Clone>::clone" in fa:
                    if args and args[0] is not None and args[0][0] == "E":
                        res = args[0]
                if not t["dest"]["p"]:
                    if res is None:
                        env.pop(t["dest"]["l"], None)
                    else:
                        env[t["dest"]["l"]] = res
                if t.get("target") is None:
                    continue
                nxt = [t["target"]]
            else:
                continue
            for y in nxt:
                if y in stops:
                    exits.add(("stop", y, tuple(sorted(env.items(), key=repr))))
                    continue
                if fn.blocks[y].get("cleanup"):
                    continue
                work.append((y, tuple(sorted(env.items(), key=repr))))
        return visited, calls, exits, seen
