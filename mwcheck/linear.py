"""Linear forms over MIR values: an integer-valued operand is summarised as  c0 + sum(ci * symbol_i)  by following
its single-definition chain through Add / Sub (checked or not), multiplication by a constant and integer casts.
Everything else is an opaque symbol. Loop variables (the payload of Range::next, Rev<Range>::next, Enumerate::next)
are symbols that carry the range they run over, so a form can be evaluated at the first / one-past-last iteration.

No solver, no execution: this is term rewriting over the def-use chain."""
from .facts import callee, op_const, op_place


class Sym:
    """identity of an opaque value inside one function"""
    __slots__ = ("key", "show", "loop")

    def __init__(self, key, show, loop=None):
        self.key, self.show, self.loop = key, show, loop

    def __hash__(self):
        return hash(self.key)

    def __eq__(self, o):
        return isinstance(o, Sym) and o.key == self.key

    def __repr__(self):
        return self.show


class Lin:
    def __init__(self, const=0, terms=None):
        self.c = const
        self.t = {k: v for k, v in (terms or {}).items() if v != 0}

    def __add__(self, o):
        t = dict(self.t)
        for k, v in o.t.items():
            t[k] = t.get(k, 0) + v
        return Lin(self.c + o.c, t)

    def scale(self, k):
        return Lin(self.c * k, {s: v * k for s, v in self.t.items()})

    def __sub__(self, o):
        return self + o.scale(-1)

    def __eq__(self, o):
        return isinstance(o, Lin) and self.c == o.c and self.t == o.t

    def subst(self, sym, form):
        if sym not in self.t:
            return self
        k = self.t[sym]
        rest = Lin(self.c, {s: v for s, v in self.t.items() if s != sym})
        return rest + form.scale(k)

    def symbols(self):
        return set(self.t)

    def loops(self):
        return [s for s in self.t if s.loop is not None]

    def is_single(self):
        """a constant, or exactly one symbol with coefficient 1 and no constant"""
        if not self.t:
            return True
        return self.c == 0 and len(self.t) == 1 and list(self.t.values())[0] == 1

    def __repr__(self):
        parts = []
        for s, v in sorted(self.t.items(), key=lambda kv: kv[0].show):
            if v == 1:
                parts.append("+ %s" % s.show)
            elif v == -1:
                parts.append("- %s" % s.show)
            else:
                parts.append("%s %d*%s" % ("+" if v > 0 else "-", abs(v), s.show))
        if self.c or not parts:
            parts.append("%s %d" % ("+" if self.c >= 0 else "-", abs(self.c)))
        out = " ".join(parts)
        return out[2:] if out.startswith("+ ") else out


def _int(c):
    v = c.get("int")
    if v is None:
        return None
    try:
        return int(v)
    except (TypeError, ValueError):
        return None


class Linear:
    """per-function evaluator"""

    def __init__(self, fn):
        self.fn = fn
        self.cache = {}

    def name(self, l):
        return self.fn.names.get(l) or "_%d" % l

    def _hint(self, op):
        """debug name of the first named local on the copy chain of an operand"""
        fn = self.fn
        cur = op
        for _ in range(8):
            pl = op_place(cur)
            if pl is None:
                return None
            if not pl["p"] and pl["l"] in fn.names:
                return fn.names[pl["l"]]
            sd = fn.single_def(pl["l"])
            if sd is None or sd[2] != "assign" or sd[3]["rv"]["k"] != "use":
                return None
            cur = sd[3]["rv"]["a"]
        return None

    def _range_of(self, it_op):
        """(kind, lo, hi) for the iterator operand of a next() call: Range, Rev<Range>, Enumerate<..>"""
        fn = self.fn
        o = fn.origin(it_op)
        rev = False
        enum = False
        for _ in range(6):
            if o[0] == "call":
                c = callee(o[1]) or ""
                if c.endswith("::into_iter") or c.endswith("Iterator::by_ref"):
                    o = fn.origin(o[1]["args"][0])
                    continue
                if c.endswith("Iterator::rev"):
                    rev = not rev
                    o = fn.origin(o[1]["args"][0])
                    continue
                if c.endswith("Iterator::enumerate"):
                    enum = True
                    break
            break
        if enum:
            return ("enumerate", None, None)
        if o[0] == "rv" and o[1]["rv"]["k"] == "agg" and (o[1]["rv"].get("adt") or "").startswith("std::ops::Range") \
                and len(o[1]["rv"]["ops"]) == 2:
            return ("rev" if rev else "range", o[1]["rv"]["ops"][0], o[1]["rv"]["ops"][1])
        return None

    def of(self, op, depth=10):
        fn = self.fn
        c = op_const(op)
        if c is not None:
            v = _int(c)
            if v is not None:
                return Lin(v)
            return Lin(0, {Sym(("const", c.get("text")), "const"): 1})
        if depth <= 0:
            return Lin(0, {Sym(("deep", id(op)), "?"): 1})
        o = fn.origin(op)
        k = o[0]
        proj = o[2] if len(o) > 2 else []
        pj = tuple((e.get("n") if "f" in e else e.get("dc") or str(e)) if isinstance(e, dict) else str(e) for e in proj)
        if k == "const":
            v = _int(o[1])
            if v is not None and not proj:
                return Lin(v)
            return Lin(0, {Sym(("const", o[1].get("text"), pj), "const"): 1})
        if k == "arg":
            return Lin(0, {Sym(("arg", o[1], pj), self.name(o[1]) + "".join("." + str(x) for x in pj)): 1})
        if k == "local":
            return Lin(0, {Sym(("local", o[1], pj), self.name(o[1]) + "".join("." + str(x) for x in pj)): 1})
        if k == "call":
            t = o[1]
            cal = callee(t) or ""
            if cal.endswith("::next") and "Iterator" in (t.get("fnargs") or cal) or cal.endswith("Iterator>::next") or \
                    ("iter::range" in cal and cal.endswith("::next")):
                r = self._range_of(t["args"][0])
                if r is not None:
                    kind, lo, hi = r
                    if kind == "enumerate":
                        if pj[:3] == ("Some", "0", "0"):
                            s = Sym(("loop", o[3]), "k", loop=("enumerate", Lin(0), None))
                            return Lin(0, {s: 1})
                    elif pj[:2] == ("Some", "0") and len(pj) == 2:
                        s = Sym(("loop", o[3]), "i", loop=(kind, self.of(lo, depth - 1), self.of(hi, depth - 1)))
                        return Lin(0, {s: 1})
            short = cal.rsplit("::", 1)[-1]
            return Lin(0, {Sym(("call", o[3], pj), self._hint(op) or "%s()@%d" % (short, t["loc"]["line"])): 1})
        if k == "rv":
            st = o[1]
            rv = st["rv"]
            if rv["k"] == "bin":
                opn = rv["op"].replace("WithOverflow", "")
                want = ("0",) if "WithOverflow" in rv["op"] else ()
                if pj == want or (not pj and not want):
                    if opn == "Add":
                        return self.of(rv["a"], depth - 1) + self.of(rv["b"], depth - 1)
                    if opn == "Sub":
                        return self.of(rv["a"], depth - 1) - self.of(rv["b"], depth - 1)
                    if opn == "Mul":
                        a, b = self.of(rv["a"], depth - 1), self.of(rv["b"], depth - 1)
                        if not a.t:
                            return b.scale(a.c)
                        if not b.t:
                            return a.scale(b.c)
            if rv["k"] == "cast" and rv.get("ck") == "IntToInt" and not pj:
                return self.of(rv["a"], depth - 1)
            return Lin(0, {Sym(("rv", o[3], st["loc"]["line"], rv["k"], pj), self._hint(op) or "%s@%d" % (rv["k"], st["loc"]["line"])): 1})
        return Lin(0, {Sym(("unknown", id(op)), "?"): 1})

    def at_first(self, form):
        """substitute every loop symbol by the first value it takes (lo for a..b and for enumerate; hi-1 for rev)"""
        out = form
        for s in form.loops():
            kind, lo, hi = s.loop
            if kind == "rev":
                out = out.subst(s, hi - Lin(1))
            else:
                out = out.subst(s, lo)
        return out

    def at_lowest(self, form):
        out = form
        for s in form.loops():
            kind, lo, hi = s.loop
            out = out.subst(s, lo)
        return out

    def past_highest(self, form):
        """value at i = hi (one past the last index visited), None when the extent is unknown"""
        out = form
        for s in form.loops():
            kind, lo, hi = s.loop
            if hi is None:
                return None
            out = out.subst(s, hi)
        return out
