"""S4-lite: flow-insensitive label propagation over MIR locals (def-use closure).

At mir-opt-level 0 almost every temporary has a single definition, so a
flow-insensitive closure over `x = f(y...)` edges is close to exact; user
variables that are reassigned (loop cursors) join their labels.  Rules that use
this say so in their text.
"""
from collections import defaultdict

from .facts import op_place, callee


def rv_operands(rv):
    k = rv["k"]
    if k in ("use", "cast", "un", "repeat"):
        return [rv["a"]]
    if k == "bin":
        return [rv["a"], rv["b"]]
    if k == "agg":
        return list(rv["ops"])
    if k in ("ref", "rawptr", "disc"):
        return [{"copy": rv["place"]}]
    return []


def places_read(rv):
    out = []
    for o in rv_operands(rv):
        p = op_place(o)
        if p is not None:
            out.append(p)
    return out


class Labels:
    """labels[local] = set of labels.

    seed(fn, where, place) -> iterable of labels, called for every place read
    (where = ('stmt', bb, idx, stmt) or ('arg', bb, argidx, term)).
    call_transfer(term, arg_labels:list[set]) -> set of labels for the destination, or None for
    the default (union of argument labels).
    """

    def __init__(self, fn, seed=None, call_transfer=None, init=None, through_calls=True, recv_flow=False, keep=None):
        self.fn = fn
        self.labels = defaultdict(set)
        if init:
            for l, ls in init.items():
                self.labels[l] |= set(ls)
        self.seed = seed
        self.call_transfer = call_transfer
        self.through_calls = through_calls
        self.recv_flow = recv_flow
        self.keep = keep      # keep(local) -> bool: may this local carry labels at all (type filter)
        self._run()

    def of_place(self, p, where=None):
        ls = set(self.labels.get(p["l"], ()))
        if self.seed is not None:
            ls |= set(self.seed(self.fn, where, p) or ())
        return ls

    def of_op(self, op, where=None):
        p = op_place(op)
        if p is None:
            return set()
        return self.of_place(p, where)

    def _run(self):
        fn = self.fn
        changed = True
        it = 0
        while changed and it < 50:
            it += 1
            changed = False
            for bb, b in enumerate(fn.blocks):
                if b.get("cleanup"):
                    continue
                for j, s in enumerate(b["stmts"]):
                    ls = set()
                    for p in places_read(s["rv"]):
                        ls |= self.of_place(p, ("stmt", bb, j, s))
                    if ls and s["lhs"]["p"] and s["lhs"]["p"][0] == "*":
                        ls = set()      # a write through a reference does not change what the reference itself denotes
                    if ls and self.keep is not None and not self.keep(s["lhs"]["l"]):
                        ls = set()
                    if ls:
                        tgt = self.labels[s["lhs"]["l"]]
                        if not ls <= tgt:
                            tgt |= ls
                            changed = True
                t = b["term"]
                if t["k"] == "call":
                    al = [self.of_op(a, ("arg", bb, i, t)) for i, a in enumerate(t["args"])]
                    res = None
                    if self.call_transfer is not None:
                        res = self.call_transfer(t, al)
                    if res is None:
                        res = set().union(*al) if (al and self.through_calls) else set()
                    if res and self.keep is not None and not self.keep(t["dest"]["l"]):
                        res = set()
                    if res:
                        tgt = self.labels[t["dest"]["l"]]
                        if not res <= tgt:
                            tgt |= res
                            changed = True
                    # a tainted value written through a &mut argument: `x.push(v)` style sinks are
                    # handled by the rules; here we also let labels flow into the receiver local so
                    # that `vec.push(tainted); use(vec)` is seen.
                    if al and self.through_calls and self.recv_flow:
                        rest = set().union(*al[1:]) if len(al) > 1 else set()
                        p0 = op_place(t["args"][0]) if t["args"] else None
                        if rest and p0 is not None and t["args"] and "&mut" in (p0.get("ty") or ""):
                            base = self._ref_base(p0["l"])
                            if base is not None:
                                tgt = self.labels[base]
                                if not rest <= tgt:
                                    tgt |= rest
                                    changed = True

    def _ref_base(self, local):
        """if `local` is a temporary defined as `&mut X`, return X's base local"""
        sd = self.fn.single_def(local)
        if sd and sd[2] == "assign" and sd[3]["rv"]["k"] == "ref":
            return sd[3]["rv"]["place"]["l"]
        return None

    def call_arg_labels(self, t, bb=None):
        return [self.of_op(a, ("arg", bb, i, t)) for i, a in enumerate(t["args"])]


def fields_read_of_self(fn):
    """field names of `self` (arg 1) read anywhere in fn (accessor summary)"""
    out = set()
    def visit(p):
        if p["l"] == 1:
            for e in p["p"]:
                if isinstance(e, dict) and "f" in e:
                    out.add(e["n"])
                    break
    for bb, j, s in fn.stmts():
        for p in places_read(s["rv"]):
            visit(p)
    for bb, t in fn.calls():
        for a in t["args"]:
            p = op_place(a)
            if p:
                visit(p)
    return out


def term_reads(t):
    out = []
    k = t["k"]
    if k == "call":
        for a in t["args"]:
            p = op_place(a)
            if p is not None:
                out.append(p)
        if "indirect" in t:
            p = op_place(t["indirect"])
            if p is not None:
                out.append(p)
        if t["dest"]["p"]:
            out.append(t["dest"])
    elif k == "switch":
        p = op_place(t["op"])
        if p is not None:
            out.append(p)
    elif k == "assert":
        for o in [t["cond"]] + t["ops"]:
            p = op_place(o)
            if p is not None:
                out.append(p)
    elif k == "drop":
        out.append(t["place"])
    return out


def liveness(fn):
    """classic backward liveness over whole locals; returns live_in[bb] (sets of local indices)"""
    n = len(fn.blocks)
    use = [set() for _ in range(n)]
    dfn = [set() for _ in range(n)]
    for bb, b in enumerate(fn.blocks):
        if b.get("cleanup"):
            continue
        u, d = use[bb], dfn[bb]
        for s in b["stmts"]:
            for p in places_read(s["rv"]):
                if p["l"] not in d:
                    u.add(p["l"])
            if s["lhs"]["p"]:
                if s["lhs"]["l"] not in d:
                    u.add(s["lhs"]["l"])
            else:
                d.add(s["lhs"]["l"])
        t = b["term"]
        for p in term_reads(t):
            if p["l"] not in d:
                u.add(p["l"])
        if t["k"] == "call" and not t["dest"]["p"]:
            d.add(t["dest"]["l"])
        if t["k"] == "return" and 0 not in d:
            u.add(0)
    live_in = [set() for _ in range(n)]
    changed = True
    while changed:
        changed = False
        for bb in range(n - 1, -1, -1):
            out = set()
            for s_ in fn.succ[bb]:
                out |= live_in[s_]
            new = use[bb] | (out - dfn[bb])
            if new != live_in[bb]:
                live_in[bb] = new
                changed = True
    return live_in


def field_writes(facts, cg, path, depth=3, _seen=None):
    """fields written through a `self`/&mut receiver by `path` and (to `depth`) its local callees:
    set of 'Type.field' strings (Type = last path segment of the receiver's pointee type)"""
    _seen = _seen if _seen is not None else set()
    if path in _seen or depth < 0:
        return set()
    _seen.add(path)
    f = facts.fns.get(path)
    if f is None:
        return set()
    out = set()

    def visit(pl):
        if len(pl["p"]) >= 2 and pl["p"][0] == "*" and isinstance(pl["p"][1], dict) and "f" in pl["p"][1]:
            ty = f.locals[pl["l"]]
            if ty.startswith("&mut "):
                base = ty[5:].rsplit("::", 1)[-1]
                out.add("%s.%s" % (base, pl["p"][1]["n"]))
                # nested struct field: Vm.stack.sp written directly
                if len(pl["p"]) >= 3 and isinstance(pl["p"][2], dict) and "f" in pl["p"][2]:
                    out.add("%s.%s.%s" % (base, pl["p"][1]["n"], pl["p"][2]["n"]))
    for bb, j, s in f.stmts():
        if s["lhs"]["p"]:
            visit(s["lhs"])
            # `*r = v` where r: &mut usize came from an accessor is attributed by the accessor's name below
    for bb, t in f.calls():
        if t["dest"]["p"]:
            visit(t["dest"])
        c = callee(t)
        if c in facts.fns:
            out |= field_writes(facts, cg, c, depth - 1, _seen)
            # a `&mut T` returned by an accessor and then assigned through
            g = facts.fns[c]
            if g.locals and g.locals[0].startswith("&mut ") and not t["dest"]["p"]:
                dest = t["dest"]["l"]
                for b2, j2, s2 in f.stmts():
                    if s2["lhs"]["l"] == dest and s2["lhs"]["p"] and s2["lhs"]["p"][0] == "*":
                        for fld in fields_read_of_self(g) | _fields_borrowed_of_self(g):
                            rty = g.locals[1] if len(g.locals) > 1 else ""
                            base = rty.replace("&mut ", "").replace("&", "").rsplit("::", 1)[-1]
                            out.add("%s.%s" % (base, fld))
    return out


def _fields_borrowed_of_self(fn):
    out = set()
    for bb, j, s in fn.stmts():
        rv = s["rv"]
        if rv["k"] == "ref":
            p = rv["place"]
            if p["l"] == 1:
                for e in p["p"]:
                    if isinstance(e, dict) and "f" in e:
                        out.add(e["n"])
                        break
    return out
