"""S4-lite: flow-insensitive label propagation over MIR locals (def-use closure).

At mir-opt-level 0 almost every temporary has a single definition, so a
flow-insensitive closure over `x = f(y...)` edges is close to exact; user
variables that are reassigned (loop cursors) join their labels.  Rules that use
this say so in their text.
"""
from collections import defaultdict

from .facts import op_place, callee


def rv_operands(rv):
    k = rv["k"]
    if k in ("use", "cast", "un", "repeat"):
        return [rv["a"]]
    if k == "bin":
        return [rv["a"], rv["b"]]
    if k == "agg":
        return list(rv["ops"])
    if k in ("ref", "rawptr", "disc"):
        return [{"copy": rv["place"]}]
    return []


def places_read(rv):
    out = []
    for o in rv_operands(rv):
        p = op_place(o)
        if p is not None:
            out.append(p)
    return out


class Labels:
    """labels[local] = set of labels.

    seed(fn, where, place) -> iterable of labels, called for every place read
    (where = ('stmt', bb, idx, stmt) or ('arg', bb, argidx, term)).
    call_transfer(term, arg_labels:list[set]) -> set of labels for the destination, or None for
    the default (union of argument labels).
    """

    def __init__(self, fn, seed=None, call_transfer=None, init=None, through_calls=True, recv_flow=False):
        self.fn = fn
        self.labels = defaultdict(set)
        if init:
            for l, ls in init.items():
                self.labels[l] |= set(ls)
        self.seed = seed
        self.call_transfer = call_transfer
        self.through_calls = through_calls
        self.recv_flow = recv_flow
        self._run()

    def of_place(self, p, where=None):
        ls = set(self.labels.get(p["l"], ()))
        if self.seed is not None:
            ls |= set(self.seed(self.fn, where, p) or ())
        return ls

    def of_op(self, op, where=None):
        p = op_place(op)
        if p is None:
            return set()
        return self.of_place(p, where)

    def _run(self):
        fn = self.fn
        changed = True
        it = 0
        while changed and it < 50:
            it += 1
            changed = False
            for bb, b in enumerate(fn.blocks):
                if b.get("cleanup"):
                    continue
                for j, s in enumerate(b["stmts"]):
                    ls = set()
                    for p in places_read(s["rv"]):
                        ls |= self.of_place(p, ("stmt", bb, j, s))
                    if ls:
                        tgt = self.labels[s["lhs"]["l"]]
                        if not ls <= tgt:
                            tgt |= ls
                            changed = True
                t = b["term"]
                if t["k"] == "call":
                    al = [self.of_op(a, ("arg", bb, i, t)) for i, a in enumerate(t["args"])]
                    res = None
                    if self.call_transfer is not None:
                        res = self.call_transfer(t, al)
                    if res is None:
                        res = set().union(*al) if (al and self.through_calls) else set()
                    if res:
                        tgt = self.labels[t["dest"]["l"]]
                        if not res <= tgt:
                            tgt |= res
                            changed = True
                    # a tainted value written through a &mut argument: `x.push(v)` style sinks are
                    # handled by the rules; here we also let labels flow into the receiver local so
                    # that `vec.push(tainted); use(vec)` is seen.
                    if al and self.through_calls and self.recv_flow:
                        rest = set().union(*al[1:]) if len(al) > 1 else set()
                        p0 = op_place(t["args"][0]) if t["args"] else None
                        if rest and p0 is not None and t["args"] and "&mut" in (p0.get("ty") or ""):
                            base = self._ref_base(p0["l"])
                            if base is not None:
                                tgt = self.labels[base]
                                if not rest <= tgt:
                                    tgt |= rest
                                    changed = True

    def _ref_base(self, local):
        """if `local` is a temporary defined as `&mut X`, return X's base local"""
        sd = self.fn.single_def(local)
        if sd and sd[2] == "assign" and sd[3]["rv"]["k"] == "ref":
            return sd[3]["rv"]["place"]["l"]
        return None

    def call_arg_labels(self, t, bb=None):
        return [self.of_op(a, ("arg", bb, i, t)) for i, a in enumerate(t["args"])]


def fields_read_of_self(fn):
    """field names of `self` (arg 1) read anywhere in fn (accessor summary)"""
    out = set()
    def visit(p):
        if p["l"] == 1:
            for e in p["p"]:
                if isinstance(e, dict) and "f" in e:
                    out.add(e["n"])
                    break
    for bb, j, s in fn.stmts():
        for p in places_read(s["rv"]):
            visit(p)
    for bb, t in fn.calls():
        for a in t["args"]:
            p = op_place(a)
            if p:
                visit(p)
    return out
