"""S7: line-free normal forms ("shapes") of operands and of the guards that dominate a site."""
from .facts import callee, op_const, op_place, short_path


def _proj_names(proj):
    out = []
    for e in proj:
        if isinstance(e, dict):
            if "f" in e:
                out.append(e["n"])
            elif "dc" in e:
                out.append(e["dc"])
            elif "idx" in e:
                out.append("[i]")
            elif "ci" in e:
                out.append("[%d]" % e["ci"])
        elif e != "*":
            out.append(str(e))
    return ".".join(out)


def _short_str(x):
    x = str(x)
    if len(x) <= 28:
        return repr(x)
    return "%r.." % x[:16]      # long literals (e.g. the compiled-in prelude) are identified by their head only


def shape(fn, op, depth=3, _seen=None):
    """normal form of the value of an operand (bounded backward slice)"""
    if op is None:
        return "?"
    _seen = _seen or set()
    c = op_const(op)
    if c is not None:
        if "int" in c:
            return "c:%s" % c["int"]
        if "str" in c:
            return "c:%s" % _short_str(c["str"])
        return "c:%s" % _short_str(c.get("text", "?"))
    o = fn.origin(op)
    return _shape_origin(fn, o, depth, _seen)


def _shape_origin(fn, o, depth, _seen):
    kind = o[0]
    if kind == "const":
        c = o[1]
        if "int" in c:
            return "c:%s" % c["int"]
        return "c:%s" % _short_str(c.get("str", c.get("text", "?")))
    pj = _proj_names(o[2]) if len(o) > 2 else ""
    suffix = ("." + pj) if pj else ""
    if kind == "arg":
        return "a%d%s" % (o[1], suffix)
    if kind == "local":
        l = o[1]
        # a multiply-defined local is identified by its type, not by its debug name: renaming a variable must not
        # change a key
        return "v:%s%s" % (fn.locals[l].rsplit("::", 1)[-1], suffix)
    if kind == "call":
        t = o[1]
        name = short_path(callee(t) or "?")
        if depth <= 0:
            return "%s(..)%s" % (name, suffix)
        args = ",".join(shape(fn, a, depth - 1, _seen) for a in t["args"][:4])
        return "%s(%s)%s" % (name, args, suffix)
    if kind == "rv":
        s = o[1]
        rv = s["rv"]
        k = rv["k"]
        if depth <= 0:
            return "%s(..)%s" % (k, suffix)
        if k == "bin":
            return "(%s %s %s)%s" % (rv["op"].replace("WithOverflow", ""), shape(fn, rv["a"], depth - 1, _seen),
                                     shape(fn, rv["b"], depth - 1, _seen), suffix)
        if k == "un":
            return "(%s %s)%s" % (rv["op"], shape(fn, rv["a"], depth - 1, _seen), suffix)
        if k == "cast":
            return "cast:%s(%s)%s" % (rv["to"].rsplit("::", 1)[-1], shape(fn, rv["a"], depth - 1, _seen), suffix)
        if k == "agg":
            return "%s::%s(%s)%s" % (rv.get("adt", "?").rsplit("::", 1)[-1], rv.get("variant", ""),
                                     ",".join(shape(fn, a, depth - 1, _seen) for a in rv["ops"][:3]), suffix)
        if k == "disc":
            return "disc(%s)%s" % (shape(fn, {"copy": rv["place"]}, depth - 1, _seen), suffix)
        return "%s%s" % (k, suffix)
    return "?"


def roots(fn, op, depth=4):
    """the 'base places' an operand's value is computed from: set of ('a', idx, first-field) / ('v', local)"""
    out = set()

    def walk(o, d):
        if o is None or d < 0:
            return
        c = op_const(o)
        if c is not None:
            return
        og = fn.origin(o)
        k = og[0]
        if k == "arg":
            first = None
            for e in og[2]:
                if isinstance(e, dict) and "f" in e:
                    first = e["n"]
                    break
            out.add(("a", og[1], first))
        elif k == "local":
            out.add(("v", og[1]))
        elif k == "call":
            for a in og[1]["args"]:
                walk(a, d - 1)
        elif k == "rv":
            rv = og[1]["rv"]
            for key in ("a", "b"):
                if key in rv:
                    walk(rv[key], d - 1)
            for a in rv.get("ops", []):
                walk(a, d - 1)
            if "place" in rv:
                walk({"copy": rv["place"]}, d - 1)
    walk(op, depth)
    return out


def dominating_guards(fn, bb):
    """[(switch_bb, cond_operand, taken_value_or_'else', term)] for conditional edges that dominate bb"""
    out = []
    dom = fn.dominators().get(bb, set())
    for s in sorted(dom):
        t = fn.blocks[s]["term"]
        if t["k"] != "switch" or s == bb:
            continue
        taken = None
        succs = [(v, tg) for v, tg in t["targets"]] + [("else", t["otherwise"])]
        doms = [(v, tg) for v, tg in succs if (tg == bb or fn.dominates(tg, bb)) and len([p for p in fn.pred[tg] if p in fn.reachable()]) == 1]
        if len(doms) == 1:
            taken = doms[0][0]
            out.append((s, t["op"], taken, t))
    return out


def guard_shapes(fn, bb, operand_roots, depth=2):
    """shapes of dominating guards that mention a base place of the site's operands"""
    out = []
    for s, cond, taken, t in dominating_guards(fn, bb):
        r = roots(fn, cond)
        if operand_roots is not None and not (r & operand_roots):
            continue
        pol = "T" if taken == "else" and t.get("opty") == "bool" else "F" if taken == 0 and t.get("opty") == "bool" else str(taken)
        out.append("%s=%s" % (shape(fn, cond, depth), pol))
    return sorted(set(out))


def reach_with_bools(fn, start, env=None, limit=4000):
    """blocks reachable from `start` when boolean temporaries that were assigned a constant on the way are respected at the
    switches that test them (the lowering of `matches!(..)` / `a || b`: arm blocks set a flag, a later block branches on it).
    Forward exploration over (block, known-constant-locals); anything not a constant assignment forgets the local."""
    from .facts import op_const, op_place
    seen = set()
    out = set()
    work = [(start, tuple(sorted((env or {}).items())))]
    while work and len(seen) < limit:
        bb, e = work.pop()
        if (bb, e) in seen:
            continue
        seen.add((bb, e))
        out.add(bb)
        known = dict(e)
        blk = fn.blocks[bb]
        for st in blk["stmts"]:
            l = st["lhs"]
            if l["p"]:
                continue
            c = op_const(st["rv"].get("a")) if st["rv"]["k"] == "use" else None
            if c is not None and c.get("ty") == "bool" and "int" in c:
                known[l["l"]] = 1 if c["int"] else 0
            elif st["rv"]["k"] == "use" and op_place(st["rv"]["a"]) is not None and not op_place(st["rv"]["a"])["p"] \
                    and op_place(st["rv"]["a"])["l"] in known:
                known[l["l"]] = known[op_place(st["rv"]["a"])["l"]]
            else:
                known.pop(l["l"], None)
        t = blk["term"]
        if t["k"] == "call" and not t["dest"]["p"]:
            known.pop(t["dest"]["l"], None)
        succs = None
        if t["k"] == "switch":
            pl = op_place(t["op"])
            if pl is not None and not pl["p"] and pl["l"] in known:
                v = known[pl["l"]]
                tg = dict((a, b) for a, b in t["targets"]).get(v, t["otherwise"])
                succs = [tg]
        if succs is None:
            succs = [x for x in fn.succ[bb] if not fn.is_cleanup(x)]
        ne = tuple(sorted(known.items()))
        for x in succs:
            work.append((x, ne))
    return out
