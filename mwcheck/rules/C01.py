"""C01 — evaluation agrees with the language semantics: structural clauses R01a, R01c, R01d, R01e, R01f."""
from ..facts import callee, op_const, op_place, short_path
from .. import shapes
from .common import *
from . import tables, twins, C04, prelude

CPA = COMPILE + "compile_procedure_application"
TPA = COMPILE + "transform_procedure_application"
FFS = "marwood::vm::environment::find_free_symbols_in_proc"
COMPILE_EXPR = COMPILE + "compile_expression"
PUTCELL = {HEAP + "maybe_put_cell", HEAP + "put_cell"}


def keyword_of_predicate(facts, path):
    """Cell::is_quote -> 'quote' (the string constant handed to is_symbol_str)"""
    f = facts.fn(path)
    if f is None:
        return None
    for bb, t in f.calls():
        for a in t["args"]:
            c = op_const(a)
            if c is not None and "str" in c:
                return c["str"]
    return None


def compiler_dispatch(facts):
    """keyword -> handler fn path, from the string tests in compile_procedure_application"""
    f = facts.fn(CPA)
    out = {}
    if f is None:
        return out
    for kw, bb, t in tables.str_eq_consts(f):
        sw = f.blocks[t["target"]]["term"] if t.get("target") is not None else None
        if not sw or sw["k"] != "switch":
            continue
        tru = sw["otherwise"]
        calls, _ = tables.arm_effects(f, tru, limit=12)
        for c in calls:
            if c.startswith(COMPILE) and c != CPA:
                out[kw] = c
                break
    return out


def opaque_in_expander(facts):
    """keywords on which transform_procedure_application returns the form unchanged"""
    f = facts.fn(TPA)
    out = set()
    if f is None:
        return out
    for kw, bb, t in tables.str_eq_consts(f):
        out.add(kw)
    return out


def template_aware_in_expander(facts):
    """keywords transform_procedure_application recognises with a Cell::is_* predicate and hands to a dedicated walker
    instead of the generic element-by-element descent: {keyword: walker}"""
    f = facts.fn(TPA)
    out = {}
    if f is None:
        return out
    generic = [bb for bb, t in f.calls() if callee(t) == COMPILE + "transform"]
    for bb, t in f.calls():
        c = callee(t) or ""
        if not c.startswith("marwood::cell::Cell::is_") or t.get("target") is None:
            continue
        kw = keyword_of_predicate(facts, c)
        sw = f.blocks[t["target"]]["term"]
        if not kw or sw["k"] != "switch":
            continue
        tru = sw["otherwise"]
        region = f.reach_from(tru, avoid=[sw_t for v, sw_t in sw["targets"]])
        walkers = [callee(t2) for b2, t2 in f.calls() if b2 in region and (callee(t2) or "").startswith(COMPILE) and callee(t2) not in (TPA, COMPILE + "transform")]
        if walkers and not any(g in region for g in generic):
            out[kw] = walkers[0]
    return out


def scan_treatment(facts):
    """(opaque keywords, binding keywords) of the free-variable scan"""
    f = facts.fn(FFS)
    opaque, binding = set(), set()
    if f is None:
        return opaque, binding
    rets = f.return_blocks()
    for bb, t in f.calls():
        c = callee(t)
        if c.startswith("marwood::cell::Cell::is_") and t.get("target") is not None:
            kw = keyword_of_predicate(facts, c)
            sw = f.blocks[t["target"]]["term"]
            if kw and sw["k"] == "switch":
                tru = sw["otherwise"]
                # opaque: the true edge reaches the return without any call that descends (find_free_symbols)
                reach = f.reach_from(tru, avoid=[b for b, tt in f.calls() if callee(tt).startswith("marwood::vm::environment::find_free")])
                descends = not any(r in reach for r in rets)
                # true edge goes straight to `return Ok(())`: no statement other than building Ok
                direct = any(r in f.reach_from(tru, avoid=set(range(len(f.blocks))) - set(f.reach_from(tru)) ) for r in rets)
                calls, _ = tables.arm_effects(f, tru, limit=4)
                if not any(c2.startswith("marwood::vm::environment::find_free") or c2.startswith("marwood::cell::Cell::") for c2 in calls[:2]) and not descends:
                    opaque.add(kw)
    for kw, bb, t in tables.str_eq_consts(f):
        binding.add(kw)
    return opaque, binding


def r01a(ctx, rep, rule="R01a", only=None):
    facts, cg = ctx["facts"], ctx["cg"]
    rep.rule(rule, "special-form table agreement: the compiler's keyword dispatch, the macro expander and the "
             "free-variable scan each carry their own notion of which keywords are special. (1) a keyword that the "
             "expander or the free-variable scan treats as opaque (returns without descending) must have a compiler "
             "handler that compiles no sub-expression (does not reach compile_expression), otherwise code the generator "
             "compiles is never macro-expanded / never scope-analysed; (2) a keyword whose handler copies (part of) its "
             "operand as literal data (reaches Heap::maybe_put_cell) must not be treated generically by the expander, "
             "otherwise literal data is rewritten by macros.")
    disp = compiler_dispatch(facts)
    rep.floor(rule, "keywords dispatched by compile_procedure_application", len(disp), 7)
    exp_opaque = opaque_in_expander(facts)
    exp_aware = template_aware_in_expander(facts)
    scan_opaque, scan_binding = scan_treatment(facts)
    rep.floor(rule, "keywords opaque to the macro expander", len(exp_opaque), 2)
    rep.floor(rule, "keywords opaque to the free-variable scan", len(scan_opaque), 1)
    rep.floor(rule, "binding keywords of the free-variable scan", len(scan_binding), 2)
    kind = {}
    for kw, h in disp.items():
        r = cg.reachable_from([h])
        code = COMPILE_EXPR in r
        # literal data: the handler is compile_quote or reaches it without passing through compile_expression
        rq = cg.reachable_from([h], avoid=[COMPILE_EXPR])
        data = (COMPILE + "compile_quote") in rq
        kind[kw] = "mixed" if (code and data) else "code" if code else "data"
    for trav, opaque in (("expander", exp_opaque), ("free-variable-scan", scan_opaque)):
        if only and trav not in only:
            continue
        for kw in sorted(opaque):
            key = "%s|%s|%s|opaque-but-compiled" % (rule, trav, kw)
            k = kind.get(kw)
            if k is None:
                rep.ok(rule, key, "`%s` is opaque to the %s and is not a compiler special form" % (kw, trav), nontrivial=False)
            elif k == "data":
                rep.ok(rule, key, "`%s` is opaque to the %s and its handler %s compiles no sub-expression" % (
                    kw, trav, short_path(disp[kw])), [facts.fns[disp[kw]].span])
            else:
                rep.fail(rule, key, "`%s` is opaque to the %s, but its handler %s compiles sub-expressions (reaches "
                         "compile_expression): %s" % (kw, trav, short_path(disp[kw]),
                                                      "a variable used only inside such a sub-expression is never captured and "
                                                      "is reported unbound in a nested procedure" if trav != "expander" else
                                                      "derived forms inside such a sub-expression are never expanded"),
                         [facts.fns[disp[kw]].span])
    if not only or "expander" in only:
        for kw, k in sorted(kind.items()):
            if k in ("data", "mixed"):
                key = "%s|expander|%s|literal-data-expanded" % (rule, kw)
                if kw in exp_opaque:
                    rep.ok(rule, key, "`%s` carries literal data and the expander leaves it alone" % kw, [facts.fns[disp[kw]].span])
                elif kw in exp_aware:
                    rep.ok(rule, key, "`%s` carries literal data and the expander walks it with %s instead of the generic "
                           "descent" % (kw, short_path(exp_aware[kw])), [facts.fns[disp[kw]].span])
                else:
                    rep.fail(rule, key, "the handler of `%s` (%s) copies operand structure as literal data, but the macro "
                             "expander descends into `%s` forms like any application: literal lists that look like derived "
                             "forms are rewritten before they are quoted" % (kw, short_path(disp[kw]), kw),
                             [facts.fns[disp[kw]].span])
    return disp, kind


def r01e(ctx, rep, rule="R01e"):
    facts = ctx["facts"]
    rep.rule(rule, "compile-time constants are not mutated by generated code: an object allocated by the compiler with "
             "Heap::put and emitted as an immediate operand is shared by every execution of the code; a compiling "
             "function must not both allocate such an object and emit a mutating opcode (VPushAcc) that receives it.")
    n = 0
    for p, f in sorted(facts.fns.items()):
        if not p.startswith(COMPILE):
            continue
        emits_vpush = [s for bb, j, s in f.stmts() if s["rv"]["k"] == "agg" and s["rv"].get("adt") == "marwood::vm::opcode::OpCode"
                       and s["rv"].get("variant") == "VPushAcc"]
        if not emits_vpush:
            continue
        n += 1
        allocs = []
        for bb, t in f.calls():
            if callee(t) == HEAP + "put":
                o = f.origin(t["args"][1]) if len(t["args"]) > 1 else None
                if o and o[0] == "call" and callee(o[1]) == VCELL + "::vector":
                    allocs.append(t)
        key = "%s|%s|vector" % (rule, p.rsplit("::", 1)[-1])
        if allocs:
            rep.fail(rule, key, "%s allocates a vector at compile time (Heap::put(VCell::vector(..))), emits it as an "
                     "immediate and then emits VPushAcc against it: every execution of the compiled code pushes onto the "
                     "same vector" % f.short, [a["loc"] for a in allocs])
        else:
            rep.ok(rule, key, "%s emits VPushAcc only against objects created at run time" % f.short, [f.span])
    rep.floor(rule, "compiling functions that emit VPushAcc", n, 1)


APP = COMPILE + "compile_runtime_procedure_application"
CEXPR = COMPILE + "compile_expression"
EMIT = "marwood::vm::lambda::Lambda::emit"


def _emitted(f, t):
    """what a Lambda::emit call emits: ('op', variant) / ('vcell', variant) / None"""
    if (callee(t) or "") != EMIT or len(t["args"]) < 2:
        return None
    o = f.origin(t["args"][1])
    if o[0] == "rv" and o[1]["rv"]["k"] == "agg":
        adt = o[1]["rv"].get("adt") or ""
        return ("op" if adt.endswith("OpCode") else "vcell", o[1]["rv"].get("variant"), o[1])
    if o[0] == "const":
        txt = o[1].get("text", "")
        for v in ("TCallAcc", "CallAcc"):
            if v in txt:
                return ("op", v, None)
    if o[0] == "local":
        # `emit(match tail { true => TCallAcc, false => CallAcc })`: one local, one aggregate per branch
        vs = set()
        for d in f.defs().get(o[1], []):
            if d[2] == "assign" and d[3]["rv"]["k"] == "agg" and (d[3]["rv"].get("adt") or "").endswith("OpCode"):
                vs.add(d[3]["rv"].get("variant"))
            elif d[2] != "partial":
                return None
        if vs and vs <= {"CallAcc", "TCallAcc"}:
            return ("op", "CallAcc", None)
    return None


def r01i(ctx, rep, rule="R01i"):
    from ..linear import Linear
    facts = ctx["facts"]
    rep.rule(rule, "the CALL protocol as the generator emits it: in compile_runtime_procedure_application (a) operands are "
             "compiled in list order — one loop whose cursor advances by Cell::cdr and whose compile_expression takes "
             "Cell::car of that cursor; (b) every iteration emits PUSH %acc after compiling its operand (must-pass-through "
             "to the back edge); (c) the count emitted as ArgumentCount starts at 0 and is incremented by exactly one "
             "site, inside that loop; (d) the operator is compiled after the loop and every emitted CALL / TCALL is "
             "preceded by it, so %acc holds the procedure when the call executes.")
    f = need(rep, rule, facts, APP)
    if f is None:
        return
    ces = [(bb, t) for bb, t in f.calls() if callee(t) == CEXPR]
    heads = {}
    for src, h in f.back_edges():
        heads.setdefault(h, set()).update((f.reach_from(h) & f.reach_back(src)) | {h, src})
    in_loop = [(bb, t) for bb, t in ces if any(bb in body for body in heads.values())]
    out_loop = [(bb, t) for bb, t in ces if not any(bb in body for body in heads.values())]
    key = "%s|application" % rule
    if len(in_loop) != 1 or len(out_loop) != 1 or len(heads) != 1:
        rep.fail(rule, key + "|shape", "expected one operand loop with one compile_expression and one compile_expression for the "
                 "operator outside it (found %d loop(s), %d inside, %d outside)" % (len(heads), len(in_loop), len(out_loop)), [f.span])
        return
    (head, body), = heads.items()
    obb, ot = in_loop[0]
    pbb, pt = out_loop[0]
    # (a) operand = car(cursor); cursor advanced by cdr(cursor) in the loop; no reversal anywhere
    def through(op, names):
        o = f.origin(op)
        for _ in range(4):
            if o[0] == "call" and (callee(o[1]) or "").endswith(names):
                return o[1]
            if o[0] == "call" and (callee(o[1]) or "").endswith(("::unwrap", "::expect", "Try>::branch")) and o[1]["args"]:
                o = f.origin(o[1]["args"][0])
                continue
            if o[0] == "call" and "Try>::branch" in (o[1].get("fnargs") or "") and o[1]["args"]:
                o = f.origin(o[1]["args"][0])
                continue
            return None
        return None
    car = through(ot["args"][3], ("Cell::car",)) if len(ot["args"]) > 3 else None
    cur_local = None
    if car is not None:
        oc = f.origin(car["args"][0])
        cur_local = oc[1] if oc[0] == "local" else None
    adv = False
    if cur_local is not None:
        for d in f.defs().get(cur_local, []):
            if d[0] in body and d[2] == "assign":
                cd = through(d[3]["rv"].get("a") if d[3]["rv"]["k"] == "use" else {"copy": d[3]["rv"].get("place")}, ("Cell::cdr",))
                if cd is not None:
                    oc = f.origin(cd["args"][0])
                    if oc[0] == "local" and oc[1] == cur_local:
                        adv = True
    rev = [t for bb, t in f.calls() if (callee(t) or "").endswith(("::rev", "::reverse", "::pop", "::insert"))]
    ok_a = car is not None and adv and not rev
    (rep.ok if ok_a else rep.fail)(rule, key + "|operand-order", "operands are compiled in list order (car of a cursor advanced by cdr)" if ok_a else
                                   "the operand loop does not compile car(cursor) for a cursor advanced by cdr%s: operands are not "
                                   "evaluated left to right" % (" (a reversing call is present)" if rev else ""), [ot["loc"]])
    # (b) PUSH %acc after each operand
    pushes = [bb for bb, t in f.calls() if bb in body and (_emitted(f, t) or (None, None))[:2] == ("op", "PushAcc")]
    ok_b = False
    if pushes and ot.get("target") is not None:
        reach = f.reach_from(ot["target"], avoid=set(pushes))
        ok_b = head not in reach
    (rep.ok if ok_b else rep.fail)(rule, key + "|push-each", "every iteration pushes %acc after compiling its operand" if ok_b else
                                   "an iteration of the operand loop can return to the loop head without emitting PUSH %acc: the "
                                   "operand's value is lost and the frame is short by one", [ot["loc"]])
    # (c) argument count
    argc_emit = [(bb, t, _emitted(f, t)) for bb, t in f.calls() if (_emitted(f, t) or (None, None))[:2] == ("vcell", "ArgumentCount")]
    ok_c = False
    why = "no ArgumentCount is emitted"
    if argc_emit:
        agg = argc_emit[0][2][2]
        L = Linear(f)
        o = f.origin(agg["rv"]["ops"][0])
        if o[0] == "local":
            n = o[1]
            ds = [d for d in f.defs().get(n, []) if d[2] != "partial"]
            inits = [d for d in ds if d[0] not in body]
            incs = [d for d in ds if d[0] in body]
            init_ok = len(inits) == 1 and inits[0][2] == "assign" and inits[0][3]["rv"]["k"] == "use" and (op_const(inits[0][3]["rv"]["a"]) or {}).get("int") == 0
            inc_ok = False
            if len(incs) == 1 and incs[0][2] == "assign" and incs[0][3]["rv"]["k"] == "use":
                form = L.of(incs[0][3]["rv"]["a"])
                inc_ok = form.c == 1 and len(form.t) == 1 and list(form.t.values())[0] == 1 and list(form.t)[0].key[:2] == ("local", n)
            ok_c = init_ok and inc_ok
            why = "the count %s" % ("does not start at 0" if not init_ok else "is not incremented by exactly one `+ 1` inside the operand loop")
        else:
            why = "the emitted count is not the loop's counter"
    (rep.ok if ok_c else rep.fail)(rule, key + "|argc", "ArgumentCount(n): n starts at 0 and is incremented once per operand" if ok_c else
                                   "the argument count pushed for CALL is wrong: %s" % why, [argc_emit[0][1]["loc"]] if argc_emit else [f.span])
    # (d) operator last, CALL after it
    calls_emit = [(bb, t) for bb, t in f.calls() if (_emitted(f, t) or (None, None))[:2] in (("op", "CallAcc"), ("op", "TCallAcc"))]
    ok_d = bool(calls_emit) and head not in f.reach_from(pbb) and all(f.dominates(pbb, bb) for bb, t in calls_emit) \
        and all(f.dominates(head, pbb) for _ in (0,))
    (rep.ok if ok_d else rep.fail)(rule, key + "|operator-last", "the operator is compiled after the operands and before the emitted CALL / TCALL" if ok_d else
                                   "the operator is not compiled between the operand loop and the emitted CALL / TCALL: %acc does not "
                                   "hold the procedure when the call executes", [pt["loc"]])


GLOBAL_READERS = ("marwood::vm::environment::GlobalEnvironment::get", "marwood::vm::environment::GlobalEnvironment::get_slot",
                  "marwood::vm::environment::GlobalEnvironment::iter_slots")


def r01j(ctx, rep, rule="R01j"):
    from ..flow import Labels
    facts = ctx["facts"]
    rep.rule(rule, "globals are read when the code runs, not when it is compiled: inside the compiler the *value* of a global "
             "slot (GlobalEnvironment::get / get_slot) is consulted only to recognise a macro keyword; nothing derived from "
             "it is handed to Lambda::emit. Code that embeds the current value of a global keeps using it after the global "
             "is redefined or set!, so the outcome depends on the order of earlier definitions.")
    n = 0
    for p, f in sorted(facts.fns.items()):
        if not p.startswith(COMPILE) or "::tests::" in p:
            continue
        reads = [(bb, t) for bb, t in f.calls() if callee(t) in GLOBAL_READERS or (callee(t) or "").startswith(GLOBAL_READERS[0] + "::<")]
        if not reads:
            continue
        init = {}
        for bb, t in reads:
            if not t["dest"]["p"]:
                init.setdefault(t["dest"]["l"], set()).add("gv")
        lab = Labels(f, init=init)
        k = 0
        for bb, t in reads:
            n += 1
            k += 1
        bad = []
        for bb, t in f.calls():
            if callee(t) == EMIT and len(t["args"]) > 1 and "gv" in lab.of_op(t["args"][1]):
                bad.append(t)
        key = "%s|%s" % (rule, f.short.rsplit("::", 1)[-1])
        if bad:
            rep.fail(rule, key, "%s reads the value of a global slot while compiling and emits something derived from it as an "
                     "operand: the compiled code is bound to what the global held at compile time" % f.short, [bad[0]["loc"]])
        else:
            rep.ok(rule, key, "%s reads a global value while compiling (%d site(s)) but emits nothing derived from it" % (f.short, k), [f.span])
    rep.floor(rule, "compile-time reads of global values (macro lookup)", n, 1)


def r01m(ctx, rep, rule="R01m"):
    from .numeric import _base_chain
    facts = ctx["facts"]
    rep.rule(rule, "stack discipline of buffered operands: values taken off the machine stack with pop come off last-to-first, so a "
             "buffer filled by successive pops and pushed back onto the stack must be replayed in reverse (Iterator::rev or "
             "Vec::pop) — a forward replay hands the operands to the callee in reverse order. (No such buffer exists on the "
             "pinned tree: apply shifts its leading arguments in place; the rule arms itself when one appears.)")
    POP = (STACK + "pop", RUN + "pop")
    n = 0
    for p, f in sorted(facts.fns.items()):
        if f.crate != "marwood" or not p.startswith("marwood::vm::") or "::tests::" in p:
            continue
        # buffers: Vec locals that receive a popped value through Vec::push
        buffers = {}
        for bb, t in f.calls():
            c = callee(t) or ""
            if c.startswith("std::vec::Vec") and c.endswith("::push") and len(t["args"]) == 2:
                o = f.origin(t["args"][1])
                for _ in range(4):
                    if o[0] == "call" and ((callee(o[1]) or "").endswith(("::clone", "::unwrap")) or "Try>::branch" in (o[1].get("fnargs") or "")) and o[1]["args"]:
                        o = f.origin(o[1]["args"][0])
                    else:
                        break
                if o[0] == "call" and callee(o[1]) in POP:
                    ch = _base_chain(f, t["args"][0])
                    if ch:
                        buffers[ch[-1]] = t
        if not buffers:
            continue
        for bb, t in f.calls():
            if callee(t) != STACK + "push" or len(t["args"]) < 2:
                continue
            o = f.origin(t["args"][1])
            if not (o[0] == "call" and (callee(o[1]) or "").endswith("::next")):
                continue
            it = f.origin(o[1]["args"][0])
            reversed_ = False
            for _ in range(6):
                if it[0] == "call" and it[1]["args"]:
                    c = callee(it[1]) or ""
                    if not c.endswith(("::into_iter", "::iter", "::iter_mut", "::rev", "::by_ref", "::drain", "::cloned", "::copied", "::peekable")):
                        break
                    if c.endswith("::rev"):
                        reversed_ = True
                    it = f.origin(it[1]["args"][0])
                    continue
                break
            base = None
            if it[0] in ("local", "arg"):
                base = it[1]
            elif it[0] == "call" and not it[1]["dest"]["p"]:
                base = it[1]["dest"]["l"]      # the Vec itself is the result of its constructor call
            if base in buffers:
                n += 1
                key = "%s|%s|replay" % (rule, f.short.rsplit("::", 1)[-1])
                (rep.ok if reversed_ else rep.fail)(rule, key, "%s replays its buffer of popped operands in reverse" % f.short if reversed_ else
                                                    "%s pops operands into a buffer and pushes them back in the order they were popped: the "
                                                    "operands reach the callee reversed ((apply list 1 2 '(3)) gives (2 1 3))" % f.short, [t["loc"]])
    if not n:
        rep.ok(rule, "%s|none" % rule, "no function buffers popped operands and pushes them back (apply shifts in place)", nontrivial=False)


TEMPLATE_WALKERS = [
    # (walker, the function that treats an unquoted expression, what it does)
    (COMPILE + "compile_quasiquote", COMPILE_EXPR, "compiles"),
    (COMPILE + "transform_template", COMPILE + "transform", "macro-expands"),
    ("marwood::vm::environment::find_free_symbols_in_template", "marwood::vm::environment::find_free_symbols", "scope-analyses"),
]


def _natural_loops(f):
    out = []
    for u, h in f.back_edges():
        body = set(f.reach_back(u, avoid=[h])) | {h, u}
        out.append((h, body))
    return out


def r01n(ctx, rep, rule="R01n", only=None):
    """sibling agreement of the three walks over a quasiquote template"""
    facts = ctx["facts"]
    rep.rule(rule, "the three walks over a quasiquote template — the compiler that builds it, the macro expander and the "
             "free-variable scan — agree on its grammar: each (1) treats an unquoted expression only under an is_unquote "
             "test and a nesting-depth-is-zero test, (2) raises the depth under an is_quasiquote test and lowers it on the "
             "non-zero unquote edge, (3) descends into both container variants (Pair and Vector), and (4) tests for "
             "unquote at every position of the cdr chain it walks (`(a . ,b) reads as (a unquote b)). A walk that "
             "differs from its siblings leaves code the compiler runs unexpanded or unscanned, or evaluates what a "
             "sibling treats as data.")
    cell = facts.adts.get("marwood::cell::Cell")
    if cell is None:
        rep.anchor_lost(rule, "ADT marwood::cell::Cell not found")
        return
    vidx = {n: variant_index(cell, n) for n in ("Pair", "Vector")}
    for w, ev, verb in TEMPLATE_WALKERS:
        if only and not any(w.endswith(x) for x in only):
            continue
        f = need(rep, rule, facts, w)
        if f is None:
            continue
        name = short_path(w).split("::")[-1]
        span = [f.span]
        calls = list(f.calls())
        feeds = [bb for bb, t in calls if callee(t) == w or (callee(t) or "").endswith("Vec::<T, A>::push")
                 or re.search(r"Vec<.*> as std::iter::Extend<.*>>::extend$", callee(t) or "")]
        evals = [bb for bb, t in calls if callee(t) == ev]
        guards = {bb: shapes.guard_shapes(f, bb, None, depth=3) for bb in set(feeds) | set(evals)}
        # (1) evaluator only under unquote + depth zero
        key = "%s|%s|unquote-at-depth-zero" % (rule, name)
        if not evals:
            rep.fail(rule, key, "%s never hands an unquoted expression to %s: unquoted code is not %s" % (
                name, short_path(ev), verb.replace("s", "d", 1) if False else verb), span)
        else:
            bad = []
            for bb in evals:
                g = guards[bb]
                unq = any("is_unquote(" in x and x.endswith("=T") for x in g)
                zero = any(re.match(r"\(Eq \S+ c:0\)=T$", x) for x in g)
                if not (unq and zero):
                    bad.append((bb, "no is_unquote test" if not unq else "no depth == 0 test"))
            if bad:
                rep.fail(rule, key, "%s %s an expression of the template with %s on the path (%d of %d sites): "
                         "an unquote nested inside an inner quasiquote belongs to that inner template and is data at this "
                         "level" % (name, verb, bad[0][1], len(bad), len(evals)),
                         [loc_of(f, bad[0][0])])
            else:
                rep.ok(rule, key, "%s %s template expressions only under is_unquote and depth == 0 (%d site%s)" % (
                    name, verb, len(evals), "" if len(evals) == 1 else "s"), span)
        # (2) depth bookkeeping
        key = "%s|%s|depth-bookkeeping" % (rule, name)
        ups, downs = 0, 0
        for bb, b in enumerate(f.blocks):
            if b.get("cleanup"):
                continue
            for st in b["stmts"]:
                rv = st["rv"]
                if rv["k"] == "bin" and rv.get("op") in ("AddWithOverflow", "Add", "SubWithOverflow", "Sub"):
                    if facts_const_int(rv["b"]) != 1 or rv.get("aty") != "usize":
                        continue
                    g = shapes.guard_shapes(f, bb, None, depth=3)
                    if rv["op"].startswith("Add") and any("is_quasiquote(" in x and x.endswith("=T") for x in g):
                        ups += 1
                    if rv["op"].startswith("Sub") and any("is_unquote(" in x and x.endswith("=T") for x in g) \
                            and any(re.match(r"\(Eq \S+ c:0\)=F$", x) for x in g):
                        downs += 1
        if ups and downs:
            rep.ok(rule, key, "%s raises the nesting depth under is_quasiquote and lowers it under a nested unquote" % name, span)
        else:
            rep.fail(rule, key, "%s does not %s: nested quasiquote levels are not tracked, so an inner template's unquote is "
                     "treated at the wrong level" % (name, "raise the depth under an is_quasiquote test" if not ups else
                                                     "lower the depth at an unquote met at depth > 0"), span)
        # (3) container variants
        sws = disc_switches(facts, f, "marwood::cell::Cell")
        for var in ("Pair", "Vector"):
            key = "%s|%s|descends-into-%s" % (rule, name, var)
            region = set()
            for sw in sws:
                region |= arm_region(f, sw, var)
            pat_t = "is_%s(" % var.lower()
            hit = [bb for bb in feeds if bb in region or any(pat_t in x and x.endswith("=T") for x in guards[bb])]
            if hit:
                rep.ok(rule, key, "%s descends into %s templates (%d site%s)" % (name, var, len(hit), "" if len(hit) == 1 else "s"), span)
            else:
                rep.fail(rule, key, "%s has no descent guarded by a %s test: an unquoted expression inside a %s template is "
                         "evaluated by compile_quasiquote but this walk never reaches it" % (name, var, var.lower()), span)
        # (4) cdr chain positions
        key = "%s|%s|unquote-in-tail-position" % (rule, name)
        loops = _natural_loops(f)
        n = 0
        bad = None
        for h, body in loops:
            cs = [(bb, callee(t) or "") for bb, t in calls if bb in body]
            if not any(c == "marwood::cell::Cell::cdr" for bb, c in cs):
                continue
            if not any(bb in body for bb in feeds):
                continue
            n += 1
            walkers = {x[0] for x in TEMPLATE_WALKERS}
            tests = any(c == "marwood::cell::Cell::is_unquote" or (
                c.startswith("marwood::") and c not in walkers and
                "marwood::cell::Cell::is_unquote" in ctx["cg"].reachable_from([c], avoid=list(walkers))) for bb, c in cs)
            if not tests:
                bad = h
        if bad is not None:
            rep.fail(rule, key, "%s walks the cdr chain of a template element by element without testing each position for "
                     "unquote: `(a . ,b) reads as (a unquote b), and the walk treats `unquote` and `b` as two literal elements" % name,
                     [loc_of(f, bad)])
        else:
            rep.ok(rule, key, "%s: %s" % (name, "every element-wise walk of a cdr chain tests each position for unquote (%d loop%s)" % (
                n, "" if n == 1 else "s") if n else "the cdr of a pair is handed back to the walk as a template of its own"), span)


def facts_const_int(op):
    c = op.get("const") if isinstance(op, dict) else None
    if c is None:
        return None
    v = c.get("int")
    try:
        return int(v)
    except (TypeError, ValueError):
        return None


def loc_of(f, bb):
    t = f.blocks[bb]["term"]
    return t.get("loc") or f.span


def _begin_testers(facts):
    """functions of the compiler that test a form's head for the keyword `begin`"""
    out = []
    for p, f in facts.fns.items():
        if not p.startswith(COMPILE):
            continue
        if any(callee(t) == "marwood::cell::Cell::is_symbol_str" and any((op_const(a) or {}).get("str") == "begin" for a in t["args"])
               for bb, t in f.calls()):
            out.append(p)
    return sorted(out)


def r01q(ctx, rep, rule="R01q"):
    from . import tables
    facts, cg = ctx["facts"], ctx["cg"]
    rep.rule(rule, "a begin in body position is spliced: `begin` is a prelude macro that wraps its forms in a procedure, which turns "
             "(begin (define x 1)) into an internal definition of that procedure. Where a body is compiled — the top level "
             "(Vm::compile_runnable) and the bodies of lambda and of a procedure definition (transform_procedure_application) — "
             "the compiler therefore recognises the keyword itself (a string test for `begin`, its own or a helper's) and puts "
             "the forms of the begin in its place (R7RS 4.2.3, 5.1, 5.3.2); the helper expands a macro use in body position "
             "before it tests, which is how a macro emits several definitions; compile_runnable compiles the forms one by one — "
             "a loop around Vm::compile — into the top-level procedure, where a definition defines a global.")
    testers = _begin_testers(facts)
    # the splicer proper: a function with a loop that tests for begin itself or through a loop-free predicate
    splicers = []
    for p_, h_ in facts.fns.items():
        if not p_.startswith(COMPILE) or not h_.back_edges():
            continue
        if p_ in testers or any(callee(t) in testers and not facts.fns[callee(t)].back_edges() for bb, t in h_.calls()):
            splicers.append(p_)
    testers = sorted(set(testers) | set(splicers))
    f = need(rep, rule, facts, COMPILE + "compile_runnable")
    if f is None:
        return
    body = set()
    for src, h in f.back_edges():
        body |= (f.reach_from(h) & f.reach_back(src)) | {h, src}
    looped = [bb for bb, t in f.calls() if callee(t) == COMPILE + "compile" and bb in body]
    uses = f.path in testers or any(callee(t) in testers for bb, t in f.calls())
    key = rule + "|compile_runnable|begin-spliced"
    if uses and looped:
        rep.ok(rule, key, "compile_runnable has `begin` tested for and compiles the forms in a loop into the top-level procedure", [f.span])
    else:
        rep.fail(rule, key, "compile_runnable hands an outermost (begin ...) to the macro expander like any other form: its "
                 "definitions become internal definitions of the procedure `begin` expands to, so (begin (define zz 5)) defines "
                 "nothing at top level", [f.span])
    ev = need(rep, rule, facts, "marwood::vm::builtin::procedure::eval")
    if ev is not None:
        lb = set()
        for src, h in ev.back_edges():
            lb |= (ev.reach_from(h) & ev.reach_back(src)) | {h, src}
        looped = [bb for bb, t in ev.calls() if callee(t) == COMPILE + "compile" and bb in lb]
        uses = any(callee(t) in testers for bb, t in ev.calls())
        key = rule + "|eval|begin-spliced"
        (rep.ok if uses and looped else rep.fail)(
            rule, key, "the eval procedure splices a begin like the top level does" if uses and looped else
            "the eval procedure compiles its argument without splicing: (eval '(begin (define zz 5) zz)) defines zz inside the "
            "procedure `begin` expands to, and zz is unbound afterwards — whereas (eval '(define zz 5)) defines the global", [ev.span])
    g = need(rep, rule, facts, TPA)
    if g is not None:
        kws = set()
        for bb, t in g.calls():
            if callee(t) == "marwood::cell::Cell::is_symbol_str":
                for a in t["args"]:
                    c = op_const(a)
                    if c is not None and "str" in c:
                        kws.add(c["str"])
        uses = g.path in testers or any(callee(t) in testers for bb, t in g.calls())
        key = rule + "|transform_procedure_application|body-spliced"
        ok = uses and {"lambda", "define"} <= kws
        (rep.ok if ok else rep.fail)(
            rule, key, "the bodies of lambda and of a procedure definition have their begins spliced before they are expanded" if ok else
            "transform_procedure_application expands a (begin ...) in the body of a lambda or of a procedure definition like any other "
            "macro use (keywords recognised: %s; splicing helper called: %s): the definitions inside it become internal "
            "definitions of a throw-away procedure, so (let () (begin (define a 1)) a) refers to an outer a" % (sorted(kws), uses), [g.span])
    # the helper looks through macro uses
    for p in sorted(splicers):
        h = facts.fns[p]
        if p in (COMPILE + "compile_runnable",):
            continue
        lb = set()
        for src, hd in h.back_edges():
            lb |= (h.reach_from(hd) & h.reach_back(src)) | {hd, src}
        expands = [bb for bb, t in h.calls() if (callee(t) or "").endswith("Transform::transform") and bb in lb]
        key = "%s|%s|expands-head" % (rule, h.short.rsplit("::", 1)[-1])
        (rep.ok if expands else rep.fail)(
            rule, key, "%s expands a macro use in body position before testing for begin" % h.short if expands else
            "%s tests for a literal begin only: a macro that expands into (begin (define a ..) (define b ..)) — the way a macro "
            "emits several definitions — is not spliced" % h.short, [h.span])


def run(ctx, rep):
    r01a(ctx, rep)
    rep.rule("R01c", "CALL/TCALL twin agreement: the builtin, continuation and non-procedure sub-arms of the CallAcc and "
             "TCallAcc handlers in run_one are the same sequence of resolved callees, constants, register writes and exits.")
    twins.twin_agreement(ctx, rep, "R01c", ["BuiltInProc", "Continuation", "<other>"],
                         "a call in tail position must behave as the same call in operand position")
    C04.r04a(ctx, rep, as_rule="R01d", want=("nontail",))
    r01e(ctx, rep)
    from . import popbalance
    popbalance.r01b(ctx, rep)
    prelude.r01f(ctx, rep)
    prelude.r01g(ctx, rep)
    prelude.r01h(ctx, rep)
    prelude.r01p(ctx, rep)
    prelude.r01r(ctx, rep)
    prelude.r01s(ctx, rep)
    prelude.r01u(ctx, rep)
    r01i(ctx, rep)
    r01j(ctx, rep)
    r01m(ctx, rep)
    r01n(ctx, rep)
    r01q(ctx, rep)
    from . import C02
    borrow(ctx, rep, "R01k", "lexical addressing is part of evaluation: C02's rules on the binding map order (R02c), the scan working on "
           "copies of the bound set (R02d), ENTER installing a per-activation environment (R02e) and load/store symmetry (R02b), "
           "and C04's R04b on the frame surgery of TCALL, re-checked under C01.",
           [C02.r02b, C02.r02c, C02.r02d, C02.r02e, C04.r04b], ["R02b", "R02c", "R02d", "R02e", "R04b"])
    rep.not_decided += ["values computed by any program (the property as stated)", "a handler that is present but wrong",
                        "the order in which the machine pops operands back (ENTER / VARARG arithmetic is value-level)"]
