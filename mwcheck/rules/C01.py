"""C01 — evaluation agrees with the language semantics: structural clauses R01a, R01c, R01d, R01e, R01f."""
from ..facts import callee, op_const, op_place, short_path
from .common import *
from . import tables, twins, C04, prelude

CPA = COMPILE + "compile_procedure_application"
TPA = COMPILE + "transform_procedure_application"
FFS = "marwood::vm::environment::find_free_symbols_in_proc"
COMPILE_EXPR = COMPILE + "compile_expression"
PUTCELL = {HEAP + "maybe_put_cell", HEAP + "put_cell"}


def keyword_of_predicate(facts, path):
    """Cell::is_quote -> 'quote' (the string constant handed to is_symbol_str)"""
    f = facts.fn(path)
    if f is None:
        return None
    for bb, t in f.calls():
        for a in t["args"]:
            c = op_const(a)
            if c is not None and "str" in c:
                return c["str"]
    return None


def compiler_dispatch(facts):
    """keyword -> handler fn path, from the string tests in compile_procedure_application"""
    f = facts.fn(CPA)
    out = {}
    if f is None:
        return out
    for kw, bb, t in tables.str_eq_consts(f):
        sw = f.blocks[t["target"]]["term"] if t.get("target") is not None else None
        if not sw or sw["k"] != "switch":
            continue
        tru = sw["otherwise"]
        calls, _ = tables.arm_effects(f, tru, limit=12)
        for c in calls:
            if c.startswith(COMPILE) and c != CPA:
                out[kw] = c
                break
    return out


def opaque_in_expander(facts):
    """keywords on which transform_procedure_application returns the form unchanged"""
    f = facts.fn(TPA)
    out = set()
    if f is None:
        return out
    for kw, bb, t in tables.str_eq_consts(f):
        out.add(kw)
    return out


def scan_treatment(facts):
    """(opaque keywords, binding keywords) of the free-variable scan"""
    f = facts.fn(FFS)
    opaque, binding = set(), set()
    if f is None:
        return opaque, binding
    rets = f.return_blocks()
    for bb, t in f.calls():
        c = callee(t)
        if c.startswith("marwood::cell::Cell::is_") and t.get("target") is not None:
            kw = keyword_of_predicate(facts, c)
            sw = f.blocks[t["target"]]["term"]
            if kw and sw["k"] == "switch":
                tru = sw["otherwise"]
                # opaque: the true edge reaches the return without any call that descends (find_free_symbols)
                reach = f.reach_from(tru, avoid=[b for b, tt in f.calls() if callee(tt).startswith("marwood::vm::environment::find_free")])
                descends = not any(r in reach for r in rets)
                # true edge goes straight to `return Ok(())`: no statement other than building Ok
                direct = any(r in f.reach_from(tru, avoid=set(range(len(f.blocks))) - set(f.reach_from(tru)) ) for r in rets)
                calls, _ = tables.arm_effects(f, tru, limit=4)
                if not any(c2.startswith("marwood::vm::environment::find_free") or c2.startswith("marwood::cell::Cell::") for c2 in calls[:2]) and not descends:
                    opaque.add(kw)
    for kw, bb, t in tables.str_eq_consts(f):
        binding.add(kw)
    return opaque, binding


def r01a(ctx, rep, rule="R01a", only=None):
    facts, cg = ctx["facts"], ctx["cg"]
    rep.rule(rule, "special-form table agreement: the compiler's keyword dispatch, the macro expander and the "
             "free-variable scan each carry their own notion of which keywords are special. (1) a keyword that the "
             "expander or the free-variable scan treats as opaque (returns without descending) must have a compiler "
             "handler that compiles no sub-expression (does not reach compile_expression), otherwise code the generator "
             "compiles is never macro-expanded / never scope-analysed; (2) a keyword whose handler copies (part of) its "
             "operand as literal data (reaches Heap::maybe_put_cell) must not be treated generically by the expander, "
             "otherwise literal data is rewritten by macros.")
    disp = compiler_dispatch(facts)
    rep.floor(rule, "keywords dispatched by compile_procedure_application", len(disp), 7)
    exp_opaque = opaque_in_expander(facts)
    scan_opaque, scan_binding = scan_treatment(facts)
    rep.floor(rule, "keywords opaque to the macro expander", len(exp_opaque), 2)
    rep.floor(rule, "keywords opaque to the free-variable scan", len(scan_opaque), 2)
    rep.floor(rule, "binding keywords of the free-variable scan", len(scan_binding), 2)
    kind = {}
    for kw, h in disp.items():
        r = cg.reachable_from([h])
        code = COMPILE_EXPR in r
        # literal data: the handler is compile_quote or reaches it without passing through compile_expression
        rq = cg.reachable_from([h], avoid=[COMPILE_EXPR])
        data = (COMPILE + "compile_quote") in rq
        kind[kw] = "mixed" if (code and data) else "code" if code else "data"
    for trav, opaque in (("expander", exp_opaque), ("free-variable-scan", scan_opaque)):
        if only and trav not in only:
            continue
        for kw in sorted(opaque):
            key = "%s|%s|%s|opaque-but-compiled" % (rule, trav, kw)
            k = kind.get(kw)
            if k is None:
                rep.ok(rule, key, "`%s` is opaque to the %s and is not a compiler special form" % (kw, trav), nontrivial=False)
            elif k == "data":
                rep.ok(rule, key, "`%s` is opaque to the %s and its handler %s compiles no sub-expression" % (
                    kw, trav, short_path(disp[kw])), [facts.fns[disp[kw]].span])
            else:
                rep.fail(rule, key, "`%s` is opaque to the %s, but its handler %s compiles sub-expressions (reaches "
                         "compile_expression): %s" % (kw, trav, short_path(disp[kw]),
                                                      "a variable used only inside such a sub-expression is never captured and "
                                                      "is reported unbound in a nested procedure" if trav != "expander" else
                                                      "derived forms inside such a sub-expression are never expanded"),
                         [facts.fns[disp[kw]].span])
    if not only or "expander" in only:
        for kw, k in sorted(kind.items()):
            if k in ("data", "mixed"):
                key = "%s|expander|%s|literal-data-expanded" % (rule, kw)
                if kw in exp_opaque:
                    rep.ok(rule, key, "`%s` carries literal data and the expander leaves it alone" % kw, [facts.fns[disp[kw]].span])
                else:
                    rep.fail(rule, key, "the handler of `%s` (%s) copies operand structure as literal data, but the macro "
                             "expander descends into `%s` forms like any application: literal lists that look like derived "
                             "forms are rewritten before they are quoted" % (kw, short_path(disp[kw]), kw),
                             [facts.fns[disp[kw]].span])
    return disp, kind


def r01e(ctx, rep, rule="R01e"):
    facts = ctx["facts"]
    rep.rule(rule, "compile-time constants are not mutated by generated code: an object allocated by the compiler with "
             "Heap::put and emitted as an immediate operand is shared by every execution of the code; a compiling "
             "function must not both allocate such an object and emit a mutating opcode (VPushAcc) that receives it.")
    n = 0
    for p, f in sorted(facts.fns.items()):
        if not p.startswith(COMPILE):
            continue
        emits_vpush = [s for bb, j, s in f.stmts() if s["rv"]["k"] == "agg" and s["rv"].get("adt") == "marwood::vm::opcode::OpCode"
                       and s["rv"].get("variant") == "VPushAcc"]
        if not emits_vpush:
            continue
        n += 1
        allocs = []
        for bb, t in f.calls():
            if callee(t) == HEAP + "put":
                o = f.origin(t["args"][1]) if len(t["args"]) > 1 else None
                if o and o[0] == "call" and callee(o[1]) == VCELL + "::vector":
                    allocs.append(t)
        key = "%s|%s|vector" % (rule, p.rsplit("::", 1)[-1])
        if allocs:
            rep.fail(rule, key, "%s allocates a vector at compile time (Heap::put(VCell::vector(..))), emits it as an "
                     "immediate and then emits VPushAcc against it: every execution of the compiled code pushes onto the "
                     "same vector" % f.short, [a["loc"] for a in allocs])
        else:
            rep.ok(rule, key, "%s emits VPushAcc only against objects created at run time" % f.short, [f.span])
    rep.floor(rule, "compiling functions that emit VPushAcc", n, 1)


def run(ctx, rep):
    r01a(ctx, rep)
    rep.rule("R01c", "CALL/TCALL twin agreement: the builtin, continuation and non-procedure sub-arms of the CallAcc and "
             "TCallAcc handlers in run_one are the same sequence of resolved callees, constants, register writes and exits.")
    twins.twin_agreement(ctx, rep, "R01c", ["BuiltInProc", "Continuation", "<other>"],
                         "a call in tail position must behave as the same call in operand position")
    C04.r04a(ctx, rep, as_rule="R01d", want=("nontail",))
    r01e(ctx, rep)
    from . import popbalance
    popbalance.r01b(ctx, rep)
    prelude.r01f(ctx, rep)
    prelude.r01g(ctx, rep)
    prelude.r01h(ctx, rep)
    rep.not_decided += ["values computed by any program (the property as stated)", "a handler that is present but wrong",
                        "left-to-right operand order beyond the order of emitted pushes"]
