"""C04 — calls in tail position run in constant stack space (R04a-d)."""
import re
from ..facts import callee, op_place, op_const, short_path, loc_str
from .common import *

OPCODE = "marwood::vm::opcode::OpCode"
CELL_IS_NIL = "marwood::cell::Cell::is_nil"

# Oracle from R7RS 3.5, per compiling function: multiset of provenance classes of the `tail`
# argument at its calls of functions that take one.
#   PARAM = the caller's own tail flag; FALSE/TRUE = constants; LAST = `is_nil` of the rest of a body
ORACLE = {
    "compile": {"PARAM": 1},
    "compile_expression": {"PARAM": 1},
    "compile_procedure_application": {"PARAM": 4},
    "compile_if": {"FALSE": 1, "PARAM": 2},
    "compile_lambda": {"LAST": 1},
    "compile_define": {"FALSE": 1},
    "compile_set": {"FALSE": 1},
    "compile_quasiquote": {"FALSE": 1},
    "compile_runtime_procedure_application": {"FALSE": 2},
    "compile_runnable": {"LAST": 1},
    "eval": {"LAST": 1},
}
WHY = {
    "compile_if": "the test of `if` is not a tail position; consequent and alternate inherit the context",
    "compile_lambda": "only the last expression of a body is in tail position",
    "compile_define": "the value expression of a definition is not a tail position",
    "compile_set": "the value expression of an assignment is not a tail position",
    "compile_quasiquote": "an unquoted expression is an operand of list construction",
    "compile_runtime_procedure_application": "operands and operator are evaluated before the call",
    "compile_runnable": "a top-level expression is the body of the entry procedure; of the spliced forms of an outermost begin only the last is in tail position",
    "eval": "the evaluated expression is the body of a fresh top-level procedure; of the spliced forms of a begin only the last is in tail position",
    "compile": "transformation wrapper: inherits", "compile_expression": "dispatcher: inherits",
    "compile_procedure_application": "special-form dispatcher: inherits",
}


def tail_fns(facts):
    out = {}
    for p, f in facts.fns.items():
        if f.crate != "marwood":
            continue
        for l, n in f.names.items():
            if n in ("tail", "_tail") and 1 <= l <= f.argc and f.locals[l] == "bool":
                out[p] = l
    return out


def classify(f, op, own_tail, site_bb=None):
    o = f.origin(op)
    if o[0] == "const":
        v = o[1].get("int")
        return "TRUE" if v == 1 else "FALSE" if v == 0 else "OTHER"
    if o[0] == "arg" and own_tail is not None and o[1] == own_tail and not o[2]:
        return "PARAM"
    if o[0] == "call" and callee(o[1]) == CELL_IS_NIL:
        # `is the rest of the body empty?` has to be asked anew for every body expression: inside the loop that compiles them
        if site_bb is not None:
            for src, h in f.back_edges():
                body = (f.reach_from(h) & f.reach_back(src)) | {h, src}
                if site_bb in body and o[3] not in body:
                    return "OTHER"
        return "LAST"
    if o[0] == "rv" and o[1]["rv"]["k"] == "bin" and o[1]["rv"]["op"] == "Eq" and site_bb is not None:
        # `idx + 1 == forms.len()` inside `for (idx, form) in forms.iter().enumerate()`: the last element of the body
        from ..shapes import shape
        sh = shape(f, op, 7)
        m = re.match(r"\(Eq \(Add <iter::Enumerate<I> as iter::Iterator>::next\(.*\)\.Some\.0\.0 c:1\)\.0 (vec::Vec::<T, A>|slice::<\[T\]>)::len\(", sh)
        inloop = any(site_bb in ((f.reach_from(h) & f.reach_back(src)) | {h, src}) for src, h in f.back_edges())
        if m and inloop:
            return "LAST"
    return "OTHER"


def r04a(ctx, rep, as_rule="R04a", want=("tail",)):
    """want: 'tail' -> report tail positions compiled non-tail (C04);
             'nontail' -> report non-tail positions compiled as tail (C01/R01d)"""
    facts = ctx["facts"]
    if as_rule == "R04a":
        rep.rule("R04a", "tail-flow table: at every call of a function that takes a `tail: bool` parameter, the "
                 "provenance of the argument (caller's own flag / constant / is_nil of the body rest) must match, as a "
                 "multiset per caller, the table derived from R7RS 3.5; a tail position compiled with `false` makes "
                 "loops through it grow the stack. The CALL/TCALL opcode is selected by a branch on the flag with "
                 "TCallAcc on the true edge.")
    else:
        rep.rule(as_rule, "non-tail operands are compiled non-tail: same table as R04a read in the other direction — "
                 "the test of `if`, operands and operator of an application, the value of define/set!, unquoted "
                 "expressions must pass constant false; inheriting the caller's flag there would make an operand "
                 "evaluation abandon its continuation.")
    tf = tail_fns(facts)
    if len(tf) < 6:
        rep.anchor_lost(as_rule, "functions with a `tail: bool` parameter (found %d, expected >= 6)" % len(tf))
        return
    per = {}
    nsites = 0
    for p, f in sorted(facts.fns.items()):
        if f.crate != "marwood":
            continue
        for bb, t in f.calls():
            c = callee(t)
            if c in tf:
                nsites += 1
                cls = classify(f, t["args"][tf[c] - 1], tf.get(p), bb)
                per.setdefault(p, []).append((cls, t, c))
    for p, sites in sorted(per.items()):
        name = p.rsplit("::", 1)[-1]
        exp = ORACLE.get(name)
        got = {}
        for cls, t, c in sites:
            got[cls] = got.get(cls, 0) + 1
        if exp is None:
            rep.note("%s: %s passes a tail flag %s but is not in the tail-flow table; not judged" % (
                as_rule, short_path(p), got))
            continue
        for cls in ("PARAM", "FALSE", "TRUE", "LAST", "OTHER"):
            e, g = exp.get(cls, 0), got.get(cls, 0)
            if e == 0 and g == 0:
                continue
            key = "%s|%s|%s" % (as_rule, name, cls)
            locs = [t["loc"] for c_, t, _ in sites if c_ == cls] or [sites[0][1]["loc"]]
            tailish = cls in ("PARAM", "TRUE", "LAST")
            if g == e:
                if ("tail" in want and tailish) or ("nontail" in want and not tailish):
                    rep.ok(as_rule, key, "%s passes %s x%d as expected (%s)" % (name, cls, g, WHY.get(name, "")), locs)
                continue
            # which direction is broken?
            if tailish and g < e and "tail" in want:
                rep.fail(as_rule, key, "%s passes %s at %d call(s), the table requires %d: a tail position is compiled "
                         "as non-tail (%s) — a loop through it grows the stack" % (name, cls, g, e, WHY.get(name, "")), locs)
            elif tailish and g > e and "nontail" in want:
                rep.fail(as_rule, key, "%s passes %s at %d call(s), the table allows %d: a non-tail position is "
                         "compiled as a tail call (%s) — the pending continuation is abandoned" % (
                             name, cls, g, e, WHY.get(name, "")), locs)
            elif not tailish and g > e and "tail" in want:
                rep.fail(as_rule, key, "%s passes %s at %d call(s), the table allows %d: a tail position is compiled as "
                         "non-tail (%s)" % (name, cls, g, e, WHY.get(name, "")), locs)
            elif not tailish and g < e and "nontail" in want:
                rep.fail(as_rule, key, "%s passes %s at %d call(s), the table requires %d: a non-tail position no "
                         "longer passes constant false (%s)" % (name, cls, g, e, WHY.get(name, "")), locs)
    for name in ORACLE:
        if not any(p.rsplit("::", 1)[-1] == name for p in per):
            rep.anchor_lost(as_rule, "no tail-flag call sites found in %s" % name)
    rep.floor(as_rule, "call sites passing a tail flag", nsites, 17)
    if "tail" not in want:
        return
    # LAST really is `is_nil` of the rest of the body cursor
    lam = facts.fn(COMPILE + "compile_lambda")
    if lam is not None:
        for cls, t, c in per.get(lam.path, []):
            if cls == "LAST":
                o = lam.origin(t["args"][tf[c] - 1])
                recv = lam.origin(o[1]["args"][0]) if o[0] == "call" else None
                ok = recv is not None and recv[0] == "call" and callee(recv[1]).endswith("Cell::cdr") or (
                    recv is not None and recv[0] in ("rv", "local", "call"))
                # accept: receiver derives from a cdr() call somewhere up the chain
                chain_ok = False
                cur = recv
                for _ in range(6):
                    if cur is None:
                        break
                    if cur[0] == "call":
                        cc = callee(cur[1])
                        if cc.endswith("Cell::cdr"):
                            chain_ok = True
                            break
                        if cur[1]["args"]:
                            cur = lam.origin(cur[1]["args"][0])
                            continue
                    break
                (rep.ok if chain_ok else rep.fail)(
                    "R04a", "R04a|compile_lambda|LAST-is-cdr-nil",
                    "the body loop's tail flag %s `is_nil` of the cdr of the body cursor" % (
                        "is" if chain_ok else "is NOT"), [t["loc"]])
    # opcode selection
    f = facts.fn(COMPILE + "compile_runtime_procedure_application")
    if f is None:
        rep.anchor_lost("R04a", "compile_runtime_procedure_application")
        return
    own = tf.get(f.path)
    sel = None
    for bb, b in enumerate(f.blocks):
        t = b["term"]
        if t["k"] == "switch" and not b.get("cleanup"):
            o = f.origin(t["op"])
            if o[0] == "arg" and o[1] == own:
                sel = (bb, t)
    tc = [(bb, s) for bb, j, s in f.stmts() if s["rv"]["k"] == "agg" and s["rv"].get("adt") == OPCODE
          and s["rv"].get("variant") == "TCallAcc"]
    cc = [(bb, s) for bb, j, s in f.stmts() if s["rv"]["k"] == "agg" and s["rv"].get("adt") == OPCODE
          and s["rv"].get("variant") == "CallAcc"]
    key = "R04a|compile_runtime_procedure_application|opcode-selection"
    if sel is None or not tc or not cc:
        rep.fail("R04a", key, "the emitted call opcode is no longer selected by a branch on the tail flag between "
                 "TCallAcc and CallAcc (branch on flag: %s, TCallAcc sites: %d, CallAcc sites: %d): tail calls are not "
                 "emitted (or every call is)" % (sel is not None, len(tc), len(cc)), [f.span])
        return
    bb, t = sel
    false_t = [tg for v, tg in t["targets"] if v == 0]
    true_t = t["otherwise"]
    ok = bool(false_t) and all(f.dominates(true_t, b) and not f.dominates(false_t[0], b) for b, _ in tc) and \
        all(f.dominates(false_t[0], b) and not f.dominates(true_t, b) for b, _ in cc)
    (rep.ok if ok else rep.fail)(
        "R04a", key, "TCallAcc is emitted on the true edge of the tail flag and CallAcc on the false edge" if ok else
        "TCallAcc/CallAcc are not on the true/false edges of the tail flag respectively (swapped or unconditional)",
        [t["loc"]])


def r04b(ctx, rep):
    facts = ctx["facts"]
    rep.rule("R04b", "TCALL reuses the frame: in the TCallAcc arm of run_one no VCell::InstructionPointer / "
             "EnvironmentPointer is constructed (the linkage pushed back comes from the existing frame) and every "
             "write of the stack pointer is an expression in the base pointer; contrast: the CallAcc arm constructs "
             "both from the current registers.")
    fn = need(rep, "R04b", facts, RUN_ONE)
    if fn is None:
        return
    sws = [sw for sw in disc_switches(facts, fn, OPCODE) if "TCallAcc" in sw["arms"] and "CallAcc" in sw["arms"]]
    if not sws:
        rep.anchor_lost("R04b", "opcode dispatch in run_one")
        return
    sw = sws[0]
    treg = arm_region(fn, sw, "TCallAcc")
    creg = arm_region(fn, sw, "CallAcc")
    if not treg or not creg:
        rep.anchor_lost("R04b", "exclusive TCallAcc / CallAcc arms in run_one")
        return

    def constructs(region):
        out = []
        for bb, j, s in fn.stmts():
            if bb in region and s["rv"]["k"] == "agg" and s["rv"].get("adt") == VCELL and \
                    s["rv"].get("variant") in ("InstructionPointer", "EnvironmentPointer"):
                out.append((s["rv"]["variant"], s))
        return out
    tcon, ccon = constructs(treg), constructs(creg)
    if tcon:
        rep.fail("R04b", "R04b|TCallAcc|no-new-linkage", "the TCallAcc arm constructs %s: it pushes a new return "
                 "linkage instead of reusing the caller's frame, so every tail call grows the stack" % (
                     ", ".join(sorted({v for v, _ in tcon}))), [s["loc"] for _, s in tcon])
    else:
        rep.ok("R04b", "R04b|TCallAcc|no-new-linkage", "the TCallAcc arm constructs no new return linkage", [sw["term"]["loc"]])
    kinds = {v for v, _ in ccon}
    if kinds >= {"InstructionPointer", "EnvironmentPointer"}:
        rep.ok("R04b", "R04b|CallAcc|pushes-linkage", "contrast: the CallAcc arm constructs both linkage values",
               [s["loc"] for _, s in ccon])
    else:
        rep.fail("R04b", "R04b|CallAcc|pushes-linkage", "the CallAcc arm no longer constructs both "
                 "InstructionPointer and EnvironmentPointer (found: %s)" % sorted(kinds), [sw["term"]["loc"]])
    # sp writes in the TCALL arm
    n = 0
    for bb, t in fn.calls():
        if bb in treg and callee(t) == STACK + "get_sp_mut":
            dest = t["dest"]["l"]
            for b2, j, s in fn.stmts():
                if s["lhs"]["l"] == dest and s["lhs"]["p"] and s["lhs"]["p"][0] == "*":
                    n += 1
                    o = fn.origin(s["rv"].get("a")) if s["rv"]["k"] == "use" else None
                    ok = False
                    if o and o[0] == "rv" and o[1]["rv"]["k"] == "bin":
                        a = fn.origin(o[1]["rv"]["a"])
                        ok = a[0] == "arg" and a[1] == 1 and a[2] and isinstance(a[2][0], dict) and a[2][0].get("n") == "bp"
                    key = "R04b|TCallAcc|sp-write#%d" % n
                    (rep.ok if ok else rep.fail)(
                        "R04b", key, "stack pointer write in the TCallAcc arm %s relative to the base pointer" % (
                            "is" if ok else "is NOT"), [s["loc"]])
    rep.floor("R04b", "stack pointer writes in the TCallAcc arm", n, 2)


REENTRY = [RUN + "run", RUN + "run_count", RUN + "run_one", "marwood::vm::Vm::eval", "marwood::vm::Vm::eval_text"]


def r04c(ctx, rep, rule="R04c"):
    facts, cg = ctx["facts"], ctx["cg"]
    rep.rule(rule, "re-dispatch, not re-entry: no registered builtin reaches Vm::run / run_count / run_one / eval / "
             "eval_text in the call graph; apply, eval and call/cc hand the procedure back to the calling CALL/TCALL "
             "instruction, so tail-ness is inherited and the native stack does not nest interpreters.")
    targets = [p for p in REENTRY if p in facts.fns]
    if len(targets) < 3:
        rep.anchor_lost(rule, "interpreter entry points")
        return
    bad = 0
    for b in sorted(cg.registry):
        r = cg.reachable_from([b])
        hit = [t for t in targets if t in r]
        if hit:
            bad += 1
            path = cg.path(b, hit[0])
            rep.fail(rule, "%s|%s" % (rule, short_path(b)), "builtin %s re-enters the interpreter: %s" % (
                short_path(b), " -> ".join(short_path(x) for x in path)), [facts.fns[b].span])
    if not bad:
        rep.ok(rule, "%s|all-builtins" % rule, "none of the %d registered builtins reaches an interpreter entry point" % len(cg.registry))
    for name in ("apply", "eval", "call_cc"):
        p = "marwood::vm::builtin::procedure::" + name
        f = facts.fn(p)
        if f is None:
            rep.anchor_lost(rule, p)
            continue
        # decrements ip.1 exactly once and returns; (R05b checks the order for call/cc)
        decs = []
        for bb, j, s in f.stmts():
            if s["rv"]["k"] == "bin" and s["rv"]["op"] in ("SubWithOverflow", "Sub"):
                a = op_place(s["rv"]["a"])
                if a and [e.get("n") for e in a["p"] if isinstance(e, dict)] == ["ip", "1"]:
                    decs.append(s)
        key = "%s|%s|ip-decrement" % (rule, name)
        if len(decs) == 1:
            rep.ok(rule, key, "%s re-arms the calling instruction by decrementing ip.1 exactly once" % name, [decs[0]["loc"]])
        else:
            rep.fail(rule, key, "%s decrements ip.1 %d times (expected once): the calling CALL/TCALL is not re-executed "
                     "exactly once" % (name, len(decs)), [f.span])
    rep.floor(rule, "registered builtins", len(cg.registry), 130)


def r04e(ctx, rep, rule="R04e"):
    facts, cg = ctx["facts"], ctx["cg"]
    rep.rule(rule, "one call mechanism: a procedure is entered only by the CALL/TCALL instructions. The lambda component "
             "of the instruction pointer (Vm.ip.0 / the whole ip) is written only in run_one, prepare_eval and "
             "restore_continuation, and a return linkage (VCell::InstructionPointer / EnvironmentPointer) is constructed "
             "for storing only in run_one. A builtin that enters a procedure itself pushes an ordinary call frame even "
             "when it was reached by TCALL, so a tail call through it grows the stack.")
    allowed_ip = {RUN_ONE, "marwood::vm::Vm::prepare_eval", CONT + "restore_continuation", "marwood::vm::Vm::new"}
    n = 0
    for p, f in sorted(facts.fns.items()):
        if f.crate != "marwood" or f.impl_trait in DERIVE_TRAITS:
            continue
        vml = {i for i, t in enumerate(f.locals) if t == "&mut marwood::vm::Vm"}
        if not vml:
            continue
        for bb, j, s in f.stmts():
            l = s["lhs"]
            if l["l"] in vml:
                names = [e.get("n") for e in l["p"] if isinstance(e, dict) and "f" in e]
                if names == ["ip"] or names == ["ip", "0"]:
                    n += 1
                    key = "%s|ip-write|%s" % (rule, f.short)
                    if p in allowed_ip:
                        rep.ok(rule, key, "%s writes the procedure component of ip (permitted)" % f.short, [s["loc"]])
                    else:
                        rep.fail(rule, key, "%s sets the instruction pointer to another procedure itself instead of handing "
                                 "it back to the calling CALL/TCALL: the callee gets an ordinary frame even from a tail "
                                 "call, so such calls grow the stack" % f.short, [s["loc"]])
    rep.floor(rule, "writes of the procedure component of ip", n, 4)
    k = 0
    for p, f in sorted(facts.fns.items()):
        if f.crate != "marwood" or f.impl_trait in DERIVE_TRAITS:
            continue
        for bb, j, s in f.stmts():
            rv = s["rv"]
            if rv["k"] == "agg" and rv.get("adt") == VCELL and rv.get("variant") in ("InstructionPointer", "EnvironmentPointer"):
                from .C03 import forward_uses
                uses = forward_uses(f, s["lhs"]["l"]) if not s["lhs"]["p"] else [("store", s, None)]
                storing = [u for u in uses if u[0] == "call" and callee(u[1]) == STACK + "push" or u[0] == "store"]
                if not storing:
                    continue
                k += 1
                key = "%s|linkage|%s|%s" % (rule, f.short, rv["variant"])
                if p == RUN_ONE:
                    rep.ok(rule, key, "return linkage %s is pushed by run_one" % rv["variant"], [s["loc"]])
                else:
                    rep.fail(rule, key, "%s pushes a return linkage (%s) itself: only the CALL instruction may create a "
                             "frame; here a frame is created even when the builtin was reached by TCALL" % (
                                 f.short, rv["variant"]), [s["loc"]])
    rep.floor(rule, "return linkage constructions that are stored", k, 2)


def r04f(ctx, rep, rule="R04f"):
    facts = ctx["facts"]
    rep.rule(rule, "the machine executes the instruction the compiler emitted: run_one's dispatch switches on the discriminant of "
             "the opcode exactly as returned by read_opcode — no re-mapping in between. A TCALL rewritten to CALL at dispatch "
             "time (for some class of procedures) silently turns tail calls into stack-growing calls.")
    f = need(rep, rule, facts, RUN_ONE)
    if f is None:
        return
    OP = "marwood::vm::opcode::OpCode"
    sws = [sw for sw in disc_switches(facts, f, OP) if len(sw["arms"]) >= 8]
    if not sws:
        rep.anchor_lost(rule, "opcode dispatch in run_one")
        return
    for i, sw in enumerate(sws):
        blk = f.blocks[sw["bb"]]
        t = blk["term"]
        o = f.origin(t["op"])
        src = None
        if o[0] == "rv" and o[1]["rv"]["k"] == "disc":
            src = f.origin({"copy": o[1]["rv"]["place"]})
        ok = src is not None and src[0] == "call" and (callee(src[1]) or "").endswith("::read_opcode")
        (rep.ok if ok else rep.fail)(rule, "%s|run_one|dispatch#%d" % (rule, i + 1),
                                     "run_one dispatches on the opcode returned by read_opcode" if ok else
                                     "run_one dispatches on a value that is not the opcode read_opcode returned (it was re-mapped or "
                                     "merged from several definitions): the executed instruction can differ from the emitted one", [f.span])


def r04g(ctx, rep, rule="R04g"):
    facts = ctx["facts"]
    rep.rule(rule, "the consequent of `if` always jumps over the alternate: in compile_if every path from the compilation of the "
             "consequent to the successful return emits OpCode::Jmp. Whether control comes back after a tail call depends on "
             "what the operator is at run time (a builtin called with TCALL runs inside the instruction and continues with the "
             "next one), so eliding the jump for calls that `never return` lets such a call fall through into the alternate, "
             "whose value replaces the tail call's.")
    f = need(rep, rule, facts, COMPILE + "compile_if")
    if f is None:
        return
    tf = tail_fns(facts)
    own = tf.get(f.path)
    sites = [(bb, t) for bb, t in f.calls() if callee(t) in tf and classify(f, t["args"][tf[callee(t)] - 1], own, bb) == "PARAM"]
    jmps = {bb for bb, j, st in f.stmts() if st["rv"]["k"] == "agg" and (st["rv"].get("adt") or "").endswith("opcode::OpCode") and st["rv"].get("variant") == "Jmp"}
    oks = {bb for bb, j, st in f.stmts() if st["lhs"]["l"] == 0 and not st["lhs"]["p"] and st["rv"]["k"] == "agg" and st["rv"].get("variant") == "Ok"}
    if len(sites) < 2 or not jmps or not oks:
        rep.anchor_lost(rule, "consequent/alternate compilation (%d), Jmp emission (%d) or Ok return (%d) in compile_if" % (len(sites), len(jmps), len(oks)))
        return
    # the consequent is the PARAM site that can reach the other one
    cons = [(bb, t) for bb, t in sites if any(b2 != bb and b2 in f.reach_from(bb) for b2, _ in sites)]
    bb, t = (cons or sites)[0]
    start = t.get("target")
    reach = f.reach_from(start, avoid=jmps) if start is not None else set()
    key = rule + "|compile_if|jmp-after-consequent"
    if reach & oks:
        rep.fail(rule, key, "compile_if can finish without emitting the JMP over the alternate after the consequent: where the "
                 "consequent's call returns into the instruction stream (a builtin reached through TCALL) execution falls into the "
                 "alternate and its value replaces the call's", [t["loc"]])
    else:
        rep.ok(rule, key, "every successful path through compile_if emits JMP after the consequent", [f.span])


def run(ctx, rep):
    r04a(ctx, rep)
    r04b(ctx, rep)
    r04c(ctx, rep)
    r04e(ctx, rep)
    r04f(ctx, rep)
    r04g(ctx, rep)
    from . import prelude
    prelude.r04d(ctx, rep)
    prelude.r01p(ctx, rep, rule="R04h")
    rep.not_decided += ["stack-pointer arithmetic being off by a constant inside a bp-relative handler",
                        "measured stack depth for concrete n", "value equality with the non-tail equivalent"]
