"""C09 — numeric comparison is one consistent total order across representations (R09a-c)."""
from . import numeric


def run(ctx, rep):
    numeric.r09a(ctx, rep)
    numeric.r09b(ctx, rep)
    numeric.r09c(ctx, rep)
    numeric.r_fold_adjacent(ctx, rep, "R09d", ["marwood::vm::builtin::number::"], 1)
    numeric.r09e(ctx, rep)
    rep.not_decided += ["transitivity / consistency beyond per-arm domain adequacy",
                        "a comparison made in an adequate domain with swapped operands",
                        "NaN handling"]
