"""C12 — memory is bounded by live data (structural causes of unbounded retention: R12a-e)."""
from . import runloop, C03, C18


def run(ctx, rep):
    runloop.r12a(ctx, rep)
    runloop.r07a(ctx, rep, rule="R12b")
    C03.r03e(ctx, rep)
    for o in rep.obs:
        if o.rule == "R03e":
            o.rule = "R12c"
            o.key = o.key.replace("R03e", "R12c")
    if "R03e" in rep.rules:
        rep.rules["R12c"] = rep.rules.pop("R03e")
    C18.r18b(ctx, rep, rule="R12d")
    runloop.r12e(ctx, rep)
    runloop.r12f(ctx, rep)
    runloop.r12g(ctx, rep)
    runloop.r12i(ctx, rep)
    runloop.r12j(ctx, rep)
    runloop.r07h(ctx, rep, rule="R12k")
    runloop.r12l(ctx, rep)
    runloop.r12p(ctx, rep)
    runloop.r12q(ctx, rep)
    runloop.r12v(ctx, rep)
    runloop.r12w(ctx, rep)
    runloop.r12x(ctx, rep)
    runloop.r12y(ctx, rep)
    runloop.r12z(ctx, rep)
    runloop.r12o(ctx, rep)
    runloop.r12r(ctx, rep)
    runloop.r12s(ctx, rep)
    runloop.r13g(ctx, rep, rule="R12t")
    C03.r03p(ctx, rep, rule="R12u")
    from . import prelude
    prelude.r12n(ctx, rep)
    runloop.r07i(ctx, rep, rule="R12m")
    rep.not_decided += ["heap growth over unbounded executions", "leaks through over-marking that grow with work"]
