"""C20 — the REPL highlighter marks exactly the matching bracket (R20a-b)."""
from ..facts import callee, op_const, op_place
from .common import *
from . import tables
from . import tables as tables_mod
from .tables import TOKEN_TYPE


def r20b(ctx, rep):
    facts = ctx["facts"]
    rep.rule("R20b", "exactly one escape pair around one token: in ReplHighlighter::highlight the three slices "
             "formatted around the escape codes partition the text — [0 .. s0], [s0 .. s1], [s1 ..] — with s0, s1 the "
             "two fields of the same token span.")
    fn = need(rep, "R20b", facts, "marwood::syntax::ReplHighlighter::highlight")
    if fn is None:
        return
    slices = []
    for bb, t in fn.calls():
        fa = t.get("fnargs") or ""
        if fa.startswith("<str as std::ops::Index<std::ops::Range"):
            o = fn.origin(t["args"][1])
            if o[0] == "rv" and o[1]["rv"]["k"] == "agg":
                ops = o[1]["rv"]["ops"]
                desc = []
                for op in ops:
                    oo = fn.origin(op)
                    if oo[0] == "const":
                        desc.append(("const", oo[1].get("int")))
                    else:
                        names = [e["n"] for e in oo[2] if isinstance(e, dict) and "f" in e] if len(oo) > 2 else []
                        root = oo[1] if oo[0] in ("local", "arg") else None
                        # follow one more copy (span = (*bracket).span)
                        desc.append(("field", tuple(names[-2:]), root))
                slices.append((o[1]["rv"]["adt"].rsplit("::", 1)[-1], desc, t["loc"]))
    rep.floor("R20b", "text slices in highlight", len(slices), 3)
    got = set()
    roots = set()
    for kind, desc, loc in slices:
        sig = []
        for d in desc:
            if d[0] == "const":
                sig.append(str(d[1]))
            else:
                sig.append(".".join(d[1][-1:]))
                roots.add((d[1][:-1], d[2]))
        got.add((kind, tuple(sig)))
    want = {("Range", ("0", "0")), ("Range", ("0", "1")), ("RangeFrom", ("1",))}
    key = "R20b|highlight|partition"
    if got == want and len(roots) == 1:
        rep.ok("R20b", key, "the three slices are [0..span.0], [span.0..span.1], [span.1..] of one span",
               [l for _, _, l in slices])
    else:
        rep.fail("R20b", key, "the slices formatted by highlight do not partition the text around one token span "
                 "(found %s over %d span value(s)): text is dropped, duplicated or the wrong range is underlined" % (
                     sorted(got), len(roots)), [l for _, _, l in slices])
    # the escape template: one start and one end code
    tmpl = None
    for bb, j, s in fn.stmts():
        c = op_const(s["rv"].get("a")) if s["rv"]["k"] == "use" else None
        if c is not None and c.get("ty", "").startswith("&[u8;") and "\\x1b" in c.get("text", ""):
            tmpl = c["text"]
    if tmpl is None:
        rep.anchor_lost("R20b", "format template with escape codes in highlight")
    else:
        n_on = tmpl.count("\\x1b[4m")
        n_off = tmpl.count("\\x1b[0m")
        ok = n_on == 1 and n_off == 1 and tmpl.index("\\x1b[4m") < tmpl.index("\\x1b[0m")
        (rep.ok if ok else rep.fail)("R20b", "R20b|highlight|one-escape-pair",
                                     "the format template has exactly one underline-on and one reset code, in that order"
                                     if ok else "the format template has %d underline-on and %d reset codes" % (n_on, n_off),
                                     [fn.span])


def r20c(ctx, rep, rule="R20c"):
    """classification tables of the nesting counter, recovered by enum-constant propagation"""
    from ..enumconst import EnumConst, Budget
    facts = ctx["facts"]
    rep.rule(rule, "the nesting counter classifies tokens the same way in both directions: find_matching_bracket touches token "
             "types only through match and ==, so for each token type at the cursor and each token type met while scanning "
             "the path through its body is determined. Recovered tables: which types start a forward scan (openers) / a "
             "backward scan (closers), and per direction which types bump the nesting count and which are tested as a "
             "partner. Required: forward — bump = openers, partner = closers; backward — bump = closers, partner = openers; "
             "and the openers are exactly the parser's opener types. A type that opens a scan but is not counted when met "
             "inside one (e.g. a nested #( ) pairs the outer bracket with the wrong closer.")
    f = need(rep, rule, facts, "marwood::syntax::find_matching_bracket")
    if f is None or TOKEN_TYPE not in facts.adts:
        return
    ec = EnumConst(facts, f, TOKEN_TYPE, "token_type")
    heads = sorted({h for src, h in f.back_edges()})
    if len(heads) != 1:
        rep.fail(rule, "%s|shape" % rule, "find_matching_bracket has %d loops; the table recovery expects the single scanning loop" % len(heads), [f.span])
        return
    head = heads[0]
    body = set()
    for src, h in f.back_edges():
        body |= (f.reach_from(h) & f.reach_back(src)) | {h, src}
    # the counter: a local incremented by a constant inside the loop
    counters = set()
    for bb in body:
        for st in f.blocks[bb]["stmts"]:
            rv = st["rv"]
            if rv["k"] == "bin" and rv["op"] in ("AddWithOverflow", "Add") and op_const(rv["b"]) is not None and op_place(rv["a"]) is not None:
                counters.add(op_place(rv["a"])["l"])
    if len(counters) != 1:
        rep.fail(rule, "%s|shape" % rule, "could not identify the nesting counter of find_matching_bracket (%d candidates)" % len(counters), [f.span])
        return
    ctr = list(counters)[0]
    bump_blocks = {bb for bb in body for st in f.blocks[bb]["stmts"] if st["rv"]["k"] == "bin" and st["rv"]["op"] in ("AddWithOverflow", "Add")
                   and op_place(st["rv"]["a"]) is not None and op_place(st["rv"]["a"])["l"] == ctr}
    def _is_ctr(op):
        o = f.origin(op)
        return o[0] == "local" and o[1] == ctr and not o[2]
    partner_blocks = {bb for bb in body for st in f.blocks[bb]["stmts"] if st["rv"]["k"] == "bin" and st["rv"]["op"] in ("Eq", "Ne", "SubWithOverflow", "Sub", "Gt", "Lt")
                      and _is_ctr(st["rv"]["a"])}
    try:
        dispatch = {}
        for d in ec.variants:
            vis, calls, exits, _ = ec.explore(0, {}, d, stops=[head])
            stops = [e for e in exits if e[0] == "stop"]
            if not stops:
                continue
            direction = "backward" if any(c.endswith("Iterator::rev") or c.endswith("::rev") for c in calls) else "forward"
            dispatch[d] = (direction, [dict(e[2]) for e in stops])
        tables = {}
        for d, (direction, envs) in dispatch.items():
            for env in envs:
                for v in ec.variants:
                    vis, calls, exits, _ = ec.explore(head, env, v, stops=[head])
                    t = tables.setdefault(direction, {"bump": set(), "partner": set()})
                    if vis & bump_blocks:
                        t["bump"].add(v)
                    if vis & partner_blocks:
                        t["partner"].add(v)
    except Budget:
        rep.fail(rule, "%s|shape" % rule, "state budget exceeded while following find_matching_bracket per token type", [f.span])
        return
    openers = {d for d, (dr, _) in dispatch.items() if dr == "forward"}
    closers = {d for d, (dr, _) in dispatch.items() if dr == "backward"}
    rep.floor(rule, "token types that start a scan", len(dispatch), 3)

    def show(x):
        return "{" + ", ".join(sorted(x)) + "}"
    want = {("forward", "bump"): openers, ("forward", "partner"): closers, ("backward", "bump"): closers, ("backward", "partner"): openers}
    for (dr, what), expect in sorted(want.items()):
        got = tables.get(dr, {}).get(what, set())
        key = "%s|%s|%s" % (rule, dr, what)
        if got == expect:
            rep.ok(rule, key, "%s scan: %s set is %s" % (dr, what, show(got)), [f.span])
        else:
            rep.fail(rule, key, "%s scan: the token types that %s are %s but the types that %s a scan are %s: %s" % (
                dr, "bump the nesting count" if what == "bump" else "are tested as the partner", show(got),
                "start" if (dr, what) in (("forward", "bump"), ("backward", "partner")) else "end",
                show(expect), "a bracket of a missing type is not counted when it is met inside a scan, so the outer bracket is "
                "paired with the wrong partner" if what == "bump" else "a partner of a missing type is never found"), [f.span])
    # agreement with the parser's own opener set (as R20a derives it)
    parse = facts.fns.get("marwood::parse::parse")
    if parse is not None:
        sws = disc_switches(facts, parse, TOKEN_TYPE)
        p_open = set()
        if sws:
            for v, tg in sws[0]["arms"].items():
                calls, _ = tables_mod.arm_effects(parse, tg, stop={sws[0]["otherwise"]}, limit=3)
                for c in calls[:1]:
                    g = facts.fn(c)
                    if g is not None and g.path != parse.path:
                        for sw in disc_switches(facts, g, TOKEN_TYPE):
                            if "RightParen" in sw["arms"]:
                                p_open.add(v)
        if p_open:
            (rep.ok if p_open == openers else rep.fail)(
                rule, "%s|openers-vs-parser" % rule,
                "the types that start a forward scan %s are the parser's opener types" % show(openers) if p_open == openers else
                "the types that start a forward scan are %s but the parser opens a bracketed datum on %s" % (show(openers), show(p_open)), [f.span])


def r20f(ctx, rep, rule="R20f"):
    """the token stream decides whether there is a bracket at the cursor"""
    from .. import shapes
    facts = ctx["facts"]
    rep.rule(rule, "tokens, not bytes, decide: brackets are tokens (the vector opener `#(` is one two-byte bracket token, and a "
             "bracket byte inside a string or comment is none), so every exit of highlight that returns the text unchanged, "
             "and every `false` of highlight_check, comes after lex::scan was consulted (or under an emptiness test of the "
             "text). A byte-level pre-check in front of the scanner answers for the token stream without looking at it.")
    n = 0
    for nm in ("highlight", "highlight_check"):
        f = need(rep, rule, facts, "marwood::syntax::ReplHighlighter::" + nm)
        if f is None:
            continue
        scans = [bb for bb, t in f.calls() if callee(t) == "marwood::lex::scan"]
        if not scans:
            rep.anchor_lost(rule, "%s does not call lex::scan" % nm)
            continue
        k = 0
        for bb, j, st in f.stmts():
            rv = st["rv"]
            if st["lhs"]["l"] != 0 or st["lhs"]["p"]:
                continue
            unchanged = rv["k"] == "agg" and (rv.get("adt") or "").endswith("Cow") and rv.get("variant") == "Borrowed"
            c = op_const(rv.get("a")) if rv["k"] == "use" else None
            neg = c is not None and c.get("ty") == "bool" and c.get("int") in (0, False)
            if not (unchanged or neg):
                continue
            k += 1
            n += 1
            key = "%s|%s|%s#%d" % (rule, nm, "unchanged" if unchanged else "false", k)
            after = any(f.dominates(sb, bb) and sb != bb for sb in scans)
            empty = any(re.search(r"is_empty\(a2\)=T|\(Eq core::str::<impl str>::len\(a2\) c:0\)=T", g) for g in shapes.guard_shapes(f, bb, None, 3))
            (rep.ok if (after or empty) else rep.fail)(
                rule, key, "%s gives its negative answer after scanning the text" % nm if (after or empty) else
                "%s returns %s before lex::scan was called: the answer rests on bytes, but `#(` is a bracket token that starts with "
                "`#`, and a bracket byte in a string or comment is no token" % (nm, "the text unchanged" if unchanged else "false"), [st["loc"]])
    rep.floor(rule, "negative exits of the highlighter", n, 3)


IDENTITY_CONV = re.compile(
    r"(as std::ops::Deref>::deref$|as std::borrow::ToOwned>::to_owned$|ToOwned for str>::to_owned$|Cow<.*>::into_owned$|Cow::<.*>::into_owned$|Cow::<.*>::to_mut$|"
    r"as std::clone::Clone>::clone$|as std::string::ToString>::to_string$|as std::convert::(From|Into)<.*>>::(from|into)$|"
    r"as std::convert::AsRef<str>>::as_ref$|as std::borrow::Borrow<str>>::borrow$|std::string::String::as_str$|"
    r"marwood_wasm::HighlightResult::new$|as std::ops::Drop>::drop$|std::mem::drop$|std::string::String::len$|str>::len$)")


def r20h(ctx, rep, rule="R20h"):
    """front ends hand the highlighter's text on unchanged"""
    from ..flow import Labels
    facts, cg = ctx["facts"], ctx["cg"]
    rep.rule(rule, "the text reaches the terminal as the highlighter returned it: in every function outside marwood::syntax that calls "
             "ReplHighlighter::highlight (the rustyline and wasm front ends), the result flows to the function's own result only "
             "through identity conversions (deref, to_owned, into_owned, clone, From/Into, the HighlightResult constructor). A call "
             "that rewrites the string on the way (replace, trim, case mapping, slicing, formatting) alters user text that merely "
             "resembles the pattern — the statement allows one underline pair and nothing else.")
    HL = "marwood::syntax::ReplHighlighter::highlight"
    users = sorted(p for p in cg.callers(HL) if not p.startswith("marwood::syntax::"))
    rep.floor(rule, "front-end callers of ReplHighlighter::highlight", len(users), 2)
    for p in users:
        f = facts.fns[p]
        init = {}
        for bb, t in f.calls():
            if callee(t) == HL:
                init.setdefault(t["dest"]["l"], set()).add("hl")
        lab = Labels(f, init=init)
        bad = []
        n = 0
        for bb, t in f.calls():
            c = callee(t)
            if c == HL:
                continue
            al = lab.call_arg_labels(t, bb)
            if not any("hl" in a for a in al):
                continue
            n += 1
            fa = t.get("fnargs") or c or ""
            if not (IDENTITY_CONV.search(c or "") or IDENTITY_CONV.search(fa)):
                bad.append((c, t["loc"]))
        key = "%s|%s" % (rule, f.short)
        (rep.ok if not bad else rep.fail)(
            rule, key, "%s passes the highlighted text on through %d identity conversion(s)" % (f.short, n) if not bad else
            "%s passes the highlighter's result through %s before returning it: text the user typed is rewritten wherever it "
            "resembles the pattern, so the line shown differs from the text by more than one escape pair" % (
                f.short, ", ".join(sorted({b[0] or "?" for b in bad}))), [b[1] for b in bad] or [f.span])


def run(ctx, rep):
    tables.r20a(ctx, rep)
    r20b(ctx, rep)
    r20c(ctx, rep)
    r20f(ctx, rep)
    r20h(ctx, rep)
    tables.r11f(ctx, rep, rule="R20d")
    tables.r11j(ctx, rep, rule="R20g")
    from . import C11
    C11.r11i(ctx, rep, rule="R20e")
    rep.rules["R20e"] = "brackets in comments stay out of the token stream: " + rep.rules["R20e"]
    from . import C06
    C06.r06a_restricted(ctx, rep, "R20p", ["marwood::syntax::"], "neither highlighter call panics", 6)
    rep.not_decided += ["the counter arithmetic (that the count is zero exactly at the properly nested partner) and the byte-indexed cursor lookup (value-level)",
                        "panic-freedom of highlight/highlight_check (C06's inventory covers their bodies)"]
