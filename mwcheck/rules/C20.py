"""C20 — the REPL highlighter marks exactly the matching bracket (R20a-b)."""
from ..facts import callee, op_const, op_place
from .common import *
from . import tables


def r20b(ctx, rep):
    facts = ctx["facts"]
    rep.rule("R20b", "exactly one escape pair around one token: in ReplHighlighter::highlight the three slices "
             "formatted around the escape codes partition the text — [0 .. s0], [s0 .. s1], [s1 ..] — with s0, s1 the "
             "two fields of the same token span.")
    fn = need(rep, "R20b", facts, "marwood::syntax::ReplHighlighter::highlight")
    if fn is None:
        return
    slices = []
    for bb, t in fn.calls():
        fa = t.get("fnargs") or ""
        if fa.startswith("<str as std::ops::Index<std::ops::Range"):
            o = fn.origin(t["args"][1])
            if o[0] == "rv" and o[1]["rv"]["k"] == "agg":
                ops = o[1]["rv"]["ops"]
                desc = []
                for op in ops:
                    oo = fn.origin(op)
                    if oo[0] == "const":
                        desc.append(("const", oo[1].get("int")))
                    else:
                        names = [e["n"] for e in oo[2] if isinstance(e, dict) and "f" in e] if len(oo) > 2 else []
                        root = oo[1] if oo[0] in ("local", "arg") else None
                        # follow one more copy (span = (*bracket).span)
                        desc.append(("field", tuple(names[-2:]), root))
                slices.append((o[1]["rv"]["adt"].rsplit("::", 1)[-1], desc, t["loc"]))
    rep.floor("R20b", "text slices in highlight", len(slices), 3)
    got = set()
    roots = set()
    for kind, desc, loc in slices:
        sig = []
        for d in desc:
            if d[0] == "const":
                sig.append(str(d[1]))
            else:
                sig.append(".".join(d[1][-1:]))
                roots.add((d[1][:-1], d[2]))
        got.add((kind, tuple(sig)))
    want = {("Range", ("0", "0")), ("Range", ("0", "1")), ("RangeFrom", ("1",))}
    key = "R20b|highlight|partition"
    if got == want and len(roots) == 1:
        rep.ok("R20b", key, "the three slices are [0..span.0], [span.0..span.1], [span.1..] of one span",
               [l for _, _, l in slices])
    else:
        rep.fail("R20b", key, "the slices formatted by highlight do not partition the text around one token span "
                 "(found %s over %d span value(s)): text is dropped, duplicated or the wrong range is underlined" % (
                     sorted(got), len(roots)), [l for _, _, l in slices])
    # the escape template: one start and one end code
    tmpl = None
    for bb, j, s in fn.stmts():
        c = op_const(s["rv"].get("a")) if s["rv"]["k"] == "use" else None
        if c is not None and c.get("ty", "").startswith("&[u8;") and "\\x1b" in c.get("text", ""):
            tmpl = c["text"]
    if tmpl is None:
        rep.anchor_lost("R20b", "format template with escape codes in highlight")
    else:
        n_on = tmpl.count("\\x1b[4m")
        n_off = tmpl.count("\\x1b[0m")
        ok = n_on == 1 and n_off == 1 and tmpl.index("\\x1b[4m") < tmpl.index("\\x1b[0m")
        (rep.ok if ok else rep.fail)("R20b", "R20b|highlight|one-escape-pair",
                                     "the format template has exactly one underline-on and one reset code, in that order"
                                     if ok else "the format template has %d underline-on and %d reset codes" % (n_on, n_off),
                                     [fn.span])


def run(ctx, rep):
    tables.r20a(ctx, rep)
    r20b(ctx, rep)
    rep.not_decided += ["that the partner found is the properly nested one (value-level)",
                        "panic-freedom of highlight/highlight_check (C06's inventory covers their bodies)"]
