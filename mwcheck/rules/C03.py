import re
"""C03 — garbage collection never reclaims a live object (structural clauses R03a-e)."""
from ..facts import callee, op_const, op_place, place_str, loc_str, short_path
from ..flow import Labels, fields_read_of_self, places_read
from .common import *

MARK = HEAP + "mark"
MARK_VCELL = HEAP + "mark_vcell"
MARK_CONT = HEAP + "mark_continuation"
MARK_LAMBDA = HEAP + "mark_lambda"
SWEEP = HEAP + "sweep"
FREE = HEAP + "free"
MARKERS = {MARK: "mark", MARK_VCELL: "mark_vcell", MARK_CONT: "mark_continuation", MARK_LAMBDA: "mark_lambda"}
GCMAP_MARK = "marwood::vm::gc::Map::mark"


def r03a(ctx, rep):
    facts, cg = ctx["facts"], ctx["cg"]
    rep.rule("R03a", "who-may-call: no function in the dynamic extent of one instruction (reachable from "
             "Vm::run_one in the call graph, including every registered builtin through the function-pointer slot) "
             "calls Vm::run_gc, Heap::sweep or Heap::free; sweep is called only by run_gc and free only by sweep. "
             "Hence collection starts only at instruction boundaries and Rust locals need not be roots.")
    for p in (RUN_ONE, RUN_GC, SWEEP, FREE, RUN_COUNT):
        if need(rep, "R03a", facts, p) is None:
            return
    extent = cg.reachable_from([RUN_ONE])
    n = {RUN_GC: 0, SWEEP: 0, FREE: 0}
    for tgt in (RUN_GC, SWEEP, FREE):
        for c in sorted(cg.callers(tgt)):
            for bb, t, kind in cg.sites[(c, tgt)]:
                n[tgt] += 1
                key = "R03a|%s<-%s" % (short_path(tgt), short_path(c))
                if c in extent:
                    path = cg.path(RUN_ONE, c)
                    rep.fail("R03a", key, "%s is called from %s, which is reachable from run_one (%s): a collection can "
                             "start in the middle of an instruction while builtin locals hold unrooted references"
                             % (short_path(tgt), short_path(c), " -> ".join(short_path(x) for x in (path or []))),
                             [t["loc"]])
                else:
                    rep.ok("R03a", key, "%s called from %s, outside the extent of run_one" %
                           (short_path(tgt), short_path(c)), [t["loc"]])
        exp = {SWEEP: {RUN_GC}, FREE: {SWEEP}}.get(tgt)
        if exp is not None:
            extra = cg.callers(tgt) - exp
            for c in sorted(extra):
                if c not in extent:
                    rep.fail("R03a", "R03a|%s<-%s|owner" % (short_path(tgt), short_path(c)),
                             "%s may only be called by %s but is also called by %s" % (
                                 short_path(tgt), ", ".join(short_path(x) for x in exp), short_path(c)))
    rep.floor("R03a", "call sites of run_gc", n[RUN_GC], 3)
    rep.floor("R03a", "call sites of Heap::sweep", n[SWEEP], 1)
    rep.floor("R03a", "call sites of Heap::free", n[FREE], 1)
    # the function pointer slot must be connected, otherwise `extent` silently misses the builtins
    rep.floor("R03a", "registered builtins reachable through the fn-pointer slot",
              len([b for b in cg.registry if b in extent]), 100)


def vm_roots(facts, rep):
    """type-driven list of root locations: [(label, kind, reason)] and the non-carrying fields"""
    carry = carrying_types(facts)
    vm = facts.adts.get(VM)
    if vm is None:
        rep.anchor_lost("R03b", "struct Vm not found")
        return [], []
    roots, non = [], []
    for f in vm["variants"][0]["fields"]:
        name = f["name"]
        if f["ty"] == "marwood::vm::heap::Heap":
            non.append((name, "the object store itself, not a root"))
            continue
        k = field_carrying(f, carry)
        if not k:
            non.append((name, "type %s holds no heap reference" % f["hir"]))
            continue
        sub = facts.adts.get(f["ty"])
        if sub is not None and sub["kind"] == "struct":
            for sf in sub["variants"][0]["fields"]:
                sk = field_carrying(sf, carry)
                lab = "%s.%s" % (name, sf["name"])
                if lab == "globenv.bindings":
                    # frozen entry: HashMap<usize, usize> keyed by the heap index of the bound symbol
                    roots.append((lab, "ref", "keys are heap indices of symbol cells (reviewed)"))
                elif sk:
                    roots.append((lab, "vcell" if VCELL in sf["ty"] else "ref", sk))
                else:
                    non.append((lab, "type %s holds no heap reference" % sf["hir"]))
        else:
            roots.append((name, "vcell" if VCELL in f["ty"] else "ref", k))
    return roots, non


def closure_param_sinks(facts, cpath):
    """which markers receive (a value derived from) the closure's parameter _2"""
    c = facts.fn(cpath)
    if c is None:
        return set()
    lab = Labels(c, init={2: {"param"}})
    out = set()
    for bb, t in c.calls():
        m = MARKERS.get(callee(t))
        if m and len(t["args"]) > 1 and "param" in lab.of_op(t["args"][1]):
            out.add(m)
    return out


def r03b(ctx, rep):
    facts, cg = ctx["facts"], ctx["cg"]
    rep.rule("R03b", "root completeness + tracer adequacy: every field of Vm whose type can hold a heap reference "
             "(type-driven; struct fields are expanded one level) is read in run_gc and the value read flows "
             "(def-use, through accessor methods and iterator adaptors, into closures by parameter) into an argument "
             "of Heap::mark / Heap::mark_vcell; a location typed VCell admits every variant and so must reach the "
             "total marker mark_vcell, not the index-only marker mark.")
    gc = need(rep, "R03b", facts, RUN_GC)
    if gc is None:
        return
    roots, non = vm_roots(facts, rep)
    vm = facts.adts.get(VM)
    struct_fields = {}
    if vm:
        for f in vm["variants"][0]["fields"]:
            if f["ty"] in facts.adts and facts.adts[f["ty"]]["kind"] == "struct":
                struct_fields[f["name"]] = f["ty"]

    def seed(fn, where, p):
        if p["l"] == 1 and len(p["p"]) >= 2 and p["p"][0] == "*":
            e = p["p"][1]
            if isinstance(e, dict) and "f" in e:
                return [e["n"]]
        return []

    def transfer(t, al):
        c = facts.fn(callee(t))
        if c is not None and al and c.argc >= 1:
            out = set()
            hit = False
            for l in al[0]:
                if l in struct_fields and c.path.startswith(struct_fields[l] + "::"):
                    hit = True
                    for sf in fields_read_of_self(c):
                        out.add("%s.%s" % (l, sf))
            if hit:
                return out | set().union(*al[1:]) if len(al) > 1 else out
        return None

    lab = Labels(gc, seed=seed, call_transfer=transfer)
    sinks = {}
    where = {}
    where_bb = {}
    for bb, t in gc.calls():
        al = lab.call_arg_labels(t, bb)
        m = MARKERS.get(callee(t))
        reached = set()
        if m and len(al) > 1:
            for l in al[1]:
                sinks.setdefault(l, set()).add(m)
                where.setdefault(l, []).append(t["loc"])
                where_bb.setdefault(l, []).append(bb)
        for ga in t.get("gargs", []):
            if ga.get("closure"):
                ks = closure_param_sinks(facts, ga["closure"])
                if ks:
                    for a in al:
                        for l in a:
                            sinks.setdefault(l, set()).update(ks)
                            where.setdefault(l, []).append(t["loc"])
                            where_bb.setdefault(l, []).append(bb)
    sweeps = [bb for bb, t in gc.calls() if callee(t) == SWEEP]
    # a struct-typed field read whole (e.g. `&self.stack` passed to an accessor) is refined by `transfer`;
    # a label that stays unrefined (e.g. `stack`) covers all its sub-roots
    for label, kind, why in roots:
        base = label.split(".")[0]
        got = sinks.get(label, set()) | (sinks.get(base, set()) if base != label else set())
        locs = where.get(label, []) + where.get(base, [])
        key = "R03b|root|%s" % label
        if not got:
            rep.fail("R03b", key, "Vm.%s can hold a heap reference (%s) but no value read from it in run_gc reaches "
                     "Heap::mark/mark_vcell: objects reachable only from it are reclaimed" % (label, why),
                     [gc.span])
            continue
        rep.ok("R03b", key, "Vm.%s is traced (reaches %s)" % (label, ", ".join(sorted(got))), locs[:2])
        # unconditionally: some marking of this root happens on every path to the sweep
        bbs = where_bb.get(label, []) + (where_bb.get(base, []) if base != label else [])
        if sweeps:
            uncond = any(gc.dominates(b, sw) for b in bbs for sw in sweeps)
            (rep.ok if uncond else rep.fail)(
                "R03b", "R03b|always|%s" % label,
                "Vm.%s is marked on every path that reaches the sweep" % label if uncond else
                "Vm.%s is marked only on some paths to the sweep (its marking sits under a condition): on the other paths "
                "what it references is reclaimed while the register still points at it" % label, locs[:2])
        key = "R03b|adequacy|%s" % label
        if kind == "vcell" and "mark_vcell" not in got:
            rep.fail("R03b", key, "Vm.%s is typed VCell (every variant admissible) but reaches only the index-only "
                     "marker Heap::mark after a lossy projection: an inline Vector/Pair/Closure/Continuation value "
                     "stored there is skipped and the objects it references are reclaimed" % label, locs[:2])
        else:
            rep.ok("R03b", key, "Vm.%s reaches a marker adequate for its type (%s)" % (label, kind), locs[:2])
    rep.floor("R03b", "root locations of Vm", len(roots), 6)
    for name, why in non:
        rep.ok("R03b", "R03b|nonroot|%s" % name, "Vm.%s classified as not reference-carrying: %s" % (name, why),
               nontrivial=False)


def variant_carrying_fields(facts):
    carry = carrying_types(facts)
    vc = facts.adts.get(VCELL)
    out = {}
    if vc is None:
        return out, carry
    for v in vc["variants"]:
        fs = []
        for i, f in enumerate(v["fields"]):
            k = field_carrying(f, carry)
            if k:
                fs.append((i, k))
        if fs:
            out[v["name"]] = fs
    return out, carry


def marker_flows(facts, fn):
    """(variant, field index) -> set of markers reached by a value read from that variant field of the
    matched cell; also detects the iterative `ptr = cdr` idiom (assignment to the local that feeds
    gc::Map::mark)."""
    loopvars = set()
    for bb, t in fn.calls():
        if callee(t) == GCMAP_MARK and len(t["args"]) > 1:
            o = fn.origin(t["args"][1])
            if o[0] == "local":
                loopvars.add(o[1])

    def seed(f, where, p):
        out = []
        for i, e in enumerate(p["p"]):
            if isinstance(e, dict) and "dc" in e and i + 1 < len(p["p"]):
                nx = p["p"][i + 1]
                if isinstance(nx, dict) and "f" in nx and p["ty"] is not None:
                    out.append(("V", e["dc"], nx["f"]))
                break
        return out

    lab = Labels(fn, seed=seed)
    reach = {}
    for bb, t in fn.calls():
        m = MARKERS.get(callee(t))
        if m:
            for a in lab.call_arg_labels(t, bb)[1:]:
                for l in a:
                    if isinstance(l, tuple) and l[0] == "V":
                        reach.setdefault((l[1], l[2]), set()).add(m)
    for bb, j, s in fn.stmts():
        if not s["lhs"]["p"] and s["lhs"]["l"] in loopvars:
            for p in places_read(s["rv"]):
                for l in lab.of_place(p, ("stmt", bb, j, s)):
                    if isinstance(l, tuple) and l[0] == "V":
                        reach.setdefault((l[1], l[2]), set()).add("loop-cursor")
    return reach


def r03c(ctx, rep):
    facts = ctx["facts"]
    rep.rule("R03c", "trace completeness: for each marker (Heap::mark for cells in the heap, Heap::mark_vcell for "
             "cells in stacks, environment slots, vectors and bytecode) and each VCell variant with a "
             "reference-carrying field, the value of that field flows into a marker call (or into the loop cursor "
             "that feeds gc::Map::mark). An arm that marks nothing is accepted only through R03d. Payload structs "
             "(Continuation, Lambda) are checked against their tracer the same way; reference-carrying payload "
             "fields typed plain usize are derived from how the struct is constructed.")
    vfields, carry = variant_carrying_fields(facts)
    rep.floor("R03c", "VCell variants with reference-carrying fields", len(vfields), 10)
    empty = []
    for mp in (MARK, MARK_VCELL):
        fn = need(rep, "R03c", facts, mp)
        if fn is None:
            continue
        reach = marker_flows(facts, fn)
        for v, fs in sorted(vfields.items()):
            got_any = any(reach.get((v, i)) for i, _ in fs)
            for i, k in fs:
                key = "R03c|%s|%s.%d" % (MARKERS[mp], v, i)
                got = reach.get((v, i), set())
                if got:
                    rep.ok("R03c", key, "%s: VCell::%s field %d (%s) flows to %s" % (
                        MARKERS[mp], v, i, k, ", ".join(sorted(got))), [fn.span])
                    if k != "ref":
                        # the field is a payload that holds VCell values of any variant: only a total marker traces them
                        tot = got & {"mark_vcell", "mark_continuation", "mark_lambda"}
                        (rep.ok if tot else rep.fail)(
                            "R03c", key + "|adequacy",
                            "%s: the VCell values held by VCell::%s field %d reach the total marker %s" % (
                                MARKERS[mp], v, i, ", ".join(sorted(tot))) if tot else
                            "%s hands the VCell values held by VCell::%s (field %d, %s) only to the index-only marker Heap::mark "
                            "after projecting one variant: values of the other reference-carrying variants stored there (a "
                            "captured variable's LexicalEnvPtr, a closure, a continuation) are skipped and what they reference "
                            "is reclaimed while the %s is live" % (MARKERS[mp], v, i, k, v), [fn.span])
                elif not got_any:
                    empty.append((mp, v, i))
                else:
                    rep.fail("R03c", key, "%s marks some fields of VCell::%s but never field %d (%s): the object it "
                             "references is reclaimed while the cell is live" % (MARKERS[mp], v, i, k), [fn.span])
    # payload structs
    payload = {
        MARK_CONT: "marwood::vm::continuation::Continuation",
        MARK_LAMBDA: "marwood::vm::lambda::Lambda",
    }
    vm_carry = {}
    vm = facts.adts.get(VM)
    if vm:
        for f in vm["variants"][0]["fields"]:
            if f["name"] != "heap" and field_carrying(f, carry):
                vm_carry[f["name"]] = True
    for mp, adt_path in payload.items():
        fn = need(rep, "R03c", facts, mp)
        adt = facts.adts.get(adt_path)
        if fn is None or adt is None:
            if adt is None:
                rep.anchor_lost("R03c", "struct %s not found" % adt_path)
            continue
        fields = adt["variants"][0]["fields"]
        car = {}
        for f in fields:
            k = field_carrying(f, carry)
            if k:
                car[f["name"]] = k
        # derive carrying-ness of plain-typed fields from constructions out of Vm registers
        for p, g in facts.fns.items():
            if g.impl_trait in DERIVE_TRAITS:
                continue
            for bb, j, s in g.stmts():
                rv = s["rv"]
                if rv["k"] == "agg" and rv.get("adt") == adt_path:
                    for fname, op in zip(rv.get("fields", []), rv["ops"]):
                        o = g.origin(op)
                        if o[0] == "arg" and o[1] == 1 and o[2]:
                            e = o[2][0]
                            if isinstance(e, dict) and vm_carry.get(e.get("n")) and fname not in car:
                                car[fname] = "initialised from Vm.%s in %s" % (e["n"], g.short)

        def seed(f, where, p, _fields=fields):
            if p["l"] == 2 and len(p["p"]) >= 2 and p["p"][0] == "*":
                e = p["p"][1]
                if isinstance(e, dict) and "f" in e:
                    return [("F", e["n"])]
            return []

        def transfer(t, al, _adt=adt_path):
            c = facts.fn(callee(t))
            if c is not None and al and c.path.startswith(_adt + "::") and c.argc >= 1:
                base = al[0]
                if ("F", "*self") in base or any(l == ("SELF",) for l in base):
                    return {("F", sf) for sf in fields_read_of_self(c)}
            return None

        lab = Labels(fn, seed=seed, call_transfer=transfer, init={2: {("SELF",)}})
        reach = {}
        for bb, t in fn.calls():
            m = MARKERS.get(callee(t))
            if m:
                for a in lab.call_arg_labels(t, bb)[1:]:
                    for l in a:
                        if isinstance(l, tuple) and l[0] == "F":
                            reach.setdefault(l[1], set()).add(m)
        for fname, why in sorted(car.items()):
            key = "R03c|%s|%s" % (MARKERS[mp], fname)
            if reach.get(fname):
                rep.ok("R03c", key, "%s: field %s (%s) flows to %s" % (
                    MARKERS[mp], fname, why, ", ".join(sorted(reach[fname]))), [fn.span])
                fty = [f for f in fields if f["name"] == fname][0]
                holds_vcell = VCELL in fty["ty"] or VCELL in fty.get("hir", "") or fty["ty"] == "marwood::vm::stack::Stack"
                if holds_vcell:
                    tot = reach[fname] & {"mark_vcell", "mark_continuation", "mark_lambda"}
                    (rep.ok if tot else rep.fail)(
                        "R03c", key + "|adequacy",
                        "%s: field %s holds VCell values (every variant admissible) and reaches the total marker" % (MARKERS[mp], fname)
                        if tot else
                        "%s passes the VCell values of field %s only to the index-only marker Heap::mark after projecting one "
                        "variant: frame linkage (EnvironmentPointer / InstructionPointer) and inline values saved there are "
                        "skipped, and the environments and code they reference are reclaimed while the %s is live" % (
                            MARKERS[mp], fname, adt_path.rsplit("::", 1)[-1]), [fn.span])
            else:
                rep.fail("R03c", key, "%s never passes field %s (%s) to a marker: what it references is reclaimed "
                         "while the %s is live" % (MARKERS[mp], fname, why, adt_path.rsplit("::", 1)[-1]), [fn.span])
        rep.floor("R03c", "reference-carrying fields of %s" % adt_path.rsplit("::", 1)[-1], len(car), 3)
    # container payloads: the accessors used by the marker arms must read the storage field
    for acc, field in (("marwood::vm::environment::LexicalEnvironment::get", "slots"),
                       ("marwood::vm::vector::Vector::get", "vector")):
        a = need(rep, "R03c", facts, acc)
        if a is not None:
            if field in fields_read_of_self(a):
                rep.ok("R03c", "R03c|accessor|%s" % short_path(acc), "%s reads the storage field `%s`" % (
                    short_path(acc), field), [a.span])
            else:
                rep.fail("R03c", "R03c|accessor|%s" % short_path(acc), "%s, used by the markers to enumerate "
                         "elements, no longer reads `%s`" % (short_path(acc), field), [a.span])
    return empty


PERMITTED = {
    # variant -> (permitted storing sinks, reason)
    "LexicalEnv": ({HEAP + "put", HEAP + "maybe_put"}, "environment objects live only in the heap (Heap::put)"),
    "LexicalEnvPtr": ({"marwood::vm::environment::LexicalEnvironment::put"},
                      "slot indirections live only inside environment slots"),
    "InstructionPointer": ({STACK + "push"}, "return addresses live only on the stack"),
}
DISPLAY_ONLY = ("core::fmt::rt::Argument", "std::fmt::")


def forward_uses(fn, local, seen=None):
    """terminal uses of a value: list of ('call', term, argidx) | ('other', stmt/term)"""
    seen = seen or set()
    if local in seen:
        return []
    seen.add(local)
    out = []
    for bb, j, s in fn.stmts():
        rv = s["rv"]
        reads = [p for p in places_read(rv) if p["l"] == local]
        if not reads:
            continue
        if rv["k"] in ("use", "ref", "cast") or (rv["k"] == "agg" and rv.get("adt") in ("(tuple)", "[array]")):
            if not s["lhs"]["p"]:
                out += forward_uses(fn, s["lhs"]["l"], seen)
            else:
                out.append(("store", s, None))
        else:
            out.append(("other", s, None))
    for bb, t in fn.calls():
        for i, a in enumerate(t["args"]):
            p = op_place(a)
            if p is not None and p["l"] == local:
                out.append(("call", t, i))
    return out


def r03d(ctx, rep, empty):
    facts = ctx["facts"]
    rep.rule("R03d", "placement discipline: a marker arm that marks nothing for a reference-carrying variant is sound "
             "only if values of that variant never live where that marker looks; every construction site of the "
             "variant (outside derived impls) must flow only into the permitted storing sink "
             "(LexicalEnv -> Heap::put, LexicalEnvPtr -> LexicalEnvironment::put, InstructionPointer -> Stack::push) "
             "or into formatting.")
    variants = sorted({v for _, v, _ in empty})
    for mp, v, i in empty:
        if v not in PERMITTED:
            rep.fail("R03c", "R03c|%s|%s.%d" % (MARKERS[mp], v, i),
                     "%s has no marking for VCell::%s field %d and no placement rule covers that variant: the object "
                     "it references is reclaimed while the cell is live" % (MARKERS[mp], v, i))
    # the permitted place of a variant must lie outside what the marker with the empty arm looks at
    DOMAIN = {MARK: {HEAP + "put", HEAP + "maybe_put"},
              MARK_VCELL: {STACK + "push", "marwood::vm::environment::LexicalEnvironment::put", "marwood::vm::vector::Vector::put"}}
    for mp, v, i in empty:
        if v in PERMITTED and mp in DOMAIN:
            inside = PERMITTED[v][0] & DOMAIN[mp]
            key = "R03d|domain|%s|%s" % (MARKERS[mp], v)
            if inside:
                rep.fail("R03d", key, "%s marks nothing for VCell::%s, but values of that variant are stored through %s — a place "
                         "%s is responsible for (%s): what they reference is reclaimed while the holder is live" % (
                             MARKERS[mp], v, ", ".join(short_path(x) for x in sorted(inside)), MARKERS[mp], PERMITTED[v][1]), [facts.fns[mp].span])
            else:
                rep.ok("R03d", key, "%s may skip VCell::%s: such values are stored only through %s, which the other marker covers" % (
                    MARKERS[mp], v, ", ".join(short_path(x) for x in sorted(PERMITTED[v][0]))), [facts.fns[mp].span])
    for v in variants:
        if v not in PERMITTED:
            continue
        sinks, why = PERMITTED[v]
        n = 0
        for p, g in sorted(facts.fns.items()):
            if g.impl_trait in DERIVE_TRAITS and (g.impl_self or "").endswith("VCell"):
                continue
            k = 0
            for bb, j, s in g.stmts():
                rv = s["rv"]
                if rv["k"] == "agg" and rv.get("adt") == VCELL and rv.get("variant") == v:
                    k += 1
                    key = "R03d|%s|%s#%d" % (v, g.short, k)
                    if s["lhs"]["p"]:
                        rep.fail("R03d", key, "VCell::%s is constructed directly into %s in %s — not through a "
                                 "permitted sink (%s)" % (v, place_str(s["lhs"]), g.short, why), [s["loc"]])
                        n += 1
                        continue
                    uses = forward_uses(g, s["lhs"]["l"])
                    bad = []
                    storing = 0
                    for u in uses:
                        if u[0] == "call":
                            c = callee(u[1])
                            if c in sinks:
                                storing += 1
                            elif any(c.startswith(d) for d in DISPLAY_ONLY):
                                pass
                            else:
                                bad.append(short_path(c))
                        else:
                            bad.append("non-call use")
                    if bad:
                        rep.fail("R03d", key, "VCell::%s constructed in %s flows to %s; only %s is permitted (%s), "
                                 "because the marker arm for this variant is empty" % (
                                     v, g.short, ", ".join(bad), ", ".join(short_path(x) for x in sinks), why),
                                 [s["loc"]])
                    else:
                        rep.ok("R03d", key, "VCell::%s constructed in %s flows only into %s" % (
                            v, g.short, "the permitted sink" if storing else "formatting (non-storing)"), [s["loc"]])
                    if storing:
                        n += 1
        rep.floor("R03d", "storing construction sites of VCell::%s" % v, n, {"LexicalEnv": 2, "LexicalEnvPtr": 2,
                                                                           "InstructionPointer": 1}[v])
    rep.floor("R03d", "empty marker arms for carrying variants", len(empty), 0)


def r03e(ctx, rep):
    facts = ctx["facts"]
    rep.rule("R03e", "mark/sweep state machine: in Heap::mark the is_marked test dominates every recursive marker "
             "call and gc::Map::mark precedes descent (cycle safety); in Heap::sweep the free call is reached only "
             "on the State::Allocated edge and the Used edge resets the state to Allocated.")
    fn = need(rep, "R03e", facts, MARK)
    if fn is not None:
        # the visited test: is_marked, or a match on the state read with gc::Map::get (whose Allocated arm holds the marking)
        ism = [bb for bb, t in fn.calls() if callee(t) in ("marwood::vm::gc::Map::is_marked", "marwood::vm::gc::Map::get")]
        gm = [bb for bb, t in fn.calls() if callee(t) == GCMAP_MARK]
        rec = [(bb, t) for bb, t in fn.calls() if callee(t) in MARKERS]
        if not ism or not gm:
            rep.anchor_lost("R03e", "is_marked / gc::Map::mark calls in Heap::mark")
        else:
            for bb, t in rec:
                key = "R03e|mark|%s@%s" % (MARKERS[callee(t)], "bb")
                ok = any(fn.dominates(a, bb) for a in ism) and any(fn.dominates(a, bb) for a in gm)
                (rep.ok if ok else rep.fail)(
                    "R03e", "R03e|mark|descent-after-visited-test|%s" % MARKERS[callee(t)],
                    "recursive %s call in Heap::mark %s dominated by the is_marked test and the gc::Map::mark "
                    "of the current cell" % (MARKERS[callee(t)], "is" if ok else "is NOT"), [t["loc"]])
            rep.floor("R03e", "recursive marker calls in Heap::mark", len(rec), 8)
    sw = need(rep, "R03e", facts, SWEEP)
    if sw is not None:
        frees = [(bb, t) for bb, t in sw.calls() if callee(t) == FREE]
        sets = [(bb, t) for bb, t in sw.calls() if callee(t) == "marwood::vm::gc::Map::set"]
        gets = [(bb, t) for bb, t in sw.calls() if callee(t) == "marwood::vm::gc::Map::get"]
        if not frees or not gets:
            rep.anchor_lost("R03e", "free / gc::Map::get calls in Heap::sweep")
            return
        st = facts.adts.get("marwood::vm::gc::State")
        names = [v["name"] for v in st["variants"]] if st else []
        # find the switch on the State discriminant and the target per variant
        arms = {}
        for bb, b in enumerate(sw.blocks):
            t = b["term"]
            if t["k"] == "switch" and not b.get("cleanup"):
                o = sw.origin(t["op"])
                if o[0] == "rv" and o[1]["rv"]["k"] == "disc" and "gc::State" in o[1]["rv"]["place"]["ty"]:
                    for val, tgt in t["targets"]:
                        if val < len(names):
                            arms[names[val]] = (bb, tgt)
                    arms["_"] = (bb, t["otherwise"])
        if "Allocated" not in arms:
            rep.anchor_lost("R03e", "match on gc::State in Heap::sweep")
            return
        for bb, t in frees:
            ab, at = arms["Allocated"]
            ok = sw.dominates(at, bb) and len(sw.pred[at]) == 1
            (rep.ok if ok else rep.fail)(
                "R03e", "R03e|sweep|free-only-if-allocated",
                "Heap::free in sweep %s confined to the State::Allocated arm" % ("is" if ok else "is NOT"), [t["loc"]])
        if "Used" in arms:
            ub, ut = arms["Used"]
            ok = False
            for bb, t in sets:
                if sw.dominates(ut, bb) and len(t["args"]) > 2:
                    c = sw.origin(t["args"][2])
                    txt = ""
                    if c[0] == "const":
                        txt = c[1].get("text", "")
                    elif c[0] == "rv" and c[1]["rv"]["k"] == "agg":
                        txt = c[1]["rv"].get("variant", "")
                    if "Allocated" in txt:
                        ok = True
            (rep.ok if ok else rep.fail)(
                "R03e", "R03e|sweep|used-resets-to-allocated",
                "the State::Used arm of sweep %s the cell to Allocated (marks do not survive a cycle)" % (
                    "resets" if ok else "does NOT reset"), [sw.span])
        else:
            rep.anchor_lost("R03e", "State::Used arm in Heap::sweep")


def r03g(ctx, rep, rule="R03g"):
    facts = ctx["facts"]
    rep.rule(rule, "the live range of the stack includes its top: Stack::push stores at index sp+1 and then increments "
             "sp, so the most recently pushed value sits at index sp; every slice of the stack vector whose end is "
             "derived from sp (the collector's root range in iter_to_sp, the continuation snapshot in to_continuation) "
             "must therefore end at sp + c with c >= 1 (exclusive end) — a range ending at sp leaves the top slot "
             "unrooted / unsaved.")
    n = 0
    for p, f in sorted(facts.fns.items()):
        if not p.startswith(STACK) or f.impl_trait in DERIVE_TRAITS:
            continue
        for bb, t in f.calls():
            fa = t.get("fnargs") or ""
            if "as std::ops::Index<std::ops::Range" not in fa or "VCell" not in fa or len(t["args"]) < 2:
                continue
            r = f.origin(t["args"][0])
            if not (r[0] == "arg" and r[1] == 1 and r[2] and isinstance(r[2][0], dict) and r[2][0].get("n") == "stack"):
                continue
            o = f.origin(t["args"][1])
            if not (o[0] == "rv" and o[1]["rv"]["k"] == "agg" and o[1]["rv"].get("adt", "").startswith("std::ops::Range")):
                continue
            adt = o[1]["rv"]["adt"].rsplit("::", 1)[-1]
            ops = o[1]["rv"]["ops"]
            if adt not in ("Range", "RangeTo", "RangeInclusive", "RangeToInclusive") or not ops:
                continue
            end = f.origin(ops[-1])
            def from_sp(x):
                return x[0] == "arg" and x[1] == 1 and x[2] and isinstance(x[2][0], dict) and x[2][0].get("n") == "sp"
            c = None
            if from_sp(end):
                c = 0
            elif end[0] == "rv" and end[1]["rv"]["k"] == "bin" and "Add" in end[1]["rv"]["op"]:
                a = f.origin(end[1]["rv"]["a"])
                b = op_const_int(end[1]["rv"]["b"])
                if from_sp(a) and b is not None:
                    c = b
            if c is None:
                continue
            n += 1
            incl = "Inclusive" in adt
            key = "%s|%s|range-end" % (rule, f.short)
            ok = (c >= 1) or (incl and c >= 0)
            (rep.ok if ok else rep.fail)(
                rule, key, "%s slices the stack up to and including index sp" % f.short if ok else
                "%s slices the stack as [..sp%s] which excludes the top slot (index sp, written by the last push): the most "
                "recently pushed value is %s" % (f.short, "+%d" % c if c else "",
                                                 "not a root of the collection" if "iter" in p else "not saved"), [t["loc"]])
    rep.floor(rule, "sp-bounded slices of the stack vector", n, 2)
    # the premise: push stores at sp + 1
    push = facts.fn(STACK + "push")
    if push is not None:
        ok = False
        for bb, t in push.calls():
            if callee(t).endswith("get_mut") and len(t["args"]) > 1:
                o = push.origin(t["args"][1])
                if o[0] == "rv" and o[1]["rv"]["k"] == "bin" and "Add" in o[1]["rv"]["op"] and op_const_int(o[1]["rv"]["b"]) == 1:
                    ok = True
        (rep.ok if ok else rep.fail)(rule, "%s|push|stores-at-sp+1" % rule,
                                     "premise: Stack::push stores at index sp + 1" if ok else
                                     "premise changed: Stack::push no longer stores at sp + 1; the root-range rule must be re-derived",
                                     [push.span])


LEN_CHANGERS = ("::resize", "::push", "::pop", "::truncate", "::clear", "::extend", "::insert", "::remove", "::resize_with",
                "::extend_from_slice", "::append", "::drain", "::split_off")


def _returned_self_field(g):
    """name of the field of `self` a one-line accessor returns (`self.size`), else None"""
    for bb, j, st in g.stmts():
        if st["lhs"]["l"] == 0 and not st["lhs"]["p"] and st["rv"]["k"] == "use":
            pl = op_place(st["rv"]["a"])
            if pl is not None and pl["l"] == 1:
                fl = [e["n"] for e in pl["p"] if isinstance(e, dict) and "f" in e]
                if len(fl) == 1:
                    return fl[0]
    return None


def r03h(ctx, rep, rule="R03h"):
    facts = ctx["facts"]
    rep.rule(rule, "the sweep visits every cell: the index range Heap::sweep iterates ends at the length of the heap vector "
             "itself, or at an accessor's field that every length-changing method of its owner rewrites (a recorded size "
             "kept in step with the vector it describes). A range ending at a stale or unrelated bound leaves the upper "
             "cells unswept: their Used marks survive the cycle, the next cycle takes them for already visited and does "
             "not descend, and what they alone reference is freed while live.")
    sw = need(rep, rule, facts, SWEEP)
    if sw is None:
        return
    # the cursor of the sweep: the index handed to gc::Map::get (the state test of each cell)
    gets = [(bb, t) for bb, t in sw.calls() if callee(t) == "marwood::vm::gc::Map::get" and len(t["args"]) > 1]
    if not gets:
        rep.anchor_lost(rule, "gc::Map::get call in Heap::sweep")
        return
    bounds = []      # (loc, lo operand or None, hi operand)
    for bb, t in gets:
        o = sw.origin(t["args"][1])
        if o[0] == "call" and (callee(o[1]) or "").endswith("Iterator>::next") or (o[0] == "call" and "range" in (callee(o[1]) or "") and (callee(o[1]) or "").endswith("::next")):
            # for it in lo..hi : follow &mut iter -> iter -> into_iter(Range { lo, hi })
            it = sw.origin(o[1]["args"][0])
            if it[0] == "call" and (callee(it[1]) or "").endswith("::into_iter"):
                it = sw.origin(it[1]["args"][0])
            if it[0] == "rv" and it[1]["rv"]["k"] == "agg" and (it[1]["rv"].get("adt") or "").startswith("std::ops::Range") \
                    and len(it[1]["rv"]["ops"]) == 2:
                bounds.append((it[1]["loc"], it[1]["rv"]["ops"][0], it[1]["rv"]["ops"][1]))
                continue
            rep.fail(rule, "%s|sweep|cursor" % rule, "the iterator feeding the state test of Heap::sweep is not a plain index range", [t["loc"]])
            return
        if o[0] == "local":
            # a hand-written counter: every loop-controlling comparison `cursor < bound`
            L = o[1]
            found = False
            for b2, j2, st in sw.stmts():
                rv = st["rv"]
                if rv["k"] == "bin" and rv["op"] in ("Lt", "Le", "Ne"):
                    a = sw.origin(rv["a"])
                    if a[0] == "local" and a[1] == L:
                        inits = [d for d in sw.defs().get(L, []) if d[2] == "assign" and d[3]["rv"]["k"] == "use" and op_const(d[3]["rv"]["a"]) is not None]
                        lo = inits[0][3]["rv"]["a"] if inits else None
                        bounds.append((st["loc"], lo, rv["b"]))
                        found = True
            if found:
                continue
        rep.fail(rule, "%s|sweep|cursor" % rule, "the index Heap::sweep tests cell states with is neither a range variable nor a "
                 "counter compared against a bound", [t["loc"]])
        return
    for i, (loc, lo, hi) in enumerate(bounds):
        st = {"loc": loc}
        key = "%s|sweep|range#%d" % (rule, i + 1)
        c = op_const(lo) if lo is not None else None
        if c is None or c.get("int") not in (0, "0"):
            rep.fail(rule, key + "|start", "the range swept by Heap::sweep does not start at cell 0", [st["loc"]])
            continue
        o = sw.origin(hi)
        why = None
        if o[0] == "call":
            cal = callee(o[1]) or ""
            if cal.startswith("std::vec::Vec") and cal.endswith("::len"):
                a = sw.origin(o[1]["args"][0])
                fl = [e["n"] for e in (a[2] if len(a) > 2 else []) if isinstance(e, dict) and "f" in e]
                if a[0] == "arg" and a[1] == 1 and fl == ["heap"]:
                    rep.ok(rule, key, "Heap::sweep iterates 0..self.heap.len()", [st["loc"]])
                    continue
                why = "the bound is the length of %s, not of the heap vector" % (".".join(fl) or "another vector")
            elif cal in facts.fns:
                g = facts.fns[cal]
                fld = _returned_self_field(g)
                owner = cal.rsplit("::", 1)[0]
                if fld is None:
                    why = "the bound comes from %s, which is not a plain field accessor" % short_path(cal)
                else:
                    stale = []
                    for p2, h in sorted(facts.fns.items()):
                        if not p2.startswith(owner + "::") or h.impl_trait in DERIVE_TRAITS or "::tests::" in p2:
                            continue
                        changes = [t for b2, t in h.calls() if (callee(t) or "").startswith(("std::vec::Vec", "alloc::vec::Vec"))
                                   and (callee(t) or "").endswith(LEN_CHANGERS)]
                        if not changes:
                            continue
                        writes = [1 for b2, j2, s2 in h.stmts() if s2["lhs"]["l"] == 1 and
                                  [e["n"] for e in s2["lhs"]["p"] if isinstance(e, dict) and "f" in e][:1] == [fld]]
                        if not writes:
                            stale.append(short_path(p2))
                    if not stale:
                        rep.ok(rule, key, "Heap::sweep iterates up to %s, a recorded size every length-changing method of its "
                               "owner rewrites" % short_path(cal), [st["loc"]])
                        continue
                    why = "the bound is the recorded size %s.%s, which %s changes the underlying vector without rewriting" % (
                        short_path(owner), fld, ", ".join(stale))
            else:
                why = "the bound comes from %s" % short_path(cal)
        else:
            why = "the bound is not a vector length"
        rep.fail(rule, key, "Heap::sweep may leave cells unswept: %s" % why, [st["loc"]])


THINNING = {"filter": "value", "filter_map": "value", "take_while": "value", "skip_while": "value", "find": "value",
            "take": "position", "skip": "position", "step_by": "position", "nth": "position", "last": "position"}


def r03i(ctx, rep, rule="R03i"):
    facts = ctx["facts"]
    rep.rule(rule, "root enumeration is not thinned: between a root location and the marker, run_gc and the accessor "
             "methods it enumerates roots through (iter_bindings, iter_slots, iter_to_sp, ...) apply no element-dropping "
             "iterator adaptor. A position-based adaptor (take / skip / step_by) is rejected for every root; a "
             "value-based one (filter / filter_map / take_while / skip_while) is rejected where every element is a "
             "reference (index-typed roots such as the keys of globenv.bindings) — there any dropped element is a lost root.")
    gc = need(rep, rule, facts, RUN_GC)
    if gc is None:
        return
    roots, non = vm_roots(facts, rep)
    kinds = dict((lab, kind) for lab, kind, why in roots)
    vm = facts.adts.get(VM)
    struct_fields = {}
    if vm:
        for f in vm["variants"][0]["fields"]:
            if f["ty"] in facts.adts and facts.adts[f["ty"]]["kind"] == "struct":
                struct_fields[f["name"]] = f["ty"]
    # accessor methods run_gc calls on a root-bearing field, with the sub-roots they read
    scopes = [(gc, None)]
    for bb, t in gc.calls():
        c = facts.fn(callee(t))
        if c is None or not t["args"]:
            continue
        o = gc.origin(t["args"][0])
        fl = [e["n"] for e in (o[2] if len(o) > 2 else []) if isinstance(e, dict) and "f" in e]
        if o[0] == "arg" and o[1] == 1 and fl and fl[0] in struct_fields and c.path.startswith(struct_fields[fl[0]] + "::"):
            if c.locals and c.locals[0] == "()":
                continue      # returns nothing: it hands no roots to a marker (what it may do to the root set is R03n's business)
            labs = {"%s.%s" % (fl[0], sf) for sf in fields_read_of_self(c)}
            scopes.append((c, labs))
            for cl in facts.closures_of(c):
                scopes.append((cl, labs))
    n = 0
    bad = 0
    for fn, labs in scopes:
        n += 1
        for bb, t in fn.calls():
            c = callee(t) or ""
            if "::Iterator::" not in c and "::iter::" not in c:
                continue
            m = c.rsplit("::", 1)[-1]
            how = THINNING.get(m)
            if how is None:
                continue
            affected = sorted(labs) if labs is not None else ["(a root enumerated in run_gc)"]
            refs = [l for l in affected if kinds.get(l) == "ref"]
            if how == "position" or refs or labs is None:
                bad += 1
                rep.fail(rule, "%s|%s|%s" % (rule, fn.short.rsplit("::", 1)[-1] if "closure" not in fn.short else fn.short.split("::")[-2] + "::closure", m),
                         "%s applies Iterator::%s while enumerating the roots %s for run_gc: elements it drops are never "
                         "marked, and what only they reference is reclaimed while live" % (fn.short, m, ", ".join(refs or affected)),
                         [t["loc"]])
    rep.floor(rule, "root enumeration scopes (run_gc + accessor methods)", n, 4)
    if not bad:
        rep.ok(rule, "%s|enumeration" % rule, "no element-dropping adaptor on the way from a root location to its marker "
               "(%d scopes: %s)" % (n, ", ".join(sorted({f.short.rsplit("::", 1)[-1] for f, _ in scopes}))), [gc.span])


def op_const_int(op):
    c = op.get("const") if op else None
    return c.get("int") if c else None


def r03j(ctx, rep, rule="R03j"):
    """only allocated cells are ever marked"""
    facts = ctx["facts"]
    rep.rule(rule, "the marker changes the state of allocated cells only: every call of gc::Map::mark (Allocated -> Used) lies on the "
             "Allocated arm of a match on the cell's state. Not every index the markers are handed is a reference — jump "
             "targets in bytecode are encoded as VCell::Ptr and mark_lambda passes every bytecode cell on — so an index can name "
             "a free cell; marking it makes the sweep turn it Allocated while it is still on the free list, it is freed twice, "
             "and two live objects end up in one cell.")
    sites = []
    for p, f in sorted(facts.fns.items()):
        if f.crate != "marwood" or "::tests::" in p:
            continue
        for bb, t in f.calls():
            if callee(t) == "marwood::vm::gc::Map::mark":
                sites.append((f, bb, t))
    if not sites:
        rep.anchor_lost(rule, "no call of gc::Map::mark")
        return
    for i, (f, bb, t) in enumerate(sites):
        key = "%s|%s|mark#%d" % (rule, f.short.rsplit("::", 1)[-1], i + 1)
        ok = False
        for sw in disc_switches(facts, f, "marwood::vm::gc::State"):
            tg = sw["arms"].get("Allocated")
            if tg is None or tg == sw["otherwise"]:
                continue
            shared = [v for v, t2 in sw["arms"].items() if t2 == tg and v != "Allocated"]
            if not shared and (tg == bb or f.dominates(tg, bb)) and len([p_ for p_ in f.pred[tg] if p_ in f.reachable()]) == 1:
                ok = True
        (rep.ok if ok else rep.fail)(
            rule, key, "%s marks a cell only on the Allocated arm of a test of its state" % f.short if ok else
            "%s marks a cell without having established that it is Allocated (a not-yet-marked test also lets Free cells through): "
            "an index that is no reference — a jump offset in a live procedure's bytecode — then resurrects a free cell, which "
            "ends up on the free list twice and is handed to two objects" % f.short, [t["loc"]])


HEAP_INDEX_FIELDS = {
    # field of Heap that can hold cell indices -> how it is kept consistent with what is allocated
    "chunk_size": "a size, not an index",
    "free_list": "the indices of the free cells: pushed by Heap::free, popped by Heap::alloc (R03e / R12e)",
    "symbol_table": "name -> index of the interned symbol: Heap::free removes the entry of a freed symbol (R18b)",
    "global_refs": "slot numbers of the global environment (the payloads of VCell::GlobalEnvSlot operands the marker met), not "
                   "cell indices: read by GlobalEnvironment::release_unreferenced, cleared by the sweep (R03n)",
}


ARITH = re.compile(r"^(core|std)::num::<impl (usize|u64|u32)>::(saturating_|wrapping_|checked_|overflowing_)?(add|sub|mul|div|rem|min|max|pow)$|"
                   r"^(core|std)::cmp::(Ord|PartialOrd|PartialEq)::|^(core|std)::cmp::(min|max)$")


def _scalar_never_indexes(facts, name):
    """True when the values read from the scalar field Heap.<name> are only compared, combined arithmetically and stored back
    into scalar places: they are never an index projection and never the argument of a call other than integer arithmetic."""
    from ..flow import Labels, places_read

    def reads_field(p):
        return any(isinstance(e, dict) and e.get("n") == name for e in p["p"])

    seen = False
    for path, f in facts.fns.items():
        if f.crate != "marwood":
            continue
        touches = False
        for bb, j, st in f.stmts():
            if any(reads_field(p) for p in places_read(st["rv"])) or reads_field(st["lhs"]):
                touches = True
        for bb, t in f.calls():
            for a in t["args"]:
                p = op_place(a)
                if p is not None and reads_field(p):
                    touches = True
        if not touches:
            continue
        if "heap::Heap" not in path and not any("heap::Heap" in (l or "") for l in f.locals):
            continue
        if "fmt::Debug" in (f.impl_trait or "") or "fmt::Debug" in path:
            continue      # rendering the number is not a use as an index
        seen = True

        def seed(fn, where, p):
            return ["F"] if reads_field(p) else []
        lab = Labels(f, seed=seed)
        for bb, t in f.calls():
            c = callee(t) or ""
            if any("F" in a for a in lab.call_arg_labels(t, bb)) and not ARITH.search(c):
                return False
        for bb, j, st in f.stmts():
            for p in list(places_read(st["rv"])) + [st["lhs"]]:
                for e in p["p"]:
                    if isinstance(e, dict) and "idx" in e and "F" in lab.labels.get(e["idx"], ()):
                        return False
            # a borrow of the field hands it to code this scan does not follow
            if st["rv"]["k"] == "ref" and reads_field(st["rv"]["place"]) and st["rv"].get("mut"):
                return False
    return seen


def _jump_operand_flag(facts, f, cond, depth=3):
    """is `cond` a boolean that is true exactly when the previous bytecode cell was OpCode::Jmp or OpCode::Jnt?
    Every definition of the local is the constant false, a copy of such a local, or the constant true in a block reached only
    through the Jmp / Jnt values of a switch on an OpCode discriminant."""
    OPC = "marwood::vm::opcode::OpCode"
    adt = facts.adts.get(OPC)
    if adt is None:
        return False
    jv = {variant_index(adt, "Jmp"), variant_index(adt, "Jnt")}
    p = op_place(cond)
    if p is None or p["p"]:
        return False

    def ok_local(l, d):
        if d < 0:
            return False
        defs = [x for x in f.defs().get(l, []) if x[2] != "partial"]
        if not defs:
            return False
        for x in defs:
            if x[2] != "assign":
                return False
            rv = x[3]["rv"]
            if rv["k"] != "use":
                return False
            c = op_const(rv["a"])
            if c is not None and c.get("ty") == "bool":
                if c.get("int") in (0, False):
                    continue
                # constant true: only under the Jmp / Jnt targets of an OpCode switch
                bb = x[0]
                good = False
                for sw in disc_switches(facts, f, OPC):
                    tg = {t for v, t in sw["term"]["targets"] if v in jv}
                    others = {t for v, t in sw["term"]["targets"] if v not in jv} | {sw["otherwise"]}
                    if tg == {bb} and bb not in others and len([q for q in f.pred[bb] if q in f.reachable()]) == 1:
                        good = True
                if not good:
                    return False
                continue
            q = op_place(rv["a"])
            if q is None or q["p"] or not ok_local(q["l"], d - 1):
                return False
        return True
    return ok_local(p["l"], depth)


def r03k(ctx, rep, rule="R03k"):
    """references kept outside the cells: bytecode operands and Heap's own fields"""
    from ..shapes import dominating_guards
    facts = ctx["facts"]
    rep.rule(rule, "no reference escapes the collector's view: (1) Heap::mark_lambda hands every cell of a procedure's bytecode to "
             "mark_vcell — constants are operands of several instructions (MOV-immediate, PUSH-immediate, "
             "CLOSURE ...), so a marker that follows the operands of selected opcodes only frees the others while the "
             "procedure is live; the one cell it may skip is the operand of JMP / JNT (an offset encoded like a reference: "
             "marking it pins whatever garbage cell has that index, with all that hangs off it, for as long as the procedure "
             "lives), recognised by a flag that is set exactly on those two opcodes; (2) every field of Heap whose type can hold a cell index is in a reviewed table that says how "
             "it follows allocation and freeing — a cached index (say, of a shared '() cell) that is neither a root nor "
             "cleared by Heap::free dangles after the first collection that finds the cell unreachable.")
    f = need(rep, rule, facts, MARK_LAMBDA)
    if f is not None:
        loops = []
        for src, h in f.back_edges():
            loops.append((h, (f.reach_from(h) & f.reach_back(src)) | {h, src}))
        # the loop over the bytecode: its iterator is built from the `bc` field
        hit = None
        for h, body in loops:
            marks = [bb for bb, t in f.calls() if callee(t) == MARK_VCELL and bb in body]
            its = [t for bb, t in f.calls() if "into_iter" in (callee(t) or "") and any(f.dominates(bb, m) for m in marks)]
            from ..shapes import shape
            if any(".bc" in shape(f, t["args"][0], 3) for t in its if t["args"]) or True:
                for m in marks:
                    conds = [(sb, tk) for sb, c, tk, tt in dominating_guards(f, m) if sb in body]
                    extra = [x for x in conds if not (f.origin(f.blocks[x[0]]["term"]["op"])[0] == "rv" and
                                                      f.origin(f.blocks[x[0]]["term"]["op"])[1]["rv"]["k"] == "disc" and
                                                      "Option" in f.origin(f.blocks[x[0]]["term"]["op"])[1]["rv"]["place"]["ty"])]
                    # the one cell that is no reference although it is encoded like one: the operand of a jump. Skipping the
                    # cell that follows an OpCode::Jmp / Jnt cell (a flag set exactly on those two opcodes, tested false) is sound.
                    extra = [x for x in extra if not (x[1] == 0 and _jump_operand_flag(facts, f, f.blocks[x[0]]["term"]["op"]))]
                    if hit is None:
                        hit = (m, extra)
                    elif extra:
                        hit = (m, extra)
        key = rule + "|mark_lambda|every-bytecode-cell"
        if hit is None:
            rep.fail(rule, key, "Heap::mark_lambda contains no loop that hands bytecode cells to mark_vcell", [f.span])
        elif hit[1]:
            rep.fail(rule, key, "Heap::mark_lambda passes a bytecode cell to mark_vcell only under a condition on the cell or the "
                     "preceding opcode: operands of the other instructions (the constant tail a quasiquote pushes with "
                     "PUSH-immediate, for one) are referenced from nowhere else and are freed while the procedure is live",
                     [f.blocks[hit[0]]["term"]["loc"]])
        else:
            rep.ok(rule, key, "mark_lambda marks the cells of its loops unconditionally", [f.span])
    heap = facts.adts.get("marwood::vm::heap::Heap")
    if heap is None:
        rep.anchor_lost(rule, "struct Heap")
        return
    for fld in heap["variants"][0]["fields"]:
        if "usize" not in fld["ty"]:
            continue
        key = "%s|Heap.%s" % (rule, fld["name"])
        if fld["name"] in HEAP_INDEX_FIELDS:
            rep.ok(rule, key, "Heap.%s (%s): %s" % (fld["name"], fld["hir"], HEAP_INDEX_FIELDS[fld["name"]]), [heap["loc"]])
        elif fld["ty"] == "usize" and _scalar_never_indexes(facts, fld["name"]):
            rep.ok(rule, key, "Heap.%s (%s) is a plain number: no value read from it reaches an index position or a call other "
                   "than integer arithmetic, so it names no cell" % (fld["name"], fld["hir"]), [heap["loc"]])
        else:
            rep.fail(rule, key, "Heap.%s has type %s and can hold the index of a cell, but it is neither a root of run_gc nor a table "
                     "Heap::free keeps in step (no reviewed entry): once the cell it names is unreachable from the machine it is "
                     "freed and reused while this field still points at it" % (fld["name"], fld["hir"]), [heap["loc"]])



def r03n(ctx, rep, rule="R03n"):
    """a global binding is released only when nothing live can name its slot"""
    facts, cg = ctx["facts"], ctx["cg"]
    rep.rule(rule, "releasing a binding is sound only with the whole picture: compiled code names a global by the number of its slot "
             "(VCell::GlobalEnvSlot), and GlobalEnvironment::release_unreferenced hands the slot of a released binding out again. "
             "Therefore (i) the marker records the slot of every GlobalEnvSlot operand it meets (an insert into Heap.global_refs on "
             "that arm of mark_vcell); (ii) in run_gc the release comes after every other root has been marked — slots, stack, "
             "%acc, %ip, %ep — and before the symbols of the surviving bindings are marked and the heap is swept; (iii) the "
             "recorded set is cleared by the sweep only, never between marking and the release; (iv) release_unreferenced "
             "releases a binding only if its slot holds Undefined and is not in the set. A release that runs early, or on an "
             "empty set, hands the slot of a variable that live code still refers to to another name.")
    REL = "marwood::vm::environment::GlobalEnvironment::release_unreferenced"
    gc = need(rep, rule, facts, RUN_GC)
    if gc is None:
        return
    rel = [bb for bb, t in gc.calls() if callee(t) == REL]
    if REL not in facts.fns or not rel:
        # the tree does not release bindings at all: nothing to order (R12s reports the leak)
        rep.ok(rule, rule + "|none", "run_gc releases no global binding", nontrivial=False)
        return
    mv = need(rep, rule, facts, MARK_VCELL)
    # (i)
    if mv is not None:
        sws = disc_switches(facts, mv, "marwood::vm::vcell::VCell")
        ins = False
        for sw in sws:
            reg = arm_region(mv, sw, "GlobalEnvSlot")
            for bb, t in mv.calls():
                if bb in reg and (callee(t) or "").endswith("HashSet::<T, S, A>::insert") and t["args"]:
                    from .. import shapes
                    if "global_refs" in shapes.shape(mv, t["args"][0], 3):
                        ins = True
        (rep.ok if ins else rep.fail)(
            rule, rule + "|mark_vcell|records-slot", "mark_vcell records the slot of a GlobalEnvSlot operand" if ins else
            "mark_vcell does not record the slot of a GlobalEnvSlot operand in Heap.global_refs: the set handed to "
            "release_unreferenced misses slots that live code refers to, so their bindings are released and the slots reused", [mv.span])
    # (ii)
    marks = [(bb, t) for bb, t in gc.calls() if callee(t) in (MARK, MARK_VCELL)]
    closures = [c for c in facts.closures_of(gc)]
    before = [bb for bb, t in marks if any(gc.dominates(bb, r) and bb != r for r in rel)]
    after = [bb for bb, t in marks if any(gc.dominates(r, bb) and bb != r for r in rel)]
    sweeps = [bb for bb, t in gc.calls() if callee(t) == SWEEP]
    # root enumerations done through for_each closures: the for_each call stands for the marks inside the closure
    fe = [(bb, t) for bb, t in gc.calls() if (callee(t) or "").endswith("::for_each")]
    fe_before = [bb for bb, t in fe if any(gc.dominates(bb, r) and bb != r for r in rel)]
    fe_after = [bb for bb, t in fe if any(gc.dominates(r, bb) and bb != r for r in rel)]
    nroots_before = len(before) + len(fe_before)
    ok = nroots_before >= 5 and len(fe_after) + len(after) >= 1 and all(any(gc.dominates(r, sb) for r in rel) for sb in sweeps) and bool(sweeps)
    (rep.ok if ok else rep.fail)(
        rule, rule + "|run_gc|release-after-roots", "run_gc releases bindings after %d root markings and before the binding symbols are "
        "marked and the heap is swept" % nroots_before if ok else
        "run_gc calls release_unreferenced with only %d root marking(s) before it (five are needed: slots, stack, %%acc, %%ip, %%ep), or "
        "not before the binding symbols are marked and the heap swept: slots named by code reachable from a root marked later are "
        "missing from the set" % nroots_before, [gc.blocks[rel[0]]["term"]["loc"]])
    # (iii)
    clearers = set()
    for p, f in facts.fns.items():
        if f.crate != "marwood":
            continue
        for bb, t in f.calls():
            c = callee(t) or ""
            if c.endswith(("HashSet::<T, S, A>::clear", "HashSet::<T, S, A>::drain", "HashSet::<T, S, A>::retain", "HashSet::<T, S, A>::remove")) and t["args"]:
                from .. import shapes
                if "global_refs" in shapes.shape(f, t["args"][0], 3):
                    clearers.add(p)
    def early_only(c):
        """emptied at the start of a collection, before any root is marked: as good as emptied by the previous sweep"""
        first = [bb for bb, t in marks] + [bb for bb, t in fe]
        if c == RUN_GC:
            sites = [bb for bb, t in gc.calls() if (callee(t) or "").endswith(("::clear",)) and "global_refs" in __import__("mwcheck.shapes", fromlist=["shape"]).shape(gc, t["args"][0], 3)]
        else:
            if cg.callers(c) - {RUN_GC}:
                return False
            sites = [bb for bb, t in gc.calls() if callee(t) == c]
        return bool(sites) and all(all(gc.dominates(sb, m) and sb != m for m in first) for sb in sites)
    bad = sorted(c for c in clearers if c != SWEEP and not early_only(c))
    emptied = SWEEP in clearers or any(early_only(c) for c in clearers)
    (rep.ok if not bad and emptied else rep.fail)(
        rule, rule + "|global_refs|cleared-by-sweep-only", "Heap.global_refs is emptied by the sweep (or at the very start of a collection) and nowhere in between" if not bad and emptied else
        "Heap.global_refs is emptied by %s: emptied before the release every unbound binding looks unreferenced; never emptied, no "
        "binding is ever released" % (", ".join(short_path(c) for c in bad) or "nothing"), [gc.span])
    # (iv)
    rf = facts.fns[REL]
    cond_fns = [rf] + list(facts.closures_of(rf))
    has_contains = any((callee(t) or "").endswith("HashSet::<T, S, A>::contains") for g in cond_fns for bb, t in g.calls())
    has_undef = False
    for g in cond_fns:
        for sw in disc_switches(facts, g, "marwood::vm::vcell::VCell"):
            if "Undefined" in sw["arms"]:
                has_undef = True
    okc = has_contains and has_undef
    (rep.ok if okc else rep.fail)(
        rule, rule + "|release_unreferenced|unbound-and-unreferenced", "a binding is released only if its slot is Undefined and absent from the set" if okc else
        "release_unreferenced does not test both that the slot is Undefined and that the set lacks it (Undefined test: %s, contains: %s): "
        "a defined global, or one live code refers to, loses its binding" % (has_undef, has_contains), [rf.span])


def r03p(ctx, rep, rule="R03p"):
    """a jump offset is not a root"""
    from ..shapes import dominating_guards
    facts = ctx["facts"]
    rep.rule(rule, "nothing that is not a reference keeps a cell alive: JMP and JNT carry their offset as a VCell::Ptr, and a marker that "
             "hands it on like a reference keeps the cell whose index equals the offset — any garbage cell, with everything that "
             "hangs off it — allocated for as long as the procedure lives, so that unreachable objects survive every collection. "
             "In Heap::mark_lambda the call that marks a bytecode cell is guarded by the false edge of a flag that is set exactly "
             "when the previous cell was OpCode::Jmp or OpCode::Jnt.")
    f = need(rep, rule, facts, MARK_LAMBDA)
    if f is None:
        return
    body = set()
    for src, h in f.back_edges():
        body |= (f.reach_from(h) & f.reach_back(src)) | {h, src}
    marks = [bb for bb, t in f.calls() if callee(t) == MARK_VCELL and bb in body]
    if not marks:
        rep.anchor_lost(rule, "mark_vcell call in a loop of mark_lambda")
        return
    # the bytecode loop is the first one (bc, then args, then the environment map)
    first = min(marks)
    ok = any(tk == 0 and _jump_operand_flag(facts, f, c) for sb, c, tk, tt in dominating_guards(f, first))
    key = rule + "|mark_lambda|jump-operand-skipped"
    (rep.ok if ok else rep.fail)(
        rule, key, "mark_lambda leaves the operand of JMP / JNT alone" if ok else
        "mark_lambda hands the operand of JMP / JNT to mark_vcell like every other bytecode cell: the cell whose index equals the "
        "offset, and the dead structure behind it, stay allocated after every collection while the procedure is live",
        [f.blocks[first]["term"]["loc"]])

def run(ctx, rep):
    r03a(ctx, rep)
    r03b(ctx, rep)
    empty = r03c(ctx, rep) or []
    r03d(ctx, rep, empty)
    r03e(ctx, rep)
    r03g(ctx, rep)
    r03h(ctx, rep)
    r03i(ctx, rep)
    r03j(ctx, rep)
    r03k(ctx, rep)
    r03n(ctx, rep)
    r03p(ctx, rep)
    from . import runloop
    runloop.r07i(ctx, rep, rule="R03m")
    from . import C18
    C18.r18a(ctx, rep, rule="R03f")
    C18.r18b(ctx, rep, rule="R03f")
    rep.not_decided += ["that marking terminates", "that the sweeper restores every free-list invariant",
                        "value-level equality of runs with and without collection"]
