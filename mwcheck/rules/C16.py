"""C16 — number->string and string->number are mutually inverse (R16a-c)."""
from . import numeric, tables


def run(ctx, rep):
    numeric.r16a(ctx, rep)
    numeric.r16b(ctx, rep)
    numeric.r16c(ctx, rep)
    numeric.r16e(ctx, rep)
    numeric.r16f(ctx, rep)
    numeric.r16g(ctx, rep)
    numeric.r16h(ctx, rep)
    tables.r11c(ctx, rep, rule="R16d")
    rep.obs = [o for o in rep.obs if not (o.rule == "R16d" and "scan_simple_token" in o.key)]
    rep.not_decided += ["float formatting/parsing (std and num behaviour)", "rational reduction",
                        "exactness of the value read back", "inverse-ness for concrete numbers"]
