"""C16 — number->string and string->number are mutually inverse (R16a-c)."""
from . import numeric, tables


def run(ctx, rep):
    numeric.r16a(ctx, rep)
    numeric.r16b(ctx, rep)
    numeric.r16c(ctx, rep)
    numeric.r16e(ctx, rep)
    numeric.r16f(ctx, rep)
    numeric.r16g(ctx, rep)
    numeric.r16h(ctx, rep)
    numeric.r16k(ctx, rep)
    numeric.r16m(ctx, rep)
    numeric.r16q(ctx, rep)
    numeric.r16r(ctx, rep)
    from . import C10, C11
    sub = type(rep)(rep.prop)
    C10.r10e(ctx, sub)
    rep.rule("R16i", "the printed form is a numeric literal for the scanner: C10's R10e (exponent notation only where the "
             "scanner's number class can read it back — no sign after the first character, so {:e} only for values >= 1) "
             "re-checked here, since a spelling with a negative exponent is a symbol in program text while string->number "
             "still reads it.")
    for o in sub.obs:
        o.rule = "R16i"
        o.key = o.key.replace("R10e", "R16i", 1)
        rep.obs.append(o)
    C11.r11k(ctx, rep, rule="R16j")
    rep.rules["R16j"] = "a prefixed literal reaches Number's parser whatever its digits look like: " + rep.rules["R16j"]
    tables.r11c(ctx, rep, rule="R16d")
    rep.obs = [o for o in rep.obs if not (o.rule == "R16d" and "scan_simple_token" in o.key)]
    rep.not_decided += ["float formatting/parsing (std and num behaviour)", "rational reduction",
                        "exactness of the value read back", "inverse-ness for concrete numbers"]
