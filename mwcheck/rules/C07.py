"""C07 — a failed evaluation leaves no trace beyond its completed effects (R07a-c)."""
from . import runloop


def run(ctx, rep):
    runloop.r07a(ctx, rep)
    runloop.r07b(ctx, rep)
    runloop.r07e(ctx, rep)
    runloop.r07f(ctx, rep)
    runloop.r_stack_monotone(ctx, rep, "R07d")
    from . import popbalance
    popbalance.r01b(ctx, rep, rule="R07c")
    rep.not_decided += ["that the global definitions completed before a failure are the right ones",
                        "memory retained through the environment/accumulator registers of a failed evaluation (bounded: one frame)"]
