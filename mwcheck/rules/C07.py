"""C07 — a failed evaluation leaves no trace beyond its completed effects (R07a-c)."""
from . import runloop


def run(ctx, rep):
    runloop.r07a(ctx, rep)
    runloop.r07h(ctx, rep)
    runloop.r07i(ctx, rep)
    runloop.r07j(ctx, rep)
    runloop.r12s(ctx, rep, rule="R07k")
    runloop.r07b(ctx, rep)
    runloop.r07e(ctx, rep)
    runloop.r07f(ctx, rep)
    from .common import borrow
    borrow(ctx, rep, "R07g", "the error arm resets the machine to its initial registers, not to values remembered from the entry of "
           "run_count: nothing but the arguments and the cycle counter is live across the interpreter loop (C13's R13c). A failure in "
           "a later slice of a sliced evaluation would otherwise keep the frames of the earlier slices.",
           [runloop.r13c], ["R13c"])
    runloop.r_stack_monotone(ctx, rep, "R07d")
    from . import popbalance
    popbalance.r01b(ctx, rep, rule="R07c")
    rep.not_decided += ["that the global definitions completed before a failure are the right ones",
                        "memory retained through the environment/accumulator registers of a failed evaluation (bounded: one frame)"]
