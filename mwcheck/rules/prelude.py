def r04d(ctx, rep):
    pass
