"""R04d (and helpers for C01): static analysis of marwood/prelude.scm.

The prelude is source text of the repository.  This module reads it with a small S-expression reader,
extracts the `syntax-rules` transformers it defines, and expands *schematic instances* of each derived
form (with opaque marker atoms in the positions R7RS 3.5 designates as tail / non-tail) down to the core
forms the compiler handles (if, lambda application, set!, define, quote).  Tail positions of the core form
are then computed syntactically.  Nothing of marwood is executed; the trusted part is this module's
syntax-rules matcher/instantiator (first matching rule, literals by name, `...` after a sub-pattern,
`_` wildcard; non-hygienic, as the statement of C17 excludes renaming).
"""
import os
import re

ELL = "..."


class Sym(str):
    pass


def read_all(text):
    toks = re.findall(r"""\s+|;[^\n]*|(\#\\(?:[A-Za-z]+|.)|"(?:\\.|[^"\\])*"|[()\[\]{}]|'|`|,@|,|[^\s()\[\]{}'`,";]+)""", text)
    toks = [t for t in toks if t]
    pos = [0]

    def rd():
        t = toks[pos[0]]
        pos[0] += 1
        if t in "([{":
            out = []
            while toks[pos[0]] not in ")]}":
                out.append(rd())
            pos[0] += 1
            # dotted pair support: (a . b) -> ('a', Sym('.'), 'b') kept literally
            return out
        if t == "'":
            return [Sym("quote"), rd()]
        if t == "`":
            return [Sym("quasiquote"), rd()]
        if t == ",":
            return [Sym("unquote"), rd()]
        if t.startswith('"'):
            return ("str", t)
        if re.fullmatch(r"[-+]?\d+(\.\d+)?", t):
            return ("num", t)
        if t in ("#t", "#f") or t.startswith("#\\"):
            return ("lit", t)
        return Sym(t)
    out = []
    while pos[0] < len(toks):
        out.append(rd())
    return out


def load_macros(root):
    path = os.path.join(root, "marwood", "prelude.scm")
    with open(path) as f:
        forms = read_all(f.read())
    macros = {}
    order = []
    for fm in forms:
        if isinstance(fm, list) and len(fm) == 3 and fm[0] == "define-syntax" and isinstance(fm[2], list) \
                and fm[2] and fm[2][0] == "syntax-rules":
            name = fm[1]
            lits = [x for x in fm[2][1] if isinstance(x, Sym)]
            rules = [(r[0], r[1]) for r in fm[2][2:] if isinstance(r, list) and len(r) == 2]
            macros[name] = (lits, rules)     # a later definition replaces an earlier one, as at run time
            order.append(name)
    return macros, forms, path


# ------------------------------------------------------------------ syntax-rules (schematic)

def match(pat, form, lits, b):
    if isinstance(pat, Sym):
        if pat == "_":
            return True
        if pat in lits:
            return isinstance(form, Sym) and form == pat
        b[pat] = form
        return True
    if isinstance(pat, list):
        if not isinstance(form, list):
            return False
        # find ellipsis
        if ELL in pat:
            i = pat.index(ELL)
            before, rep, after = pat[:i - 1], pat[i - 1], pat[i + 1:]
            if len(form) < len(before) + len(after):
                return False
            for p_, f_ in zip(before, form[:len(before)]):
                if not match(p_, f_, lits, b):
                    return False
            mid = form[len(before):len(form) - len(after)]
            seqs = []
            for f_ in mid:
                bb = {}
                if not match(rep, f_, lits, bb):
                    return False
                seqs.append(bb)
            for v in pat_vars(rep, lits):
                b[v] = ("seq", [s_.get(v) for s_ in seqs])
            for p_, f_ in zip(after, form[len(form) - len(after):] if after else []):
                if not match(p_, f_, lits, b):
                    return False
            return True
        if len(pat) != len(form):
            return False
        return all(match(p_, f_, lits, b) for p_, f_ in zip(pat, form))
    return pat == form


def pat_vars(pat, lits):
    if isinstance(pat, Sym):
        return [] if (pat in lits or pat in (ELL, "_")) else [pat]
    if isinstance(pat, list):
        out = []
        for p_ in pat:
            out += pat_vars(p_, lits)
        return out
    return []


def instantiate(tmpl, b):
    if isinstance(tmpl, Sym):
        if tmpl in b:
            return b[tmpl]
        return tmpl
    if isinstance(tmpl, list):
        out = []
        i = 0
        while i < len(tmpl):
            t = tmpl[i]
            if i + 1 < len(tmpl) and tmpl[i + 1] == ELL:
                vs = [v for v in tvars(t) if v in b and isinstance(b[v], tuple) and b[v][0] == "seq"]
                n = min((len(b[v][1]) for v in vs), default=0)
                for k in range(n):
                    bb = dict(b)
                    for v in vs:
                        bb[v] = b[v][1][k]
                    out.append(instantiate(t, bb))
                i += 2
                continue
            out.append(instantiate(t, b))
            i += 1
        return out
    return tmpl


def tvars(t):
    if isinstance(t, Sym):
        return [t]
    if isinstance(t, list):
        out = []
        for x in t:
            out += tvars(x)
        return out
    return []


def expand(form, macros, depth=0, trace=None):
    """fully expand macro uses (outermost first), not descending into quote"""
    if depth > 200:
        raise RecursionError("macro expansion does not terminate on a schematic instance")
    if not isinstance(form, list) or not form:
        return form
    head = form[0]
    if isinstance(head, Sym):
        if head == "quote":
            return form
        if head in macros:
            lits, rules = macros[head]
            for idx, (pat, tmpl) in enumerate(rules):
                b = {}
                # the keyword position of the pattern is ignored, as in R7RS
                if isinstance(pat, list) and match(pat[1:], form[1:], lits, b):
                    if trace is not None:
                        trace.append((str(head), idx))
                    return expand(instantiate(tmpl, b), macros, depth + 1, trace)
            return ("no-rule", form)
    return [expand(x, macros, depth + 1, trace) for x in form]


def tail_markers(core, tail=True, out=None):
    """collect (marker, in_tail_position) for every marker atom/call in a core form"""
    out = out if out is not None else []
    if isinstance(core, Sym):
        if core.startswith("%"):
            out.append((str(core), tail))
        return out
    if isinstance(core, tuple) or not isinstance(core, list) or not core:
        return out
    head = core[0]
    if isinstance(head, Sym) and head.startswith("%") and len(core) == 1:
        out.append((str(head), tail))      # (%marker) — a call
        return out
    if head == "quote":
        return out
    if head == "if":
        if len(core) > 1:
            tail_markers(core[1], False, out)
        for br in core[2:4]:
            tail_markers(br, tail, out)
        return out
    if head in ("lambda", "λ"):
        body = core[2:]
        for i, e in enumerate(body):
            tail_markers(e, i == len(body) - 1, out)
        return out
    if head in ("set!", "define"):
        for e in core[2:]:
            tail_markers(e, False, out)
        return out
    # application: ((lambda formals body...) args...) keeps the context for the body's last expression
    if isinstance(head, list) and head and head[0] in ("lambda", "λ"):
        body = head[2:]
        for i, e in enumerate(body):
            tail_markers(e, tail and i == len(body) - 1, out)
        for a in core[1:]:
            tail_markers(a, False, out)
        return out
    for e in core:
        tail_markers(e, False, out)
    return out


def evaluated_syms(core, out=None):
    """every symbol of a core form that is evaluated as a variable reference (operator or operand)"""
    out = out if out is not None else []
    if isinstance(core, Sym):
        out.append(str(core))
        return out
    if isinstance(core, tuple) or not isinstance(core, list) or not core:
        return out
    head = core[0]
    if head == "quote":
        return out
    if head in ("lambda", "λ"):
        for e in core[2:]:
            evaluated_syms(e, out)
        return out
    if head in ("set!", "define"):
        for e in core[2:]:
            evaluated_syms(e, out)
        return out
    for e in (core[1:] if head == "if" else core):
        evaluated_syms(e, out)
    return out


def S(x):
    return read_all(x)[0]


# Schematic instances: %T* must end up in tail position, %N* must not (R7RS 3.5).
INSTANCES = [
    ("let", "(let ((x %N1)) %N2 (%T1))"),
    ("let (empty bindings)", "(let () (%T1))"),
    ("named let", "(let loop ((i %N1)) %N2 (%T1))"),
    ("let*", "(let* ((x %N1) (y %N2)) %N3 (%T1))"),
    ("let* (empty)", "(let* () %N1 (%T1))"),
    ("letrec", "(letrec ((f %N1)) %N2 (%T1))"),
    ("letrec*", "(letrec* ((f %N1)) %N2 (%T1))"),
    ("begin", "(begin %N1 (%T1))"),
    ("when", "(when %N1 %N2 (%T1))"),
    ("unless", "(unless %N1 %N2 (%T1))"),
    ("and (2)", "(and %N1 (%T1))"),
    ("and (3)", "(and %N1 %N2 (%T1))"),
    ("and (1)", "(and (%T1))"),
    ("or (2)", "(or %N1 (%T1))"),
    ("or (3)", "(or %N1 %N2 (%T1))"),
    ("or (1)", "(or (%T1))"),
    ("cond", "(cond (%N1 %N2 (%T1)) (%N3 (%T2)) (else %N4 (%T3)))"),
    ("cond without else", "(cond (%N1 (%T1)) (%N2 %N3 (%T2)))"),
    ("cond =>", "(cond (%N1 => %N2) (else (%T1)))"),
    ("case", "(case k ((a b) %N2 (%T1)) ((c) (%T2)) (else %N3 (%T3)))"),
    ("case without else", "(case k ((a) (%T1)) ((b) %N2 (%T2)))"),
    ("case on a compound key", "(case (%N1 x) ((a) (%T1)) (else (%T2)))"),
    ("case on a compound key, several clauses", "(case (%N1 x) ((a) (%T1)) ((b) %N2 (%T2)) ((c) => %N3) (else => %N4))"),
    ("case ending in a => clause", "(case k ((a) (%T1)) ((c) => %N3))"),
    ("case of one => clause", "(case (%N1 x) ((c) => %N3))"),
    ("cond ending in a => clause", "(cond (%N1 (%T1)) (%N2 => %N3))"),
    ("nested: cond in let in when", "(when %N1 (let ((x %N2)) (cond (%N3 (%T1)) (else (or %N4 (%T2))))))"),
]


def r04d(ctx, rep, rule="R04d"):
    rep.rule(rule, "derived forms keep tail positions: each derived form of the prelude (let, let*, letrec, letrec*, "
             "named let, begin, when, unless, and, or, cond, case) is expanded on schematic instances with the prelude's "
             "own syntax-rules text down to core forms; every expression R7RS 3.5 designates as a tail expression of the "
             "form must be in tail position of the core expansion (last body expression of a lambda applied in tail "
             "position, or a branch of an `if` in tail position), and tests / initialisers / non-last expressions must "
             "not be. The prelude text is analysed, not executed.")
    try:
        macros, forms, path = load_macros(ctx["root"])
    except (OSError, IndexError) as e:
        rep.anchor_lost(rule, "marwood/prelude.scm unreadable: %s" % e)
        return
    rep.floor(rule, "syntax-rules transformers in the prelude", len(macros), 12)
    for name, text in INSTANCES:
        key = "%s|%s" % (rule, name)
        form = S(text)
        trace = []
        try:
            core = expand(form, macros, trace=trace)
        except RecursionError as e:
            rep.fail(rule, key, "%s: %s" % (text, e), [path])
            continue
        flat = repr(core)
        if "no-rule" in flat:
            rep.fail(rule, key, "no prelude rule matches (a sub-form of) %s — the derived form is not defined for this "
                     "shape" % text, [path])
            continue
        marks = tail_markers(core)
        seen = {m for m, _ in marks}
        want = set(re.findall(r"%[TN]\d", text))
        lost = sorted(want - seen)
        bad_t = sorted({m for m, t in marks if m.startswith("%T") and not t})
        bad_n = sorted({m for m, t in marks if m.startswith("%N") and t})
        if bad_t:
            rep.fail(rule, key, "in %s the expression %s must be a tail expression (R7RS 3.5) but the prelude expands it "
                     "into a non-tail position (rules used: %s): a loop through it grows the stack" % (
                         text, ", ".join(bad_t), " > ".join("%s#%d" % t for t in trace)), [path],
                     detail={"expansion": flat[:600]})
        elif bad_n and rule == "R04d":
            # reported by the C01 twin (R01f), not here
            rep.ok(rule, key, "%s: all designated tail expressions are in tail position" % name, [path])
        elif lost:
            rep.fail(rule, key, "in %s the expansion drops %s altogether" % (text, ", ".join(lost)), [path],
                     detail={"expansion": flat[:600]})
        else:
            rep.ok(rule, key, "%s: designated tail expressions are in tail position of the core expansion (%d rule "
                   "applications)" % (name, len(trace)), [path])


def r01f(ctx, rep, rule="R01f"):
    rep.rule(rule, "derived forms do not move operands into tail position and keep every sub-expression: same "
             "schematic expansion as R04d read in the other direction — tests, initialisers and non-last body "
             "expressions must not end up in tail position (their continuation would be abandoned), no sub-expression "
             "is dropped or duplicated, and evaluation order markers appear in source order.")
    try:
        macros, forms, path = load_macros(ctx["root"])
    except (OSError, IndexError) as e:
        rep.anchor_lost(rule, "marwood/prelude.scm unreadable: %s" % e)
        return
    for name, text in INSTANCES:
        key = "%s|%s" % (rule, name)
        form = S(text)
        try:
            core = expand(form, macros)
        except RecursionError as e:
            rep.fail(rule, key, "%s: %s" % (text, e), [path])
            continue
        if "no-rule" in repr(core):
            rep.fail(rule, key, "no prelude rule matches (a sub-form of) %s" % text, [path])
            continue
        marks = tail_markers(core)
        want = re.findall(r"%[TN]\d", text)
        seen = [m for m, _ in marks]
        bad_n = sorted({m for m, t in marks if m.startswith("%N") and t})
        lost = sorted(set(want) - set(seen))
        # `or`/cond-without-body legitimately mention a test twice only through a temporary, never the marker itself
        dup = sorted({m for m in seen if seen.count(m) > 1})
        kw = sorted({a for a in evaluated_syms(core) if a in ("=>", "else")})
        if kw:
            rep.fail(rule, key, "in %s the expansion evaluates the syntactic keyword %s as a variable: a rule whose "
                     "pattern variable swallows the keyword matches before the rule that names it" % (
                         text, ", ".join(kw)), [path], detail={"expansion": repr(core)[:600]})
        elif bad_n:
            rep.fail(rule, key, "in %s the non-tail expression %s ends up in tail position of the expansion: it is "
                     "compiled as a tail call and its continuation (the rest of the form) is abandoned" % (
                         text, ", ".join(bad_n)), [path], detail={"expansion": repr(core)[:600]})
        elif lost:
            rep.fail(rule, key, "in %s the expansion drops %s: the sub-expression is never evaluated" % (
                text, ", ".join(lost)), [path], detail={"expansion": repr(core)[:600]})
        elif dup:
            rep.fail(rule, key, "in %s the expansion duplicates %s: the sub-expression is evaluated more than once" % (
                text, ", ".join(dup)), [path], detail={"expansion": repr(core)[:600]})
        else:
            rep.ok(rule, key, "%s: every sub-expression is kept exactly once and no operand is in tail position" % name, [path])


def scopes(core, env=frozenset(), out=None):
    """marker -> set of variables bound by enclosing lambdas at the marker's position (core forms only)"""
    out = out if out is not None else {}
    if isinstance(core, Sym):
        if core.startswith("%"):
            out.setdefault(str(core), set()).update(env)
        return out
    if isinstance(core, tuple) or not isinstance(core, list) or not core:
        return out
    head = core[0]
    if head == "quote":
        return out
    if isinstance(head, Sym) and head in ("lambda", "λ") and len(core) >= 2:
        formals = core[1]
        names = set()
        if isinstance(formals, list):
            names = {str(x) for x in formals if isinstance(x, Sym) and x != "."}
        elif isinstance(formals, Sym):
            names = {str(formals)}
        inner = frozenset(env | names)
        for e in core[2:]:
            scopes(e, inner, out)
        return out
    for e in core:
        scopes(e, env, out)
    return out


# (instance, {marker: (must be in scope, must NOT be in scope)})  — R7RS 4.2.2 / 4.2.4
SCOPE_INSTANCES = [
    ("let", "(let ((x %I1) (y %I2)) %B1)", {"%I1": ((), ("x", "y")), "%I2": ((), ("x", "y")), "%B1": (("x", "y"), ())}),
    ("let*", "(let* ((x %I1) (y %I2)) %B1)", {"%I1": ((), ("x", "y")), "%I2": (("x",), ("y",)), "%B1": (("x", "y"), ())}),
    ("letrec", "(letrec ((f %I1) (g %I2)) %B1)", {"%I1": (("f", "g"), ()), "%I2": (("f", "g"), ()), "%B1": (("f", "g"), ())}),
    ("letrec*", "(letrec* ((f %I1) (g %I2)) %B1)", {"%I1": (("f", "g"), ()), "%I2": (("f", "g"), ()), "%B1": (("f", "g"), ())}),
    ("named let", "(let loop ((i %I1) (j %I2)) %B1)", {"%I1": ((), ("loop", "i", "j")), "%I2": ((), ("loop", "i", "j")),
                                                        "%B1": (("loop", "i", "j"), ())}),
]


def r01g(ctx, rep, rule="R01g"):
    rep.rule(rule, "binding constructs of the prelude scope their sub-expressions as R7RS 4.2.2 / 4.2.4 prescribe: in the "
             "core expansion of a schematic instance, each initialiser and the body see exactly the variables they should — "
             "let initialisers see none of the new variables, let* initialisers the earlier ones, letrec initialisers all, "
             "and the initialisers of a named let see neither the loop tag nor the loop variables.")
    try:
        macros, forms, path = load_macros(ctx["root"])
    except (OSError, IndexError) as e:
        rep.anchor_lost(rule, "marwood/prelude.scm unreadable: %s" % e)
        return
    for name, text, want in SCOPE_INSTANCES:
        core = expand(S(text), macros)
        if "no-rule" in repr(core):
            rep.fail(rule, "%s|%s" % (rule, name), "no prelude rule matches (a sub-form of) %s" % text, [path])
            continue
        sc = scopes(core)
        bad = []
        for m, (must, mustnot) in want.items():
            got = sc.get(m)
            if got is None:
                bad.append("%s is dropped" % m)
                continue
            miss = [v for v in must if v not in got]
            leak = [v for v in mustnot if v in got]
            if miss:
                bad.append("%s does not see %s" % (m, ", ".join(miss)))
            if leak:
                bad.append("%s is inside the scope of %s" % (m, ", ".join(leak)))
        key = "%s|%s" % (rule, name)
        if bad:
            rep.fail(rule, key, "in %s: %s — a name in an initialiser (or the body) denotes a different binding than R7RS "
                     "prescribes when it coincides with a variable of the form" % (text, "; ".join(bad)), [path],
                     detail={"expansion": repr(core)[:600]})
        else:
            rep.ok(rule, key, "%s: initialisers and body see exactly the prescribed variables" % name, [path])


# instances for the capture rule: (name, form, variables the *user* declared in the form)
CAPTURE_INSTANCES = [
    ("or", "(or %U1 %U2 %U3)", ()),
    ("and", "(and %U1 %U2 %U3)", ()),
    ("when", "(when %U1 %U2 %U3)", ()),
    ("unless", "(unless %U1 %U2 %U3)", ()),
    ("begin", "(begin %U1 %U2)", ()),
    ("cond (test) clause", "(cond (%U1) (%U2 %U3) (else %U4))", ()),
    ("cond => clause", "(cond (%U1 => %U2) (%U3 %U4) (else %U5))", ()),
    ("cond plain", "(cond (%U1 %U2) (else %U3))", ()),
    ("case atom key", "(case k ((a) %U1) (else %U2))", ()),
    ("case compound key", "(case (%U1 x) ((a) %U2) ((b) => %U3) (else %U4))", ()),
    ("let", "(let ((x %U1)) %U2)", ("x",)),
    ("let*", "(let* ((x %U1) (y %U2)) %U3)", ("x", "y")),
    ("letrec", "(letrec ((f %U1)) %U2)", ("f",)),
    ("named let", "(let loop ((i %U1)) %U2)", ("loop", "i")),
]


def r01h(ctx, rep, rule="R01h"):
    rep.rule(rule, "derived forms introduce no binder around user code: in the core expansion of a schematic instance, every "
             "user sub-expression (marker) is in the scope of the variables the user declared in that form and of nothing "
             "else. A temporary introduced by a template (e.g. the `var1` of `or`) that encloses a user expression captures "
             "a user variable of the same name — syntax-rules here is not hygienic, so only templates that bind no "
             "temporary around user code are safe.")
    try:
        macros, forms, path = load_macros(ctx["root"])
    except (OSError, IndexError) as e:
        rep.anchor_lost(rule, "marwood/prelude.scm unreadable: %s" % e)
        return
    for name, text, declared in CAPTURE_INSTANCES:
        core = expand(S(text), macros)
        if "no-rule" in repr(core):
            rep.fail(rule, "%s|%s" % (rule, name), "no prelude rule matches (a sub-form of) %s" % text, [path])
            continue
        sc = scopes(core)
        intruders = {}
        for m, vs in sc.items():
            if not m.startswith("%U"):
                continue
            extra = sorted(v for v in vs if v not in declared)
            for v in extra:
                intruders.setdefault(v, []).append(m)
        key = "%s|%s" % (rule, name)
        if intruders:
            rep.fail(rule, key, "in %s the expansion evaluates user expression(s) %s inside the scope of the introduced "
                     "temporar%s %s: a user variable with that name is captured" % (
                         text, ", ".join(sorted({m for ms in intruders.values() for m in ms})),
                         "y" if len(intruders) == 1 else "ies", ", ".join(sorted(intruders))), [path],
                     detail={"expansion": repr(core)[:500]})
        else:
            rep.ok(rule, key, "%s: user expressions see only the variables the user declared" % name, [path])


def free_vars(core, env=frozenset(), out=None):
    """symbols referenced (or assigned) free in a core form"""
    out = out if out is not None else set()
    if isinstance(core, Sym):
        if str(core) not in env and not core.startswith("%"):
            out.add(str(core))
        return out
    if isinstance(core, tuple) or not isinstance(core, list) or not core:
        return out
    head = core[0]
    if head == "quote":
        return out
    if head == "quasiquote" and len(core) == 2:
        # a template is data: only what it unquotes at its own level is code
        def template(t, depth):
            if isinstance(t, list) and t:
                if t[0] == "unquote" and len(t) == 2:
                    if depth == 0:
                        free_vars(t[1], env, out)
                    else:
                        template(t[1], depth - 1)
                    return
                if t[0] == "quasiquote" and len(t) == 2:
                    template(t[1], depth + 1)
                    return
                # (a . ,b) is read as (a . unquote b): a tail `unquote x`
                if len(t) >= 3 and t[-3] == "." and t[-2] == "unquote":
                    for y in t[:-3]:
                        template(y, depth)
                    if depth == 0:
                        free_vars(t[-1], env, out)
                    else:
                        template(t[-1], depth - 1)
                    return
                for y in t:
                    template(y, depth)
        template(core[1], 0)
        return out
    if isinstance(head, Sym) and head in ("lambda", "λ") and len(core) >= 2:
        formals = core[1]
        names = set()
        if isinstance(formals, list):
            names = {str(x) for x in formals if isinstance(x, Sym) and x != "."}
        elif isinstance(formals, Sym):
            names = {str(formals)}
        inner = frozenset(env | names)
        for e in core[2:]:
            free_vars(e, inner, out)
        return out
    if head == "if":
        for e in core[1:]:
            free_vars(e, env, out)
        return out
    if head in ("set!", "define"):
        for e in core[1:]:
            free_vars(e, env, out)
        return out
    for e in core:
        free_vars(e, env, out)
    return out


def prelude_globals(forms):
    out = set()
    for fm in forms:
        if isinstance(fm, list) and len(fm) >= 2 and fm[0] == "define":
            t = fm[1]
            if isinstance(t, list) and t:
                out.add(str(t[0]))
            elif isinstance(t, Sym):
                out.add(str(t))
    return out


def r01p(ctx, rep, rule="R01p"):
    from . import popbalance
    rep.rule(rule, "what a derived form introduces is bound: in the core expansion of each schematic instance, every identifier that "
             "is free (not a variable of the instance, not bound by a lambda of the expansion, not quoted) is a global the "
             "prelude defines or a registered builtin. A template that mentions an identifier nobody defines — `<undefined>` in "
             "letrec* — makes every use of the form fail with `is not bound`.")
    try:
        macros, forms, path = load_macros(ctx["root"])
    except (OSError, IndexError) as e:
        rep.anchor_lost(rule, "marwood/prelude.scm unreadable: %s" % e)
        return
    known = prelude_globals(forms) | set(popbalance.scheme_registry(ctx["facts"]))
    rep.floor(rule, "globals defined by the prelude or registered as builtins", len(known), 150)
    user = {"x", "y", "f", "i", "loop", "k", "a", "b", "c"}
    for name, text in INSTANCES:
        key = "%s|%s" % (rule, name)
        try:
            core = expand(S(text), macros)
        except RecursionError as e:
            rep.fail(rule, key, "%s: %s" % (text, e), [path])
            continue
        fv = {v for v in free_vars(core) if v not in user and v not in ("if", "lambda", "set!", "define", "quote", "no-rule")}
        unbound = sorted(v for v in fv if v not in known)
        if unbound:
            rep.fail(rule, key, "the expansion of %s refers to %s, which neither the prelude nor the builtin registry defines: "
                     "every use of the form fails with `%s is not bound`" % (text, ", ".join(unbound), unbound[0]), [path],
                     detail={"expansion": repr(core)[:500]})
        else:
            rep.ok(rule, key, "%s: identifiers introduced by the expansion are defined (%s)" % (name, ", ".join(sorted(fv)) or "none"), [path])


def r01r(ctx, rep, rule="R01r"):
    rep.rule(rule, "force keeps the first value delivered (R7RS 4.2.5, re-entrant forcing): in the prelude's force, every call of "
             "promise-update! lies under a test that the promise is not done yet — (unless (promise-done? p) ..), or the "
             "negative branch of an if on promise-done? — taken after the thunk has run. The thunk may itself force the promise; "
             "an unconditional update lets the outer, later-finishing evaluation overwrite the value already delivered.")
    try:
        macros, forms, path = load_macros(ctx["root"])
    except (OSError, IndexError) as e:
        rep.anchor_lost(rule, "marwood/prelude.scm unreadable: %s" % e)
        return
    d = None
    for fm in forms:
        if isinstance(fm, list) and len(fm) >= 3 and fm[0] == "define" and isinstance(fm[1], list) and fm[1] and fm[1][0] == "force":
            d = fm
    if d is None:
        rep.anchor_lost(rule, "definition of force in prelude.scm")
        return
    sites = []

    def is_done_test(x):
        return isinstance(x, list) and len(x) == 2 and x[0] == "promise-done?"

    def walk(x, guarded):
        if isinstance(x, list) and x:
            if x[0] == "promise-update!":
                sites.append(guarded)
            if x[0] == "unless" and len(x) >= 3 and is_done_test(x[1]):
                for y in x[2:]:
                    walk(y, True)
                return
            if x[0] == "when" and len(x) >= 3 and isinstance(x[1], list) and len(x[1]) == 2 and x[1][0] == "not" and is_done_test(x[1][1]):
                for y in x[2:]:
                    walk(y, True)
                return
            if x[0] == "if" and len(x) >= 3 and is_done_test(x[1]):
                walk(x[2], guarded)
                for y in x[3:]:
                    walk(y, True)
                return
            for y in x:
                walk(y, guarded)
    # the outer `(if (promise-done? promise) value (let ...))` guards the whole else branch, but *before* the thunk runs:
    # only tests inside the let that binds the thunk's result count
    def find_let(x):
        if isinstance(x, list) and x:
            if x[0] == "let" and len(x) >= 3:
                return x
            for y in x:
                r = find_let(y)
                if r is not None:
                    return r
        return None
    body = find_let(d[2:])
    if body is None:
        rep.anchor_lost(rule, "the let that runs the promise's thunk in force")
        return
    walk(body[2:], False)
    if not sites:
        rep.anchor_lost(rule, "promise-update! in force")
        return
    key = rule + "|force|update-only-if-not-done"
    if all(sites):
        rep.ok(rule, key, "force updates the promise only if it is still not done after its thunk returned", [path])
    else:
        rep.fail(rule, key, "force calls promise-update! without re-checking promise-done? after running the thunk: when the thunk "
                 "forced the same promise, the outer evaluation overwrites the value the inner one delivered", [path])


def calls_with_tail(core, name, tail=True, out=None):
    """[(is_tail)] for every application of `name` in a core form"""
    out = out if out is not None else []
    if isinstance(core, tuple) or not isinstance(core, list) or not core:
        return out
    head = core[0]
    if head == "quote":
        return out
    if head == "if":
        if len(core) > 1:
            calls_with_tail(core[1], name, False, out)
        for br in core[2:4]:
            calls_with_tail(br, name, tail, out)
        return out
    if head in ("lambda", "λ"):
        body = core[2:]
        for i, e in enumerate(body):
            calls_with_tail(e, name, i == len(body) - 1, out)
        return out
    if head in ("set!", "define"):
        for e in core[2:]:
            calls_with_tail(e, name, False, out)
        return out
    if isinstance(head, list) and head and head[0] in ("lambda", "λ"):
        body = head[2:]
        for i, e in enumerate(body):
            calls_with_tail(e, name, tail and i == len(body) - 1, out)
        for a in core[1:]:
            calls_with_tail(a, name, False, out)
        return out
    if isinstance(head, Sym) and str(head) == name:
        out.append(tail)
    for e in (core[1:] if isinstance(head, Sym) else core):
        calls_with_tail(e, name, False, out)
    return out


def r12n(ctx, rep, rule="R12n"):
    rep.rule(rule, "force is iterative (R7RS 4.2.5: delay-force chains run in constant space): in the core expansion of the "
             "prelude's force, every call of force itself — or of the local procedure of force that calls itself — is a tail call. A non-tail self-call — forcing the promise the thunk "
             "returned before copying it — makes a chain of n delay-force steps recurse n deep, with every intermediate promise "
             "and environment rooted from the live frames.")
    try:
        macros, forms, path = load_macros(ctx["root"])
    except (OSError, IndexError) as e:
        rep.anchor_lost(rule, "marwood/prelude.scm unreadable: %s" % e)
        return
    d = None
    for fm in forms:
        if isinstance(fm, list) and len(fm) >= 3 and fm[0] == "define" and isinstance(fm[1], list) and fm[1] and fm[1][0] == "force":
            d = fm
    if d is None:
        rep.anchor_lost(rule, "definition of force in prelude.scm")
        return
    core = expand([Sym("lambda"), d[1][1:]] + d[2:], macros)
    calls = calls_with_tail(core, "force")
    # the loop may be a local procedure of force (bound by letrec: `(set! name (lambda ..))` in the core form)
    def local_loops(x, out):
        if isinstance(x, list) and x:
            if x[0] == "set!" and len(x) == 3 and isinstance(x[2], list) and x[2] and x[2][0] in ("lambda", "λ"):
                own = calls_with_tail(x[2], str(x[1]))
                if own:
                    out.append((str(x[1]), own))
            if x[0] == "quote":
                return out
            for y in x:
                local_loops(y, out)
        return out
    for nm, own in local_loops(core, []):
        calls = calls + own
    key = rule + "|force|self-calls-are-tail-calls"
    if not calls:
        rep.anchor_lost(rule, "self-call of force")
    elif all(calls):
        rep.ok(rule, key, "force calls itself only in tail position (%d call%s)" % (len(calls), "" if len(calls) == 1 else "s"), [path])
    else:
        rep.fail(rule, key, "force calls itself in a non-tail position (%d of %d calls): a delay-force chain is consumed recursively, "
                 "and stack and heap grow with the length of the chain although one promise is live" % (
                     len([c for c in calls if not c]), len(calls)), [path])


R7RS_NAMES = set("""
* + - / < <= = > >= abs and append apply assoc assq assv begin binary-port? boolean=? boolean? bytevector bytevector-append
bytevector-copy bytevector-copy! bytevector-length bytevector-u8-ref bytevector-u8-set! bytevector? caar cadr call-with-current-continuation
call-with-port call-with-values call/cc car case cdar cddr cdr ceiling char->integer char-ready? char<=? char<? char=? char>=? char>? char?
close-input-port close-output-port close-port complex? cond cond-expand cons current-error-port current-input-port current-output-port
define define-record-type define-syntax define-values denominator do dynamic-wind else eof-object eof-object? eq? equal? eqv? error
error-object-irritants error-object-message error-object? even? exact exact-integer-sqrt exact-integer? exact? expt features file-error?
floor floor-quotient floor-remainder floor/ flush-output-port for-each gcd get-output-bytevector get-output-string guard if include
include-ci inexact inexact? input-port-open? input-port? integer->char integer? lambda lcm length let let* let*-values let-syntax let-values
letrec letrec* letrec-syntax list list->string list->vector list-copy list-ref list-set! list-tail list? make-bytevector make-list
make-parameter make-string make-vector map max member memq memv min modulo negative? newline not null? number->string number? numerator
odd? open-input-bytevector open-input-string open-output-bytevector open-output-string or output-port-open? output-port? pair?
parameterize peek-char peek-u8 positive? procedure? quasiquote quote quotient raise raise-continuable rational? rationalize read-bytevector
read-bytevector! read-char read-error? read-line read-string read-u8 real? remainder reverse round set! set-car! set-cdr! square string
string->list string->number string->symbol string->utf8 string->vector string-append string-copy string-copy! string-fill! string-for-each
string-length string-map string-ref string-set! string<=? string<? string=? string>=? string>? string? substring symbol->string symbol=?
symbol? syntax-error syntax-rules textual-port? truncate truncate-quotient truncate-remainder truncate/ u8-ready? unless unquote
unquote-splicing utf8->string values vector vector->list vector->string vector-append vector-copy vector-copy! vector-fill! vector-for-each
vector-length vector-map vector-ref vector-set! vector? when with-exception-handler write-bytevector write-char write-string write-u8 zero?
case-lambda char-alphabetic? char-ci<=? char-ci<? char-ci=? char-ci>=? char-ci>? char-downcase char-foldcase char-lower-case? char-numeric?
char-upcase char-upper-case? char-whitespace? digit-value string-ci<=? string-ci<? string-ci=? string-ci>=? string-ci>? string-downcase
string-foldcase string-upcase angle imag-part magnitude make-polar make-rectangular real-part caaar caadr cadar caddr cdaar cdadr cddar cdddr
caaaar caaadr caadar caaddr cadaar cadadr caddar cadddr cdaaar cdaadr cdadar cdaddr cddaar cddadr cdddar cddddr environment eval
call-with-input-file call-with-output-file delete-file file-exists? open-binary-input-file open-binary-output-file open-input-file
open-output-file with-input-from-file with-output-to-file acos asin atan cos exp finite? infinite? log nan? sin sqrt tan delay delay-force
force make-promise promise? load command-line emergency-exit exit get-environment-variable get-environment-variables read interaction-environment
current-jiffy current-second jiffies-per-second display write write-shared write-simple exact->inexact inexact->exact λ => ... _
""".split())

# private prelude globals a library procedure may still mention, with the reason
PRIVATE_OK = {
    "void": "for-each returns it as its unspecified value: whatever a program binds to the name is as good an unspecified value",
}


def r01s(ctx, rep, rule="R01s"):
    """library code does not lean on names a program may use for itself"""
    from . import popbalance
    rep.rule(rule, "the library stands on standard names only: top-level names are late-bound, so a prelude procedure or macro "
             "template that refers to a global which R7RS does not define — a private helper such as any?, map1 or promise-done? — "
             "starts to fail as soon as a program defines that name for a purpose of its own ((define (any? x) x) broke map). "
             "Every global a prelude procedure refers to free, and every global the core expansion of a schematic instance of a "
             "derived form introduces, is therefore either a name R7RS defines (redefining those is not an unrelated "
             "definition), a builtin the prelude does not define, or listed with a reason; helpers are bound locally.")
    try:
        macros, forms, path = load_macros(ctx["root"])
    except (OSError, IndexError) as e:
        rep.anchor_lost(rule, "marwood/prelude.scm unreadable: %s" % e)
        return
    private = {g for g in prelude_globals(forms) if g not in R7RS_NAMES}
    rep.note("%s: prelude globals outside R7RS: %s" % (rule, ", ".join(sorted(private)) or "none"))
    n = 0
    for fm in forms:
        if not (isinstance(fm, list) and len(fm) >= 3 and fm[0] == "define"):
            continue
        if isinstance(fm[1], list) and fm[1]:
            name, lam = str(fm[1][0]), [Sym("lambda"), fm[1][1:]] + fm[2:]
        elif isinstance(fm[1], Sym):
            name, lam = str(fm[1]), fm[2]
        else:
            continue
        try:
            core = expand(lam, macros)
        except RecursionError:
            continue
        n += 1
        used = sorted(v for v in free_vars(core) if v in private and v != name and v not in PRIVATE_OK)
        key = "%s|%s" % (rule, name)
        (rep.ok if not used else rep.fail)(
            rule, key, "%s refers to standard names only" % name if not used else
            "the prelude's %s calls the private global%s %s: a program that defines %s for itself breaks %s" % (
                name, "s" if len(used) > 1 else "", ", ".join(used), used[0], name), [path])
    user = {"x", "y", "f", "i", "loop", "k", "a", "b", "c"}
    extra = [("delay", "(delay %N1)"), ("delay-force", "(delay-force %N1)")]
    for nm, text in INSTANCES + extra:
        try:
            core = expand(S(text), macros)
        except RecursionError:
            continue
        n += 1
        used = sorted(v for v in free_vars(core) if v in private and v not in user and v not in PRIVATE_OK)
        key = "%s|template %s" % (rule, nm)
        (rep.ok if not used else rep.fail)(
            rule, key, "the expansion of %s introduces standard names only" % nm if not used else
            "the expansion of %s introduces the private global%s %s: a program that defines %s for itself breaks the form" % (
                text, "s" if len(used) > 1 else "", ", ".join(used), used[0]), [path])
    rep.floor(rule, "prelude procedures and template instances examined", n, 40)


# procedures a derived form's expansion may call by name, with the reason it cannot do without
TEMPLATE_PROCS = {
    # (case called memv "because it cannot do without": that was an excuse, not a reason — the call is a known finding now)
}


def r01u(ctx, rep, rule="R01u"):
    """a derived form does not lean on a procedure a program is free to rebind"""
    rep.rule(rule, "a derived form means what it means whatever the program calls its variables: syntax-rules templates are not "
             "hygienic here, so every procedure name a template introduces is looked up where the form is used — under the "
             "program's own bindings. A parameter named `list`, `cons` or `not` (common names) must not change what delay or "
             "unless do: the core expansion of each schematic instance introduces no reference to a library procedure, except "
             "those in a small table of forms that cannot do without one (case calls memv). The promise of delay is built "
             "with quasiquote (core syntax, compiled to CONS), the test of unless is an `if` with swapped arms.")
    try:
        macros, forms, path = load_macros(ctx["root"])
    except (OSError, IndexError) as e:
        rep.anchor_lost(rule, "marwood/prelude.scm unreadable: %s" % e)
        return
    user = {"x", "y", "f", "i", "loop", "k", "a", "b", "c"}
    core_kw = {"if", "lambda", "set!", "define", "quote", "quasiquote", "unquote", "no-rule", "λ"}
    n = 0
    calls = {}
    for nm, text in INSTANCES + [("delay", "(delay %N1)"), ("delay-force", "(delay-force %N1)")]:
        try:
            core = expand(S(text), macros)
        except RecursionError:
            continue
        n += 1
        form = nm.split(" ")[0].split(":")[0]
        allowed = TEMPLATE_PROCS.get(form, {})
        used = sorted(v for v in free_vars(core) if v not in user and v not in core_kw and v not in allowed and v not in PRIVATE_OK)
        for v in used:
            calls.setdefault((form, v), []).append(text)
        if not used:
            rep.ok(rule, "%s|%s" % (rule, nm), "%s introduces no procedure reference%s" % (
                nm, (" beyond " + ", ".join(sorted(allowed))) if allowed else ""))
    # one finding per (form, procedure), whatever the number of schematic instances that show it
    for (form, v), texts in sorted(calls.items()):
        rep.fail(rule, "%s|%s calls %s" % (rule, form, v),
                 "the expansion of %s calls %s by name (%d schematic instance%s, e.g. %s): where the form is used under a binding of "
                 "that name — a parameter called %s, say — it calls the program's variable instead" % (
                     form, v, len(texts), "" if len(texts) == 1 else "s", texts[0], v), [path])
    rep.floor(rule, "schematic instances of derived forms", n, 25)
