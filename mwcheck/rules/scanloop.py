"""R11l: every iteration of a scanner loop consumes a character (termination of the scanner).

A path-sensitive must-consume analysis over the MIR of marwood::lex. A *consuming* block is a call of Iterator::next on
the character cursor, or a call of a local scanner that itself consumes on every path to an Ok return. Paths are explored
with three facts that the scanners' own idioms establish: (a) two offsets known to be equal (`let mut end = start`)
stay equal until `end` is reassigned, which decides `start != end` tests on the first iteration; (b) after
`peek().unwrap()` or the Some edge of a match on `peek()`, a further `peek()` is Some until something is consumed;
(c) the Some / true edge of `next_if(..)` has consumed."""
from ..facts import callee, op_place, op_const, short_path

FACTS = None
LEX="marwood::lex::"
def is_next(t):
    fa=t.get("fnargs") or ""
    c=callee(t) or ""
    return (fa.endswith("as std::iter::Iterator>::next") or c.endswith("Iterator>::next")) and ("Peekable" in fa or "CharIndices" in fa)
def eq_pairs(f):
    """(x,y) locals: y has a def `y = copy x`; returns {y: x}"""
    out={}
    for l,ty in enumerate(f.locals):
        if ty!="usize": continue
        for d in f.defs().get(l,[]):
            if d[2]=="assign" and d[3]["rv"]["k"]=="use":
                pl=op_place(d[3]["rv"]["a"])
                if pl is not None and not pl["p"] and f.locals[pl["l"]]=="usize" and len([x for x in f.defs().get(l,[]) if x[2]!="partial"])>1:
                    out[l]=pl["l"]
    return out
memo={}
def consuming_blocks(f):
    out=set()
    for bb,t in f.calls():
        c=callee(t) or ""
        if is_next(t): out.add(bb)
        elif c.startswith(LEX) and c in FACTS.fns and c!=f.path and must_consume(FACTS.fns[c], True): out.add(bb)
    return out
def is_peek(t):
    fa=t.get("fnargs") or ""; c=callee(t) or ""
    return c.endswith("Peekable::<I>::peek") or fa.endswith("::peek")
def explore(f, start, cons, stop_at=None, dirty0=False, peek0=False):
    pairs=eq_pairs(f)
    seen=set(); work=[(start,dirty0,peek0)]
    while work:
        bb,dirty,pk=work.pop()
        if (bb,dirty,pk) in seen: continue
        seen.add((bb,dirty,pk))
        if bb in cons: continue
        blk=f.blocks[bb]
        d2=dirty; p2=pk
        for st in blk["stmts"]:
            if not st["lhs"]["p"] and st["lhs"]["l"] in pairs:
                pl=op_place(st["rv"].get("a")) if st["rv"]["k"]=="use" else None
                if not (pl is not None and not pl["p"] and pl["l"]==pairs[st["lhs"]["l"]]):
                    d2=True
        t=blk["term"]
        succs=[x for x in f.succ[bb] if not f.is_cleanup(x)]
        if t["k"]=="call":
            c=callee(t) or ""
            # unwrap / expect of a peek result: the cursor is known to stand on a character from here on
            if c.endswith(("Option::<T>::unwrap","Option::<T>::expect")) and t["args"]:
                o=f.origin(t["args"][0])
                if o[0]=="call" and is_peek(o[1]): p2=True
        if t["k"]=="switch":
            o=f.origin(t["op"])
            if o[0]=="rv" and o[1]["rv"]["k"]=="disc":
                src=f.origin({"copy":o[1]["rv"]["place"]})
                if src[0]=="call" and is_peek(src[1]) and "Option" in o[1]["rv"]["place"]["ty"]:
                    vals=dict((v,tg) for v,tg in t["targets"])
                    some_t=vals.get(1, t["otherwise"] if 1 not in vals else None)
                    none_t=vals.get(0, t["otherwise"] if 0 not in vals else None)
                    if p2:
                        succs=[some_t]
                    else:
                        # taking the Some edge establishes the fact
                        for x in succs:
                            work.append((x,d2, True if x==some_t else p2))
                        continue
            if not d2 and o[0]=="rv" and o[1]["rv"]["k"]=="bin" and o[1]["rv"]["op"] in ("Ne","Eq"):
                a=op_place(o[1]["rv"]["a"]); b=op_place(o[1]["rv"]["b"])
                def base(pp):
                    if pp is None or pp["p"]: return None
                    l=pp["l"]; interesting=set(pairs)|set(pairs.values())
                    for _ in range(6):
                        if l in interesting: return l
                        sd=f.single_def(l)
                        if sd is None or sd[2]!="assign" or sd[3]["rv"]["k"]!="use": return l
                        q=op_place(sd[3]["rv"]["a"])
                        if q is None or q["p"]: return l
                        l=q["l"]
                    return l
                la,lb=base(a),base(b)
                if la is not None and lb is not None and (pairs.get(la)==lb or pairs.get(lb)==la):
                    vals=dict((v,tg) for v,tg in t["targets"])
                    want = 1 if o[1]["rv"]["op"]=="Eq" else 0
                    succs=[vals.get(want, t["otherwise"])]
        for x in succs: work.append((x,d2,p2))
    return seen
def must_consume(f, peek0=False):
    key=(f.path,peek0)
    if key in memo: return memo[key]
    memo[key]=True
    cons=consuming_blocks(f)|next_if_edges(f)
    seen=explore(f,0,cons,None,False,peek0)
    okb={b2 for b2,j,st in f.stmts() if st["lhs"]["l"]==0 and not st["lhs"]["p"] and st["rv"]["k"]=="agg" and st["rv"].get("variant")=="Ok"}
    # `()`-returning helpers (scan_comment returns Result<(),..>): also Ok agg. plain returns of non-Result fns: any return block
    res = not any(bb in okb for bb,d,pk in seen)
    if "Result" not in f.locals[0]:
        res = not any(bb in set(f.return_blocks()) for bb,d,pk in seen)
    memo[key]=res
    return res


def next_if_edges(f):
    """blocks entered on the Some / is_some()==true edge of a next_if call: consumption has happened there"""
    out = set()
    for bb, blk in enumerate(f.blocks):
        t = blk["term"]
        if t["k"] != "switch":
            continue
        o = f.origin(t["op"])
        src = None
        if o[0] == "call" and (callee(o[1]) or "").endswith("Option::<T>::is_some") and o[1]["args"]:
            src = f.origin(o[1]["args"][0])
            true_t = t["otherwise"] if any(v == 0 for v, _ in t["targets"]) else dict(t["targets"]).get(1)
        elif o[0] == "rv" and o[1]["rv"]["k"] == "disc":
            src = f.origin({"copy": o[1]["rv"]["place"]})
            vals = dict((v, tg) for v, tg in t["targets"])
            true_t = vals.get(1, t["otherwise"] if 1 not in vals else None)
        if src is not None and src[0] == "call" and (callee(src[1]) or "").endswith("Peekable::<I>::next_if") and true_t is not None:
            out.add(true_t)
    return out


def r11l(ctx, rep, rule="R11l"):
    global FACTS
    FACTS = ctx["facts"]
    memo.clear()
    rep.rule(rule, "the scanner terminates: in every loop of marwood::lex that walks the character cursor, each iteration consumes a "
             "character — there is no path from the loop head back to it that passes neither Iterator::next on the cursor nor a "
             "call of a scanner that consumes on every path to its Ok result (must-consume, path-sensitive for the scanners' "
             "own idioms: `start != end` on the first iteration, peek after peek, the Some edge of next_if). An arm that is "
             "selected by one predicate and consumes under another (is_whitespace vs is_ascii_whitespace) spins on the first "
             "character on which they differ.")
    n = 0
    for p, f in sorted(FACTS.fns.items()):
        if not p.startswith(LEX) or "::tests::" in p or "{closure" in p:
            continue
        if not any("Peekable" in t or "CharIndices" in t for t in f.locals):
            continue
        cons = consuming_blocks(f) | next_if_edges(f)
        for src, h in f.back_edges():
            n += 1
            key = "%s|%s|loop@%d" % (rule, f.short.rsplit("::", 1)[-1], sum(1 for o in rep.obs if o.key.startswith("%s|%s|" % (rule, f.short.rsplit("::", 1)[-1]))) + 1)
            spinning = False
            for d0 in (False, True):
                seen = explore(f, h, cons, None, d0, False)
                if src not in cons and any(s_[0] == src for s_ in seen):
                    spinning = True
            if spinning:
                rep.fail(rule, key, "%s has a loop that can go round without consuming a character: the scanner does not terminate on "
                         "an input that takes that path (the arm's selecting test and its consuming step disagree, or a helper "
                         "returns without consuming)" % f.short, [f.blocks[h]["term"].get("loc") or f.span])
            else:
                rep.ok(rule, key, "%s: every path round the loop consumes a character" % f.short, [f.span])
    rep.floor(rule, "cursor loops in the scanner", n, 6)
