"""C11 — reader discipline (R11a-e)."""
from ..facts import callee, op_const, op_place, short_path
from .common import *
from . import tables

PEEK_NEXT = ("<std::iter::Peekable<I> as std::iter::Iterator>::next", "std::iter::Peekable::<I>::peek")
PARSE_FNS = ["marwood::parse::parse", "marwood::parse::parse_list", "marwood::parse::parse_improper_list_tail",
             "marwood::parse::parse_vector", "marwood::parse::parse_number"]


def _is_incomplete(fn, op):
    o = fn.origin(op)
    if o[0] == "rv" and o[1]["rv"]["k"] == "agg":
        return o[1]["rv"].get("variant") == "Incomplete" and o[1]["rv"].get("adt", "").endswith("::Error")
    if o[0] == "const":
        return "Incomplete" in o[1].get("text", "")
    return False


def _uses_of(fn, local):
    """(kind, payload) for every direct consumer of `local`"""
    out = []
    for bb, j, s in fn.stmts():
        rv = s["rv"]
        from ..flow import places_read
        for p in places_read(rv):
            if p["l"] == local:
                out.append(("stmt", bb, s))
    for bb, t in fn.calls():
        for i, a in enumerate(t["args"]):
            p = op_place(a)
            if p is not None and p["l"] == local:
                out.append(("call", bb, t, i))
    for bb, b in enumerate(fn.blocks):
        t = b["term"]
        if t["k"] == "switch" and not b.get("cleanup"):
            p = op_place(t["op"])
            if p is not None and p["l"] == local:
                out.append(("switch", bb, t))
    return out


def r11a(ctx, rep):
    facts = ctx["facts"]
    rep.rule("R11a", "end of input means Incomplete: at every Peekable::next/peek over tokens in the parser whose None "
             "outcome is handled, the None edge constructs parse::Error::Incomplete (ok_or(Incomplete) or an explicit "
             "None arm); every unwrap of next() is justified by a dominating peek() on the same iterator with no "
             "intervening next(); the scanner's string and character scanners return only lex::Error::Incomplete.")
    n_sites = 0
    for path in PARSE_FNS:
        fn = facts.fn(path)
        if fn is None:
            rep.anchor_lost("R11a", path)
            continue
        nexts = [(bb, t) for bb, t in fn.calls() if callee(t) == PEEK_NEXT[0]]
        peeks = [(bb, t) for bb, t in fn.calls() if callee(t) == PEEK_NEXT[1]]
        k = 0
        for bb, t in nexts + peeks:
            which = "next" if callee(t) == PEEK_NEXT[0] else "peek"
            if t["dest"]["p"]:
                continue
            uses = _uses_of(fn, t["dest"]["l"])
            for u in uses:
                if u[0] == "call":
                    c = callee(u[2])
                    k += 1
                    key = "R11a|%s|%s#%d" % (fn.path.rsplit("::", 1)[-1], which, k)
                    if c.startswith("std::option::Option::<T>::ok_or"):
                        n_sites += 1
                        ok = _is_incomplete(fn, u[2]["args"][1])
                        (rep.ok if ok else rep.fail)(
                            "R11a", key, "%s: running out of tokens at %s() %s parse::Error::Incomplete" % (
                                fn.short, which, "yields" if ok else "yields an error OTHER than"), [u[2]["loc"]])
                    elif c == "std::option::Option::<T>::unwrap" or c == "std::option::Option::<T>::expect":
                        n_sites += 1
                        # I-peek
                        doms = [pb for pb, pt in peeks if fn.dominates(pb, bb) and pb != bb]
                        ok = False
                        for pb in doms:
                            between = fn.reach_from(pb) & fn.reach_back(bb)
                            others = [nb for nb, nt in nexts if nb != bb and nb in between and nb != pb]
                            if not others:
                                ok = True
                        (rep.ok if ok else rep.fail)(
                            "R11a", key, "%s: %s().unwrap() %s" % (
                                fn.short, which, "is guarded by a dominating peek() with no intervening next()" if ok
                                else "has no dominating peek(): it panics at end of input instead of reporting Incomplete"),
                            [u[2]["loc"]])
                    elif c.startswith("std::option::Option::<T>::is_"):
                        pass
                    else:
                        # any other consumer (map, and_then, unwrap_or ...) hides what happens at the end of the tokens
                        n_sites += 1
                        rep.fail("R11a", key, "%s: the result of %s() on the token cursor goes to %s; the end-of-tokens case is "
                                 "no longer visibly turned into parse::Error::Incomplete (ok_or(Incomplete) / an explicit None "
                                 "arm / unwrap after peek are the recognised forms)" % (fn.short, which, short_path(c)), [u[2]["loc"]])
                elif u[0] == "stmt" and u[2]["rv"]["k"] == "disc":
                    # explicit match: find the switch on this discriminant, None = 0
                    d = u[2]["lhs"]["l"]
                    for bb2, b2 in enumerate(fn.blocks):
                        t2 = b2["term"]
                        if t2["k"] == "switch" and op_place(t2["op"]) and op_place(t2["op"])["l"] == d:
                            none_t = [tg for v, tg in t2["targets"] if v == 0]
                            if not none_t:
                                continue
                            k += 1
                            n_sites += 1
                            key = "R11a|%s|%s#%d" % (fn.path.rsplit("::", 1)[-1], which, k)
                            calls, aggs = tables.arm_effects(fn, none_t[0], limit=3)
                            ok = any(v == "Incomplete" for a, v in aggs)
                            (rep.ok if ok else rep.fail)(
                                "R11a", key, "%s: the None arm of %s() %s parse::Error::Incomplete" % (
                                    fn.short, which, "constructs" if ok else "does NOT construct"), [t2["loc"]])
    rep.floor("R11a", "handled end-of-token-stream sites in the parser", n_sites, 7)
    for path in ("marwood::lex::scan_string", "marwood::lex::scan_char"):
        fn = facts.fn(path)
        if fn is None:
            rep.anchor_lost("R11a", path)
            continue
        errs = [(s["rv"].get("variant"), s["loc"]) for bb, j, s in fn.stmts()
                if s["rv"]["k"] == "agg" and s["rv"].get("adt") == "marwood::lex::Error"]
        key = "R11a|%s|errors-are-incomplete" % path.rsplit("::", 1)[-1]
        if not errs:
            rep.fail("R11a", key, "%s no longer reports lex::Error::Incomplete when the text ends inside the literal" % short_path(path), [fn.span])
        elif all(v == "Incomplete" for v, _ in errs):
            rep.ok("R11a", key, "%s reports only lex::Error::Incomplete (%d site(s))" % (short_path(path), len(errs)), [l for _, l in errs])
        else:
            rep.fail("R11a", key, "%s reports %s where the text ends inside the literal; the front ends keep reading only "
                     "on Incomplete" % (short_path(path), sorted({v for v, _ in errs if v != "Incomplete"})),
                     [l for v, l in errs if v != "Incomplete"])


def r11b(ctx, rep):
    facts = ctx["facts"]
    rep.rule("R11b", "front ends honour it: marwood-repl's Validator::validate and marwood-wasm's check map "
             "lex::Error::Incomplete and parse::Error::Incomplete (and nothing else) to 'keep reading'.")
    for crate, suffix in (("marwood_repl", "validate"), ("marwood_wasm", "check")):
        fs = [f for f in facts.by_crate.get(crate, []) if f.path.endswith("::" + suffix) and f.kind != "Closure"]
        if not fs:
            rep.anchor_lost("R11b", "%s::%s" % (crate, suffix))
            continue
        fn = fs[0]
        seen = {}
        for adt in ("marwood::lex::Error", "marwood::parse::Error"):
            for sw in disc_switches(facts, fn, adt):
                seen[adt] = sw
        for adt in ("marwood::lex::Error", "marwood::parse::Error"):
            key = "R11b|%s|%s" % (crate, adt.split("::")[1])
            sw = seen.get(adt)
            if sw is None:
                rep.fail("R11b", key, "%s does not distinguish %s::Incomplete from other errors: an unfinished datum "
                         "is submitted (or a broken one keeps the prompt open)" % (fn.short, adt), [fn.span])
                continue
            inc = sw["arms"].get("Incomplete")
            ok = inc is not None and inc != sw["otherwise"] and all(t != inc for v, t in sw["arms"].items() if v != "Incomplete")
            (rep.ok if ok else rep.fail)("R11b", key, "%s gives %s::Incomplete its own arm" % (fn.short, adt) if ok else
                                         "%s treats %s::Incomplete like other errors" % (fn.short, adt), [sw["term"]["loc"]])


def r11e(ctx, rep):
    facts = ctx["facts"]
    rep.rule("R11e", "remaining text: in parse::parse_text the returned remainder is the input sliced from field "
             "span.0 of the peeked next token, and nothing else.")
    fn = need(rep, "R11e", facts, "marwood::parse::parse_text")
    if fn is None:
        return
    bodies = [fn] + facts.closures_of(fn)
    found = []
    for f in bodies:
        for bb, t in f.calls():
            fa = t.get("fnargs") or ""
            if fa.startswith("<str as std::ops::Index<std::ops::RangeFrom"):
                o = f.origin(t["args"][1])
                if o[0] == "rv" and o[1]["rv"]["k"] == "agg":
                    oo = f.origin(o[1]["rv"]["ops"][0])
                    names = [e["n"] for e in oo[2] if isinstance(e, dict) and "f" in e] if len(oo) > 2 else []
                    found.append((names, t["loc"], f))
    if not found:
        rep.anchor_lost("R11e", "text[span.0..] slice in parse_text")
        return
    for names, loc, f in found:
        ok = names[-2:] == ["span", "0"] or names[-1:] == ["0"] and "span" in names
        (rep.ok if ok else rep.fail)("R11e", "R11e|parse_text|remainder-start",
                                     "the remainder starts at the next token's span.0" if ok else
                                     "the remainder starts at %s, not at the next token's span.0: text is skipped or "
                                     "re-read" % (".".join(names) or "a computed offset"), [loc])
    peek = [t for bb, t in fn.calls() if callee(t) == PEEK_NEXT[1]]
    (rep.ok if peek else rep.fail)("R11e", "R11e|parse_text|peeks-next-token",
                                   "the remainder is computed from peek() of the token cursor" if peek else
                                   "parse_text no longer peeks the cursor for the remainder", [fn.span])


def r11g(ctx, rep, rule="R11g"):
    """token spans end on character boundaries"""
    from .. import shapes
    facts = ctx["facts"]
    rep.rule(rule, "spans stay on character boundaries: every addition that advances a byte offset in the scanner adds either "
             "(a) len_utf8 of the very character the cursor paired with that offset, (b) len_utf8 of a character constant, or "
             "(c) a constant k — and then only where exactly k characters were consumed with next() before and each of them "
             "(after the first, which the dispatcher of lex::scan established) was matched against an ASCII constant, or "
             "under an is_ascii* test of the paired character. `offset + 1` for an arbitrary character ends the span inside "
             "a multi-byte character and slicing the source panics.")
    n = 0
    for p, f in sorted(facts.fns.items()):
        if not p.startswith("marwood::lex::") or "::tests::" in p:
            continue
        k_in_fn = 0
        for bb, j, s_ in f.stmts():
            rv = s_["rv"]
            if not (rv["k"] == "bin" and rv["op"].startswith("Add") and rv.get("aty") == "usize"):
                continue
            a = shapes.shape(f, rv["a"], 5)
            b = shapes.shape(f, rv["b"], 6)
            if "Peekable" not in a:
                continue            # not a cursor offset
            n += 1
            k_in_fn += 1
            key = "%s|%s|advance#%d" % (rule, f.short, k_in_fn)
            loc = [s_["loc"]]
            m = re.fullmatch(r"char::methods::<char>::len_utf8\((.*)\)", b)
            if m:
                arg = m.group(1)
                if arg.startswith("c:"):
                    rep.ok(rule, key, "%s advances by the width of a character constant" % f.short, loc)
                elif a.endswith(".0") and arg == a[:-2] + ".1":
                    rep.ok(rule, key, "%s advances the offset by len_utf8 of the character paired with it" % f.short, loc)
                else:
                    rep.fail(rule, key, "%s advances an offset by the width of a different character (%s) than the one the cursor "
                             "paired with it: the span end is not the end of that character" % (f.short, arg[:80]), loc)
                continue
            c = op_const(rv["b"])
            if c is None or c.get("int") is None:
                rep.fail(rule, key, "%s advances a cursor offset by %s, which is neither a character width nor a constant" % (f.short, b[:80]), loc)
                continue
            k = int(c["int"])
            guards = shapes.dominating_guards(f, bb)
            ascii_test = any(re.match(r"char::methods::<char>::is_ascii\w*\(", shapes.shape(f, cond, 4)) and taken == "else"
                             for sbb, cond, taken, t in guards)
            nexts = [b2 for b2, t in f.calls() if (t.get("fnargs") or "").endswith("as std::iter::Iterator>::next")
                     and "Peekable" in (t.get("fnargs") or "") and f.dominates(b2, bb)]
            matched = []
            for sb in sorted(f.dominators().get(bb, set())):
                t = f.blocks[sb]["term"]
                if t["k"] != "switch" or t.get("opty") != "char" or sb == bb:
                    continue
                vals = [v for v, tg in t["targets"] if (tg == bb or f.dominates(tg, bb)) and set(f.pred[tg]) & f.reachable() == {sb}]
                via_else = t["otherwise"] == bb or f.dominates(t["otherwise"], bb)
                if vals and not via_else and all(v < 128 for v in vals):
                    matched.append(sb)
            if ascii_test and k == 1:
                rep.ok(rule, key, "%s advances by 1 under an is_ascii test of the character" % f.short, loc)
            elif k == len(nexts) and len(matched) >= k - 1:
                rep.ok(rule, key, "%s advances by %d after consuming %d characters matched against ASCII constants" % (f.short, k, k), loc)
            else:
                rep.fail(rule, key, "%s advances a cursor offset by the constant %d, but %d character(s) were consumed and %d matched "
                         "against ASCII constants on the way: for a multi-byte character the span ends inside it, and "
                         "Token::span slices the source off a character boundary (panic)" % (f.short, k, len(nexts), len(matched)), loc)
    rep.floor(rule, "offset advances in the scanner", n, 10)


def r11h(ctx, rep, rule="R11h"):
    """token spans are offsets into the text the caller passed"""
    from .. import shapes
    facts = ctx["facts"]
    rep.rule(rule, "token spans index the caller's text: lex::scan returns byte offsets that every consumer (Token::span, "
             "parse, parse_text's remaining-text computation, the front ends) applies to the string it handed in, so the "
             "CharIndices cursor must be created over exactly that argument — not over a trimmed or otherwise derived "
             "slice, whose offsets are shifted against the original.")
    f = need(rep, rule, facts, "marwood::lex::scan")
    if f is None:
        return
    sites = [(bb, t) for bb, t in f.calls() if (callee(t) or "").endswith("<impl str>::char_indices")]
    if not sites:
        rep.anchor_lost(rule, "lex::scan creates no char_indices cursor")
        return
    for i, (bb, t) in enumerate(sites):
        sh = shapes.shape(f, t["args"][0], 4)
        key = "%s|scan|cursor#%d" % (rule, i + 1)
        if sh == "a1":
            rep.ok(rule, key, "lex::scan iterates over its text argument itself", [t["loc"]])
        else:
            rep.fail(rule, key, "lex::scan iterates over %s instead of the text it was given: the spans it returns are offsets "
                     "into that derived slice, but callers slice the original text with them (shifted tokens; a span inside a "
                     "multi-byte character panics)" % sh[:120], [t["loc"]])


def r11i(ctx, rep, rule="R11i"):
    """a number never swallows a comment start when it turns into a symbol"""
    from .. import shapes
    facts = ctx["facts"]
    rep.rule(rule, "a token that began as a number ends at `;`: this lexer counts `;` among the identifier characters (hex escapes "
             "in symbol names end with it), so wherever a scanner loop downgrades a number to a symbol because the next character "
             "is an identifier character, the downgrade excludes `;` (as scan_number does). Otherwise `.5;comment (` is one "
             "symbol token up to the blank, the comment's text is lexed as code and its brackets take part in nesting.")
    n = 0
    for p, f in sorted(facts.fns.items()):
        if not p.startswith("marwood::lex::") or "::tests::" in p:
            continue
        in_loop = set()
        for src, h in f.back_edges():
            in_loop |= (f.reach_from(h) & f.reach_back(src)) | {h, src}
        k = 0
        for bb, j, st in f.stmts():
            rv = st["rv"]
            if not (rv["k"] == "agg" and (rv.get("adt") or "").endswith("lex::TokenType") and rv.get("variant") == "Symbol" and bb in in_loop):
                continue
            g = shapes.guard_shapes(f, bb, None, 3)
            ident = [x for x in g if x.startswith("lex::is_subsequent_identifier(") and x.endswith("=T")]
            if not ident:
                continue
            n += 1
            k += 1
            who = ident[0][len("lex::is_subsequent_identifier("):-3]
            excl = any(x == "(Ne %s c:59)=T" % who or x == "(Eq %s c:59)=F" % who for x in g)
            key = "%s|%s|downgrade#%d" % (rule, f.short, k)
            (rep.ok if excl else rep.fail)(
                rule, key, "%s turns a number into a symbol on an identifier character other than `;`" % f.short if excl else
                "%s turns a number into a symbol on any identifier character, `;` included: the comment start is swallowed into "
                "the token and the rest of the line is lexed as code" % f.short, [st["loc"]])
    rep.floor(rule, "number-to-symbol downgrades on identifier characters", n, 1)


def r11k(ctx, rep, rule="R11k"):
    """a number prefix applies to an atom"""
    facts = ctx["facts"]
    rep.rule(rule, "a datum consumes exactly its own tokens: after the #e #i #b #o #d #x prefixes, parse_number hands the next "
             "token to Number's parser only if a test of its token type (a match on TokenType whose other edge leads to an "
             "error) admitted it as an atom. Without the test a bracket, quote or string after a prefix is swallowed into "
             "the number's datum (`#x(1 2)` read as the symbol `(`), and the tokens consumed are not those of one datum.")
    f = need(rep, rule, facts, "marwood::parse::parse_number")
    if f is None:
        return
    parses = [bb for bb, t in f.calls() if (callee(t) or "").startswith("marwood::number::Number::parse")]
    if not parses:
        rep.anchor_lost(rule, "parse_number no longer calls Number::parse*")
        return
    from ..shapes import reach_with_bools
    tests = []
    for sw in disc_switches(facts, f, "marwood::lex::TokenType"):
        admitted = {v for v, tg in sw["arms"].items() if tg != sw["otherwise"]}
        if not admitted or not all(f.dominates(sw["bb"], pb) for pb in parses):
            continue
        # from the non-admitting edge (flag temporaries respected) the parser call is out of reach and an error is built
        r = reach_with_bools(f, sw["otherwise"])
        errs = any(st["rv"]["k"] == "agg" and st["lhs"]["l"] == 0 and st["rv"].get("variant") == "Err"
                   for b in r for st in f.blocks[b]["stmts"])
        if errs and not any(pb in r for pb in parses):
            tests.append((sw, admitted))
    key = rule + "|parse_number|prefix-applies-to-an-atom"
    if tests:
        adm = sorted(tests[0][1])
        bad = [v for v in adm if v in ("LeftParen", "RightParen", "HashParen", "SingleQuote", "Quasiquote", "Unquote", "String", "Char", "Dot")]
        if bad:
            rep.fail(rule, key, "parse_number admits token type(s) %s after a number prefix: such a token is not an atom a prefix can "
                     "apply to" % ", ".join(bad), [tests[0][0]["term"].get("loc") or f.span])
        else:
            rep.ok(rule, key, "the token after the prefixes reaches Number's parser only as %s" % " / ".join(adm), [f.span])
    # the symbol fallback is for unprefixed tokens only
    from ..shapes import dominating_guards
    body = set()
    for src, h in f.back_edges():
        body |= (f.reach_from(h) & f.reach_back(src)) | {h, src}
    flags = [t for bb, t in f.calls() if bb not in body and "lex::TokenType as std::cmp::PartialEq>::eq" in (t.get("fnargs") or "")]
    syms = [(bb, st) for bb, j, st in f.stmts() if st["rv"]["k"] == "agg" and (st["rv"].get("adt") or "").endswith("cell::Cell")
            and st["rv"].get("variant") == "Symbol"]
    for i, (bb, st) in enumerate(syms):
        k2 = "%s|parse_number|symbol-fallback#%d" % (rule, i + 1)
        ok = False
        for sbb, cond, taken, t in dominating_guards(f, bb):
            o = f.origin(cond)
            if o[0] == "call" and any(o[1] is fl for fl in flags) and taken == 0:
                ok = True
        (rep.ok if ok else rep.fail)(
            rule, k2, "a token that is no numeral becomes a symbol only when no prefix preceded it" if ok else
            "parse_number turns a token that failed to parse as a number into a symbol even after a number prefix: `#b102` reads as "
            "the symbol `102`, whose written form reads back as a number", [st["loc"]])
    if not tests:
        rep.fail(rule, key, "parse_number hands whatever token follows a number prefix to Number's parser (and turns it into a symbol "
                 "when it is no number): `#x(1 2)` reads as the symbol `(` with `1 2)` left over, `(list #x)` swallows the closing "
                 "bracket", [f.span])


def r11m(ctx, rep, rule="R11m"):
    """scan_symbol continues on exactly the characters string->symbol writes raw"""
    from .. import shapes
    facts = ctx["facts"]
    rep.rule(rule, "one class for reader and encoder: string->symbol writes a non-initial character raw iff "
             "lex::is_subsequent_identifier accepts it, so scan_symbol must continue a symbol on exactly that predicate — no "
             "additional character it accepts by comparison. An extra `|| c == ';'` in the scanner (with the predicate narrowed) "
             "makes the reader spell a;b raw while string->symbol escapes the `;`: two symbols, one name.")
    f = need(rep, rule, facts, "marwood::lex::scan_symbol")
    if f is None:
        return
    uses = any(callee(t) == "marwood::lex::is_subsequent_identifier" for bb, t in f.calls())
    extra = []
    for bb, j, st in f.stmts():
        rv = st["rv"]
        if rv["k"] == "bin" and rv["op"] in ("Eq", "Ne"):
            for x, y in ((rv["a"], rv["b"]), (rv["b"], rv["a"])):
                c = op_const(y)
                if c is not None and c.get("ty") == "char" and "Peekable" in shapes.shape(f, x, 4):
                    extra.append((c.get("int"), st["loc"]))
    key = rule + "|scan_symbol|continuation-class"
    if not uses:
        rep.fail(rule, key, "scan_symbol no longer continues on lex::is_subsequent_identifier, the class string->symbol writes raw", [f.span])
    elif extra:
        rep.fail(rule, key, "scan_symbol accepts %s by comparison on top of is_subsequent_identifier: the reader's class of symbol "
                 "characters differs from the one string->symbol writes raw" % ", ".join(repr(chr(c)) for c, _ in extra), [extra[0][1]])
    else:
        rep.ok(rule, key, "scan_symbol continues on is_subsequent_identifier only", [f.span])


def r11n(ctx, rep, rule="R11n"):
    """what can begin a symbol is never skipped as whitespace; string delimiters are removed by position"""
    from .. import shapes
    facts = ctx["facts"]
    rep.rule(rule, "(1) a character that can begin a symbol is not skipped: this lexer's identifier class contains every character "
             "above U+00FF, Unicode space separators included, so in lex::scan the arm that consumes a whitespace character is "
             "entered only after is_initial_identifier failed — with the whitespace test first, a symbol that begins with such a "
             "character (the printer writes it verbatim) reads back without it. (2) parse removes the delimiters of a string "
             "token by position — the span minus its first and last byte — never by pattern: trim_matches('\"') also strips "
             "an escaped quote at the end of the text.")
    scan = need(rep, rule, facts, "marwood::lex::scan")
    if scan is not None:
        k = 0
        for bb, t in scan.calls():
            fa = t.get("fnargs") or ""
            is_helper = (callee(t) or "").startswith("marwood::lex::") and not (callee(t) or "").startswith("marwood::lex::is_")
            if not ((fa.endswith("as std::iter::Iterator>::next") and "Peekable" in fa) or is_helper):
                continue
            g = shapes.guard_shapes(scan, bb, None, 3)
            if not any(x.startswith("char::methods::<char>::is_whitespace(") and x.endswith("=T") for x in g):
                continue
            k += 1
            ok = any(x.startswith("lex::is_initial_identifier(") and x.endswith("=F") for x in g)
            (rep.ok if ok else rep.fail)(
                rule, "%s|scan|whitespace-after-identifier-test#%d" % (rule, k),
                "lex::scan skips a whitespace character only after is_initial_identifier rejected it" if ok else
                "lex::scan skips a whitespace character before asking is_initial_identifier: U+1680, U+2000-200A, U+3000 ... are "
                "both, so a symbol beginning with one of them loses its first character when read back", [t["loc"]])
        if k == 0:
            rep.anchor_lost(rule, "whitespace-consuming arm of lex::scan")
    p = need(rep, rule, facts, "marwood::parse::parse")
    if p is not None:
        trims = [t for bb, t in p.calls() if re.search(r"<impl str>::(trim\w*|strip_\w+)$", callee(t) or "")]
        key = rule + "|parse|string-delimiters-by-position"
        if trims:
            rep.fail(rule, key, "parse strips the delimiters of a string token with %s: every trailing quote goes, also the escaped "
                     "one of a string that ends in \\\", and the body then ends in a lone backslash" % short_path(callee(trims[0])).rsplit("::", 1)[-1],
                     [trims[0]["loc"]])
        else:
            rep.ok(rule, key, "parse calls no trim / strip function on a token's text", [p.span])


def r11q(ctx, rep, rule="R11q"):
    """converse of R11a: Incomplete is said only where the token cursor ran out"""
    facts = ctx["facts"]
    rep.rule(rule, "a complete datum is never reported incomplete: parse::Error::Incomplete means 'the tokens stop inside a datum', "
             "and the front ends answer it by waiting for more text. Every construction of that variant, anywhere in the library, "
             "therefore sits on the end-of-cursor edge of the *token* cursor: it is the argument of an ok_or whose receiver is the "
             "cursor's next()/peek(), or it lies in the None arm of a match on one. A construction under any other condition (the "
             "end of a character iterator inside one token, say) reports a datum whose tokens are all there as unfinished.")
    n = 0

    def token_cursor_call(fn, t):
        if callee(t) not in PEEK_NEXT or not t["args"]:
            return False
        p = op_place(t["args"][0])
        ty = (p or {}).get("ty") or ""
        return "Chars" not in ty and "CharIndices" not in ty and "Peekable<" in ty

    for path, fn in sorted(facts.fns.items()):
        if not path.startswith("marwood::"):
            continue
        sites = [(bb, j, s) for bb, j, s in fn.stmts() if s["rv"]["k"] == "agg" and s["rv"].get("adt") == "marwood::parse::Error"
                 and s["rv"].get("variant") == "Incomplete"]
        if not sites:
            continue
        curs = [(bb, t) for bb, t in fn.calls() if token_cursor_call(fn, t)]
        none_regions = set()
        for cb, ct in curs:
            if ct["dest"]["p"]:
                continue
            d = ct["dest"]["l"]
            for bb, j, s in fn.stmts():
                if s["rv"]["k"] == "disc" and s["rv"]["place"]["l"] == d:
                    dl = s["lhs"]["l"]
                    for b2, blk in enumerate(fn.blocks):
                        t2 = blk["term"]
                        if t2["k"] == "switch" and op_place(t2["op"]) and op_place(t2["op"])["l"] == dl:
                            for v, tg in t2["targets"]:
                                if v == 0 and tg != t2.get("otherwise") and len([q for q in fn.pred[tg] if q in fn.reachable()]) == 1:
                                    none_regions |= {b for b in fn.reachable() if fn.dominates(tg, b)}
        k = 0
        for bb, j, s in sites:
            k += 1
            n += 1
            key = "%s|%s|incomplete#%d" % (rule, fn.path.rsplit("::", 1)[-1] if "{closure" not in fn.path else fn.short, k)
            ok = bb in none_regions
            if not ok:
                for cb, ct in fn.calls():
                    if (callee(ct) or "").startswith("std::option::Option::<T>::ok_or") and len(ct["args"]) > 1:
                        o = fn.origin(ct["args"][1])
                        if o[0] == "rv" and o[1] is s:
                            r = fn.origin(ct["args"][0])
                            if r[0] == "call" and token_cursor_call(fn, r[1]):
                                ok = True
            (rep.ok if ok else rep.fail)(
                rule, key, "%s says Incomplete on the end-of-tokens edge of the token cursor" % fn.short if ok else
                "%s constructs parse::Error::Incomplete where the token cursor has not run out: a datum whose tokens are all "
                "present is reported as unfinished, and a front end that waits for more text on Incomplete never gets out" % fn.short,
                [s["loc"]])
    rep.floor(rule, "constructions of parse::Error::Incomplete", n, 6)


def r11r(ctx, rep, rule="R11r"):
    """sibling scanners agree on what ends a numeral"""
    from .. import shapes
    facts = ctx["facts"]
    rep.rule(rule, "one atom, one token: scan_number and scan_dot both scan what begins like a number (12ab / .5g). When a character "
             "turns up that no numeral contains but an identifier may, the token goes on as a symbol — in both scanners: inside "
             "the scanning loop of each there is an assignment of TokenType::Symbol on the true edge of is_subsequent_identifier. "
             "A scanner that ends the token there instead splits one written atom into two data (.5g read as 0.5 and g; "
             "(define .dx 5) had four operands).")
    for nm in ("scan_number", "scan_dot"):
        f = need(rep, rule, facts, "marwood::lex::" + nm)
        if f is None:
            continue
        body = set()
        for src, h in f.back_edges():
            body |= (f.reach_from(h) & f.reach_back(src)) | {h, src}
        hits = []
        for bb, j, st in f.stmts():
            rv = st["rv"]
            sym = False
            if rv["k"] == "agg" and (rv.get("adt") or "").endswith("lex::TokenType") and rv.get("variant") == "Symbol":
                sym = True
            if rv["k"] == "use":
                c = op_const(rv["a"])
                if c is not None and "TokenType::Symbol" in (c.get("text") or ""):
                    sym = True
            if not sym or bb not in body:
                continue
            gs = shapes.guard_shapes(f, bb, None, 3)
            if any(re.search(r"is_subsequent_identifier\(.*\)=T$", g) for g in gs):
                hits.append(st["loc"])
        key = "%s|%s|goes-on-as-symbol" % (rule, nm)
        (rep.ok if hits else rep.fail)(
            rule, key, "%s lets a numeral that meets an identifier character go on as a symbol" % nm if hits else
            "%s never turns the token into a symbol on meeting an identifier character inside its loop: the token ends there and "
            "the rest of the atom is read as a second datum" % nm, hits or [f.span])


def run(ctx, rep):
    r11a(ctx, rep)
    r11b(ctx, rep)
    tables.r11c(ctx, rep)
    tables.r11f(ctx, rep)
    tables.r11j(ctx, rep, rule="R11j")
    from . import C06
    C06.r06a_restricted(ctx, rep, "R11p", ["marwood::lex::", "marwood::parse::", "marwood::number::Number::parse"],
                        "the reader is total", 30)
    r11e(ctx, rep)
    r11g(ctx, rep)
    r11h(ctx, rep)
    r11i(ctx, rep)
    r11k(ctx, rep)
    from . import scanloop
    scanloop.r11l(ctx, rep)
    r11m(ctx, rep)
    r11n(ctx, rep)
    r11q(ctx, rep)
    r11r(ctx, rep)
    from . import units
    units.r15a(ctx, rep, rule="R11d", scope=("marwood::lex::", "marwood::parse::", "marwood::syntax::"))
    rep.rules["R11d"] = "span units: " + rep.rules["R11d"]
    rep.not_decided += ["termination of every scanner loop (a path-insensitive consume-analysis flags scan_symbol / "
                        "scan_number, whose first iteration consumes by a start != end argument it cannot see)",
                        "strict ordering / non-emptiness of tokens", "exactly-one-datum-per-parse"]
