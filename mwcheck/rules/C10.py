"""C10 — written data reads back as the same data: printer/reader escape-table agreement (R10a-b), write-mode
propagation (R10d)."""
import ast

from ..facts import callee, op_const, op_place, short_path
from .common import *
from . import tables

CELL_FMT = "<marwood::cell::Cell as std::fmt::Display>::fmt"
PARSE_STRING = "marwood::parse::parse_string"
WRITE_CHAR = "marwood::char::write_escaped_char"
NAMED = "marwood::char::named_to_char"
ALTERNATE_FLAG = 1 << 23
HEX_CTOR = "new_lower_hex"


class TemplateError(Exception):
    pass


def decode_template(text):
    """decode a fmt::Arguments template byte string (as printed by rustc) into pieces:
    ('lit', str) | ('arg', flags or None)"""
    try:
        raw = ast.literal_eval(text)
    except Exception as e:
        raise TemplateError("unreadable template %r: %s" % (text, e))
    if not isinstance(raw, (bytes, bytearray)):
        raise TemplateError("template is not a byte string: %r" % text)
    out = []
    i = 0
    while i < len(raw):
        n = raw[i]
        i += 1
        if n == 0:
            if i == len(raw):
                return out
            raise TemplateError("zero byte before the end of the template")
        if n < 0x80:
            out.append(("lit", raw[i:i + n].decode("utf-8")))
            i += n
        elif n == 0x80:
            ln = raw[i] | (raw[i + 1] << 8)
            out.append(("lit", raw[i + 2:i + 2 + ln].decode("utf-8")))
            i += 2 + ln
        elif n >= 0xC0:
            flags = None
            if n & 1:
                flags = int.from_bytes(raw[i:i + 4], "little")
                i += 4
            for bit in (2, 4, 8):
                if n & bit:
                    i += 2
            out.append(("arg", flags))
        else:
            raise TemplateError("unknown template opcode 0x%02x" % n)
    raise TemplateError("template not terminated")


def first_template(fn, start, stop=(), limit=14):
    """the first formatting template emitted on the region starting at `start`: list of pieces, plus the
    Argument constructors used (new_display / new_lower_hex ..)"""
    seen, order = {start}, [start]
    i = 0
    ctors = []
    while i < len(order) and len(order) < limit:
        b = order[i]
        i += 1
        blk = fn.blocks[b]
        tmpl = None
        for s in blk["stmts"]:
            c = op_const(s["rv"].get("a")) if s["rv"]["k"] == "use" else None
            if c is not None and c.get("ty", "").startswith("&[u8;") and c.get("text", "").startswith("b\""):
                tmpl = decode_template(c["text"])
        t = blk["term"]
        if t["k"] == "call":
            c = callee(t) or ""
            if "fmt::rt::Argument" in c:
                ctors.append(c.rsplit("::", 1)[-1])
            if c == "std::fmt::Arguments::<'a>::from_str":
                k = op_const(t["args"][0])
                if k is not None and "str" in k:
                    return [("lit", k["str"])], ctors
            if c == "std::fmt::Arguments::<'a>::new" and tmpl is not None:
                return tmpl, ctors
        if tmpl is not None and t["k"] == "call" and (callee(t) or "").startswith("std::fmt::Arguments"):
            return tmpl, ctors
        for s_ in fn.succ[b]:
            if s_ not in seen and s_ not in stop:
                seen.add(s_)
                order.append(s_)
    return None, ctors


def printer_string_table(facts, fn):
    """scalar (or 'control'/'other') -> template pieces, from the write-mode String arm of Display for Cell"""
    out = {}
    sws = [x for x in tables.char_switches(fn)]
    # the switch on the string's characters: the one whose values include '"' and '\\'
    cs = [x for x in sws if 34 in x[1] and 92 in x[1]]
    if not cs:
        return None
    bb, arms, other, t = cs[0]
    targets = set(arms.values()) | {other}
    for v, tg in arms.items():
        out[v] = first_template(fn, tg, stop=targets - {tg})
    # the guard chain after the switch: `it as u32 == K` comparisons and is_control()
    cur = other
    for _ in range(16):
        blk = fn.blocks[cur]
        term = blk["term"]
        if term["k"] == "switch":
            o = fn.origin(term["op"])
            if o[0] == "rv" and o[1]["rv"]["k"] == "bin" and o[1]["rv"]["op"] == "Eq":
                c = op_const(o[1]["rv"]["b"]) or op_const(o[1]["rv"]["a"])
                tru = term["otherwise"]
                fls = [tg for v, tg in term["targets"] if v == 0]
                if c is not None and "int" in c:
                    out[c["int"]] = first_template(fn, tru, stop=set(fls))
                cur = fls[0] if fls else None
                if cur is None:
                    break
                continue
            if o[0] == "call" and (callee(o[1]) or "").endswith("is_control"):
                tru = term["otherwise"]
                fls = [tg for v, tg in term["targets"] if v == 0]
                out["control"] = first_template(fn, tru, stop=set(fls))
                if fls:
                    out["other"] = first_template(fn, fls[0], stop={tru})
                break
            break
        nxt = [s_ for s_ in fn.succ[cur] if not fn.blocks[s_].get("cleanup")]
        if len(nxt) != 1:
            break
        cur = nxt[0]
    return out


def reader_string_table(facts, fn):
    """escape letter (code point) -> decoded scalar, from parse_string; plus facts about the \\x form"""
    out = {}
    sws = [x for x in tables.char_switches(fn) if 92 in x[1] and 110 in x[1]]
    if not sws:
        return None, {}
    bb, arms, other, t = sws[0]
    targets = set(arms.values()) | {other}
    xinfo = {}
    for v, tg in arms.items():
        # the value pushed: a char constant or char::from_u32(const).unwrap()
        val = None
        seen, order = {tg}, [tg]
        i = 0
        while i < len(order) and len(order) < 8 and val is None:
            b = order[i]
            i += 1
            blk = fn.blocks[b]
            for s in blk["stmts"]:
                c = op_const(s["rv"].get("a")) if s["rv"]["k"] == "use" else None
                if c is not None and c.get("ty") == "char" and "int" in c:
                    val = c["int"]
            tt = blk["term"]
            if tt["k"] == "call" and callee(tt) == "std::char::methods::<impl char>::from_u32":
                c = op_const(tt["args"][0])
                if c is not None and "int" in c:
                    val = c["int"]
            for s_ in fn.succ[b]:
                if s_ not in seen and s_ not in targets:
                    seen.add(s_)
                    order.append(s_)
        out[v] = val
    # \x: radix of to_digit and the terminator it waits for
    for bb2, t2 in fn.calls():
        if callee(t2) == "std::char::methods::<impl char>::to_digit":
            c = op_const(t2["args"][1])
            if c is not None:
                xinfo["radix"] = c.get("int")
    for x in tables.char_switches(fn):
        if 59 in x[1] and 92 not in x[1]:
            xinfo["terminator"] = 59
    for bb2, j, s in fn.stmts():
        rv = s["rv"]
        if rv["k"] == "bin" and rv["op"] == "Eq":
            for o in (rv["a"], rv["b"]):
                c = op_const(o)
                if c is not None and c.get("ty") == "char" and c.get("int") == 59:
                    xinfo["terminator"] = 59
    xinfo["default_is_identity"] = other is not None
    return out, xinfo


def r10a(ctx, rep):
    facts = ctx["facts"]
    rep.rule("R10a", "string escapes: the table the printer uses in write mode ({scalar -> escape text}, recovered from the "
             "character switch, the `as u32 ==` chain and the is_control branch of Display for Cell, with format templates "
             "decoded) and the table the reader uses ({escape letter -> scalar}, recovered from parse_string) agree: every "
             "escape the printer can emit is decoded back to the same scalar, and the \\x..; form agrees on radix and "
             "terminator.")
    pf = need(rep, "R10a", facts, CELL_FMT)
    rf = need(rep, "R10a", facts, PARSE_STRING)
    if pf is None or rf is None:
        return
    try:
        pt = printer_string_table(facts, pf)
    except TemplateError as e:
        rep.anchor_lost("R10a", "format template decoding failed: %s" % e)
        return
    rt, xinfo = reader_string_table(facts, rf)
    if not pt or rt is None:
        rep.anchor_lost("R10a", "printer string-escape switch / reader escape switch")
        return
    rep.floor("R10a", "printer escape entries", len(pt), 11)
    rep.floor("R10a", "reader escape entries", len(rt), 10)
    for k, (tmpl, ctors) in sorted(pt.items(), key=lambda kv: str(kv[0])):
        key = "R10a|print|%s" % (("U+%04X" % k) if isinstance(k, int) else k)
        if tmpl is None:
            rep.fail("R10a", key, "no format template found for the printer's arm %s" % k, [pf.span], kind="anchor-lost")
            continue
        text = "".join(p[1] if p[0] == "lit" else "{}" for p in tmpl)
        if k == "other":
            ok = text == "{}"
            (rep.ok if ok else rep.fail)("R10a", key, "ordinary characters are written as themselves" if ok else
                                         "ordinary characters are written as %r" % text, [pf.span])
            continue
        if not text.startswith("\\"):
            rep.fail("R10a", key, "the printer writes %s as %r, which is not an escape: the reader takes it literally or "
                     "ends the string" % (key.split("|")[-1], text), [pf.span])
            continue
        body = text[1:]
        if k == "control":
            ok = body.startswith("x") and body.endswith(";") and HEX_CTOR in ctors and xinfo.get("radix") == 16 and \
                xinfo.get("terminator") == 59 and 120 in rt
            (rep.ok if ok else rep.fail)(
                "R10a", key, "other control characters are written \\x<lower hex>; and the reader decodes \\x with radix 16 up to ';'"
                if ok else "control characters are written as %r (formatter %s) but the reader's \\x form uses radix %s and "
                "terminator %r: the written text does not read back" % (text, ctors, xinfo.get("radix"),
                                                                          chr(xinfo["terminator"]) if xinfo.get("terminator") else None),
                [pf.span])
            continue
        if body == "{}":
            # the character itself after a backslash: the reader must map it to itself (explicitly or by default)
            got = rt.get(k, k if xinfo.get("default_is_identity") and k not in rt else None)
            ok = got == k
            (rep.ok if ok else rep.fail)("R10a", key, "%r is written as backslash + itself and read back as itself" % chr(k) if ok else
                                         "%r is written as backslash + itself but the reader decodes that escape to %s" % (
                                             chr(k), ("U+%04X" % got) if got is not None else "nothing"), [pf.span])
            continue
        if len(body) == 1:
            letter = ord(body)
            got = rt.get(letter)
            ok = got == k
            (rep.ok if ok else rep.fail)("R10a", key, "U+%04X is written \\%s and \\%s reads back as U+%04X" % (k, body, body, k) if ok else
                                         "U+%04X is written \\%s but the reader decodes \\%s to %s" % (
                                             k, body, body, ("U+%04X" % got) if got is not None else "the letter itself"), [pf.span])
            continue
        rep.fail("R10a", key, "unrecognised escape text %r for %s" % (text, k), [pf.span])


def r10b(ctx, rep):
    facts = ctx["facts"]
    rep.rule("R10b", "character names: every name char::write_escaped_char can write (#\\space, #\\newline, the named "
             "controls) is mapped back to the same scalar by char::named_to_char, and the #\\x<hex> form is written in the "
             "radix parse_char reads (16).")
    wf = need(rep, "R10b", facts, WRITE_CHAR)
    nf = need(rep, "R10b", facts, NAMED)
    pc = need(rep, "R10b", facts, "marwood::parse::parse_char")
    if None in (wf, nf, pc):
        return
    # reader: name -> scalar
    names = {}
    for sconst, bb, t in tables.str_eq_consts(nf):
        sw = nf.blocks[t["target"]]["term"] if t.get("target") is not None else None
        if not sw or sw["k"] != "switch":
            continue
        tru = sw["otherwise"]
        val = None
        seen, order = {tru}, [tru]
        i = 0
        while i < len(order) and len(order) < 6 and val is None:
            b = order[i]
            i += 1
            blk = nf.blocks[b]
            for s in blk["stmts"]:
                for o in ([s["rv"].get("a")] if s["rv"]["k"] == "use" else s["rv"].get("ops", [])):
                    c = op_const(o) if o else None
                    if c is not None and c.get("ty") == "char" and "int" in c:
                        val = c["int"]
            tt = blk["term"]
            if tt["k"] == "call" and callee(tt) == "std::char::methods::<impl char>::from_u32":
                c = op_const(tt["args"][0])
                if c is not None:
                    val = c.get("int")
            for s_ in nf.succ[b]:
                if s_ not in seen:
                    seen.add(s_)
                    order.append(s_)
        names[sconst] = val
    rep.floor("R10b", "names known to named_to_char", len(names), 9)
    # printer: scalar -> text
    try:
        entries = {}
        for bb, arms, other, t in tables.char_switches(wf):
            targets = set(arms.values()) | {other}
            for v, tg in arms.items():
                entries[v] = first_template(wf, tg, stop=targets - {tg})
        for bb, b in enumerate(wf.blocks):
            t = b["term"]
            if t["k"] == "switch" and t.get("opty") == "u32":
                targets = {tg for _, tg in t["targets"]} | {t["otherwise"]}
                for v, tg in t["targets"]:
                    entries[v] = first_template(wf, tg, stop=targets - {tg})
        hexform = None
        for bb, t in wf.calls():
            if (callee(t) or "").endswith("is_control") and t.get("target") is not None:
                sw = wf.blocks[t["target"]]["term"]
                if sw["k"] == "switch":
                    hexform = first_template(wf, sw["otherwise"], stop={tg for v, tg in sw["targets"]})
    except TemplateError as e:
        rep.anchor_lost("R10b", "format template decoding failed: %s" % e)
        return
    rep.floor("R10b", "named characters the printer can write", len(entries), 9)
    for v, (tmpl, ctors) in sorted(entries.items()):
        key = "R10b|name|U+%04X" % v
        if tmpl is None:
            rep.fail("R10b", key, "no format template found for U+%04X" % v, [wf.span], kind="anchor-lost")
            continue
        text = "".join(p[1] if p[0] == "lit" else "{}" for p in tmpl)
        if not text.startswith("#\\"):
            rep.fail("R10b", key, "U+%04X is written as %r, which is not a character literal" % (v, text), [wf.span])
            continue
        nm = text[2:]
        got = names.get(nm)
        ok = got == v
        (rep.ok if ok else rep.fail)("R10b", key, "U+%04X is written #\\%s and named_to_char(%r) is U+%04X" % (v, nm, nm, v) if ok else
                                     "U+%04X is written #\\%s but the reader maps that name to %s" % (
                                         v, nm, ("U+%04X" % got) if got is not None else "nothing (UnknownChar)"), [wf.span])
    radix = None
    for bb, t in pc.calls():
        if (callee(t) or "").endswith("from_str_radix"):
            c = op_const(t["args"][-1])
            radix = c.get("int") if c else None
    if hexform is None or hexform[0] is None:
        rep.anchor_lost("R10b", "#\\x form of write_escaped_char")
    else:
        text = "".join(p[1] if p[0] == "lit" else "{}" for p in hexform[0])
        ok = text == "#\\x{}" and HEX_CTOR in hexform[1] and radix == 16
        (rep.ok if ok else rep.fail)("R10b", "R10b|hex-form", "control characters are written #\\x<lower hex> and parse_char reads "
                                     "that form with radix 16" if ok else "control characters are written %r (%s) but parse_char "
                                     "reads #\\x with radix %s" % (text, hexform[1], radix), [wf.span])


def r10d(ctx, rep):
    facts = ctx["facts"]
    rep.rule("R10d", "write mode reaches nested data: in Display for Cell every recursive formatting of a sub-datum (an "
             "Argument built for a Cell / Box<Cell>, or a direct Display::fmt call) either passes the caller's formatter "
             "on, or sits under a branch on Formatter::alternate() with an alternate ({:#}) placeholder on the true edge "
             "and a plain one on the false edge. Otherwise strings and characters inside lists, vectors or quote forms are "
             "written in display mode and do not read back.")
    fn = need(rep, "R10d", facts, CELL_FMT)
    if fn is None:
        return
    alts = []
    for bb, t in fn.calls():
        if callee(t) == "std::fmt::Formatter::<'a>::alternate" and t.get("target") is not None:
            sw = fn.blocks[t["target"]]["term"]
            if sw["k"] == "switch":
                fls = [tg for v, tg in sw["targets"] if v == 0]
                alts.append((t["target"], sw["otherwise"], fls[0] if fls else None))
    n = 0
    try:
        for bb, t in fn.calls():
            c = callee(t) or ""
            fa = t.get("fnargs") or ""
            if "fmt::rt::Argument" in c and ("cell::Cell" in fa):
                n += 1
                # find the Arguments::new that consumes it (same straight-line region) and its template
                tmpl, _ = first_template(fn, bb, limit=8)
                flags = [p[1] for p in (tmpl or []) if p[0] == "arg"]
                on_true = any(tr is not None and (bb == tr or fn.dominates(tr, bb)) for _, tr, fl in alts)
                on_false = any(fl is not None and (bb == fl or fn.dominates(fl, bb)) for _, tr, fl in alts)
                alt = bool(flags) and all(f_ is not None and f_ & ALTERNATE_FLAG for f_ in flags)
                plain = bool(flags) and all(f_ is None or not (f_ & ALTERNATE_FLAG) for f_ in flags)
                key = "R10d|nested-format#%d" % n
                if on_true and alt and not on_false:
                    rep.ok("R10d", key, "sub-datum formatted with {:#} on the alternate() edge", [t["loc"]])
                elif on_false and plain and not on_true:
                    rep.ok("R10d", key, "sub-datum formatted with {} on the non-alternate edge", [t["loc"]])
                else:
                    rep.fail("R10d", key, "a sub-datum is formatted %s %s: nested strings and characters lose (or gain) their "
                             "write-mode escapes" % ("with {:#}" if alt else "with {}" if plain else "with mixed flags",
                                                     "on the alternate() edge" if on_true else "on the non-alternate edge" if on_false
                                                     else "without consulting alternate()"), [t["loc"]])
            elif c == CELL_FMT:
                n += 1
                # direct recursive call: the formatter argument must be the caller's
                o = fn.origin(t["args"][1])
                ok = o[0] == "arg" and o[1] == 2
                (rep.ok if ok else rep.fail)("R10d", "R10d|direct-recursion#%d" % n,
                                             "direct recursive Display::fmt passes the caller's formatter on" if ok else
                                             "direct recursive Display::fmt does not pass the caller's formatter", [t["loc"]])
    except TemplateError as e:
        rep.anchor_lost("R10d", "format template decoding failed: %s" % e)
        return
    rep.floor("R10d", "recursive formatting sites in Display for Cell", n, 12)


def _float_of(c):
    import struct
    if c is None or "int" not in c:
        return None
    if c.get("float"):
        try:
            return struct.unpack("<d", int(c["int"]).to_bytes(8, "little"))[0]
        except (OverflowError, struct.error):
            return None
    return float(c["int"])


def r10e(ctx, rep):
    from ..shapes import dominating_guards
    facts = ctx["facts"]
    rep.rule("R10e", "exponent notation stays inside the scanner's number class: lex::is_subsequent_number accepts digits, hex "
             "digits (hence 'e'), '.' and '/', but no sign after the first character, so a float written with a negative "
             "exponent (1e-12) is scanned as a symbol. In Display for Number every use of the {:e} formatter must therefore "
             "lie on the true edge of a comparison `value > C` with C >= 1 (non-negative exponent), and that edge must "
             "dominate it.")
    fn = need(rep, "R10e", facts, "<marwood::number::Number as std::fmt::Display>::fmt")
    sub = facts.fn("marwood::lex::is_subsequent_number")
    if fn is None:
        return
    # premise: the scanner's class has no '-' / '+'
    if sub is not None:
        signs = set()
        for bb, j, s in sub.stmts():
            rv = s["rv"]
            if rv["k"] == "bin" and rv["op"] == "Eq":
                for o in (rv["a"], rv["b"]):
                    c = op_const(o)
                    if c is not None and c.get("ty") == "char":
                        signs.add(c.get("int"))
        if 45 in signs:
            rep.ok("R10e", "R10e|premise", "the scanner's number class now accepts '-' after the first character; negative "
                   "exponents are readable and the rule is vacuous", [sub.span], nontrivial=False)
            return
    sites = [(bb, t) for bb, t in fn.calls() if (callee(t) or "").endswith("new_lower_exp") or (callee(t) or "").endswith("new_upper_exp")]
    rep.floor("R10e", "uses of exponent formatting in Display for Number", len(sites), 1)
    for i, (bb, t) in enumerate(sites):
        ok = False
        for g_bb, cond, taken, gt in dominating_guards(fn, bb):
            go = fn.origin(cond)
            if go[0] == "rv" and go[1]["rv"]["k"] == "bin" and go[1]["rv"]["op"] in ("Gt", "Ge") and taken == "else":
                c = _float_of(op_const(go[1]["rv"]["b"]))
                if c is not None and c >= 1.0:
                    ok = True
            if go[0] == "rv" and go[1]["rv"]["k"] == "bin" and go[1]["rv"]["op"] in ("Lt", "Le") and taken == "else":
                c = _float_of(op_const(go[1]["rv"]["a"]))
                if c is not None and c >= 1.0:
                    ok = True
        key = "R10e|lower_exp#%d" % (i + 1)
        (rep.ok if ok else rep.fail)("R10e", key, "{:e} is used only for values above a bound >= 1 (non-negative exponent)" if ok else
                                     "{:e} can format a value that is not known to be >= 1: it prints a negative exponent "
                                     "(e.g. 1e-12), which the scanner reads as a symbol, not a number", [t["loc"]])


def r10h(ctx, rep, rule="R10h"):
    facts = ctx["facts"]
    rep.rule(rule, "a character written as itself is read as itself: the printer writes every printable character as #\\<char>, "
             "including #\\x; in parse_char the hexadecimal decoding (from_str_radix(.., 16)) is therefore reachable only after "
             "the single-character spelling was ruled out — through the `!= 1` edge of a test of the literal's character "
             "count, or through a test that at least one digit follows the x. An `all digits are hex` test alone is vacuously "
             "true for the empty string, and #\\x would be decoded as an empty hex escape.")
    f = need(rep, rule, facts, "marwood::parse::parse_char")
    if f is None:
        return
    sites = [(bb, t) for bb, t in f.calls() if (callee(t) or "").endswith("from_str_radix")]
    if not sites:
        rep.anchor_lost(rule, "from_str_radix in parse_char")
        return
    cut = set()
    for bb, blk in enumerate(f.blocks):
        tt = blk["term"]
        if tt["k"] != "switch" or blk.get("cleanup"):
            continue
        o = f.origin(tt["op"])
        vals = dict((v, tg) for v, tg in tt["targets"])
        if o[0] == "rv" and o[1]["rv"]["k"] == "bin":
            rv = o[1]["rv"]
            a, b = f.origin(rv["a"]), f.origin(rv["b"])
            cnt = a if a[0] == "call" and (callee(a[1]) or "").endswith(("::count", "::len")) else None
            c = op_const(rv["b"]) or (b[1] if b[0] == "const" else None)
            if cnt is not None and c is not None and "int" in c:
                n = int(c["int"])
                false_t = vals.get(0, tt["otherwise"] if 0 not in vals else None)
                true_t = tt["otherwise"] if 0 in vals else vals.get(1)
                if rv["op"] == "Eq" and n == 1 and false_t is not None:
                    cut.add((bb, false_t))           # count != 1
                if rv["op"] == "Ne" and n == 1 and true_t is not None:
                    cut.add((bb, true_t))
                if rv["op"] in ("Gt", "Ge") and ((rv["op"] == "Gt" and n >= 1) or (rv["op"] == "Ge" and n >= 2)) and true_t is not None:
                    cut.add((bb, true_t))            # more than one character / at least one digit
        if o[0] == "call" and (callee(o[1]) or "").endswith("::is_empty"):
            false_t = vals.get(0, tt["otherwise"] if 0 not in vals else None)
            if false_t is not None:
                cut.add((bb, false_t))
    seen = {0}
    st_ = [0]
    while st_:
        b0 = st_.pop()
        for y in f.succ[b0]:
            if (b0, y) in cut or y in seen:
                continue
            seen.add(y)
            st_.append(y)
    # the emptiness / length test may sit in a closure that filters the digit string (Option::filter, bool::then ...)
    closure_test = False
    for cl in facts.closures_of(f):
        for bb, t in cl.calls():
            if (callee(t) or "").endswith("::is_empty"):
                closure_test = True
        for bb, j, st in cl.stmts():
            rv = st["rv"]
            if rv["k"] == "bin" and rv["op"] in ("Gt", "Ge", "Ne", "Eq", "Lt", "Le"):
                a = cl.origin(rv["a"])
                if a[0] == "call" and (callee(a[1]) or "").endswith(("::count", "::len")):
                    closure_test = True
    for i, (bb, t) in enumerate(sites):
        ok = bb not in seen or closure_test
        (rep.ok if ok else rep.fail)(rule, "%s|parse_char|hex#%d" % (rule, i + 1),
                                     "the hex decoding is reached only after the single-character spelling was ruled out" if ok else
                                     "parse_char can reach the hexadecimal decoding for a literal of one character: #\\x, which the printer "
                                     "emits for the character x, is decoded as an empty hex escape and rejected", [t["loc"]])


def r10j(ctx, rep, rule="R10j"):
    facts = ctx["facts"]
    rep.rule(rule, "the \\x<hex>; decoder rejects no particular code point: in parse_string the value accumulated from the hex "
             "digits (the u32 fed by checked_mul / checked_add) is judged only by the overflow checks and by char::from_u32; "
             "no branch compares it with a constant. The writer emits every control character — U+0000 included — as a hex "
             "escape, so a test such as `value == 0` (used as a stand-in for 'no digits seen') makes that character "
             "unreadable.")
    f = need(rep, rule, facts, "marwood::parse::parse_string")
    if f is None:
        return
    acc = set()
    for l, ty in enumerate(f.locals):
        if ty != "u32" or l not in f.names:
            continue
        for d in f.defs().get(l, []):
            if d[2] == "partial":
                continue
            src = d[3]["rv"].get("a") if d[2] == "assign" and d[3]["rv"]["k"] == "use" else None
            o = f.origin(src) if src is not None else (("call", d[3]) if d[2] == "call" else None)
            for _ in range(4):
                if not (o and o[0] == "call"):
                    break
                if re.search(r"checked_(mul|add)$", callee(o[1]) or ""):
                    acc.add(l)
                    break
                o = f.origin(o[1]["args"][0]) if o[1]["args"] else None
    if not acc:
        rep.anchor_lost(rule, "no u32 accumulator fed by checked_mul / checked_add in parse_string")
        return
    bad = []
    for bb, j, st in f.stmts():
        rv = st["rv"]
        if rv["k"] == "bin" and rv["op"] in ("Eq", "Ne", "Lt", "Le", "Gt", "Ge"):
            for x, y in ((rv["a"], rv["b"]), (rv["b"], rv["a"])):
                ox = f.origin(x)
                if ox[0] == "local" and ox[1] in acc and not ox[2] and op_const(y) is not None:
                    bad.append((st, op_const(y)))
    key = "%s|parse_string|accumulator-compared" % rule
    if bad:
        rep.fail(rule, key, "parse_string compares the code point accumulated by a \\x escape with the constant %s: the decoder treats "
                 "that particular value specially, so the character with that scalar value — which the writer emits as a hex "
                 "escape — no longer reads back" % bad[0][1].get("text", bad[0][1].get("int")), [bad[0][0]["loc"]])
    else:
        rep.ok(rule, key, "the accumulated code point (%s) is judged only by checked arithmetic and char::from_u32" % ", ".join(
            sorted(f.local_name(l) for l in acc)), [f.span])


def run(ctx, rep):
    r10a(ctx, rep)
    r10e(ctx, rep)
    r10b(ctx, rep)
    r10d(ctx, rep)
    r10h(ctx, rep)
    r10j(ctx, rep)
    from . import C11
    C11.r11g(ctx, rep, rule="R10i")
    C11.r11k(ctx, rep, rule="R10k")
    C11.r11n(ctx, rep, rule="R10l")
    rep.rules["R10k"] = "the reader produces no symbol whose written form is a number, bracket or string: " + rep.rules["R10k"]
    rep.rules["R10i"] = "what the printer writes can be sliced back out of the text: " + rep.rules["R10i"]
    from . import numeric
    numeric.r16e(ctx, rep, rule="R10f")
    from . import C18
    from .common import borrow
    borrow(ctx, rep, "R10g", "a quoted symbol survives the trip through the heap: literal data is interned through the symbol table, so the "
           "table must be edited wherever a cell is freed (C18's R18a one way in, R18b table follows the sweeper, R18b2 only "
           "Heap::free frees). A stale entry makes a later (quote d) evaluate to whatever reused the slot.",
           [C18.r18a, C18.r18b, C18.r18b2], ["R18a", "R18b"])
    rep.not_decided += ["numbers (formatting switches at 1E10 and {:e} are run-time behaviour of std/num)",
                        "symbols and delimiters", "container nesting and idempotence of write . read",
                        "the trip source text -> heap -> result -> text for concrete data"]
