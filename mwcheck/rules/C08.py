"""C08 — exact arithmetic is exact (checked-arithmetic discipline, R08a-c)."""
from . import numeric


def run(ctx, rep):
    numeric.r08a(ctx, rep)
    numeric.r08c(ctx, rep)
    numeric.r08d(ctx, rep)
    numeric.r09c_iszero(ctx, rep) if hasattr(numeric, "r09c_iszero") else None
    rep.not_decided += ["numerical results (a checked operation whose fallback computes the wrong value)",
                        "the 2^-50 error bound of inexact fallbacks", "representation independence of results",
                        "whether an inexact fallback is taken only when the exact result is unrepresentable"]
