"""C08 — exact arithmetic is exact (checked-arithmetic discipline, R08a-c)."""
from . import numeric


def run(ctx, rep):
    numeric.r08a(ctx, rep)
    numeric.r08c(ctx, rep)
    numeric.r08d(ctx, rep)
    numeric.r08e(ctx, rep)
    numeric.r08g(ctx, rep)
    numeric.r08h(ctx, rep)
    numeric.r08j(ctx, rep)
    numeric.r08k(ctx, rep)
    numeric.r08m(ctx, rep)
    numeric.r08n(ctx, rep)
    numeric.r08p(ctx, rep)
    numeric.r08q(ctx, rep)
    numeric.r08r(ctx, rep)
    numeric.r08s(ctx, rep)
    numeric.r08t(ctx, rep)
    numeric.r08u(ctx, rep)
    # R08f: the zero test the division procedures guard with
    sub = type(rep)(rep.prop)
    numeric.r09c(ctx, sub)
    rep.rule("R08f", "an exact zero divisor is rejected in every representation: Number::is_zero, the guard of /, quotient, "
             "remainder and modulo, decides through Number's PartialEq (so 0, 0/1, 0.0 and a zero bignum are all zero), not by "
             "inspecting one representation; otherwise (/ 7 z) for an exact zero z carried as 0/1 returns +inf.")
    got = False
    for o in sub.obs:
        if o.key == "R09c|Number::is_zero":
            o.rule, o.key = "R08f", "R08f|Number::is_zero"
            rep.obs.append(o)
            got = True
    if not got:
        rep.anchor_lost("R08f", "no obligation on Number::is_zero")
    rep.not_decided += ["numerical results (a checked operation whose fallback computes the wrong value)",
                        "the 2^-50 error bound of inexact fallbacks", "representation independence of results",
                        "whether an inexact fallback is taken only when the exact result is unrepresentable"]
