"""C14 — list and vector procedures preserve identity (R14a-b)."""
from ..facts import callee, op_place, op_const, short_path
from ..flow import Labels, places_read
from ..shapes import dominating_guards
from .common import *

SOURCES = {HEAP + "get": "Heap::get", RUN + "pop": "Vm::pop"}
CLEAN_CALLS = ("::as_car", "::as_cdr", "VCell::ptr", "VCell::pair", "Heap::put", "Heap::maybe_put", "Heap::put_cell",
               "Heap::maybe_put_cell", "VCell::vector", "VCell::string", "VCell::number", "VCell::symbol", "VCell::nil",
               "VCell::void", "VCell::undefined", "VCell::builtin", "VCell::lambda", "::into")
SINKS = {
    "marwood::vm::vector::Vector::put": (2, "stored into a vector"),
    "marwood::vm::vector::Vector::push": (1, "pushed onto a vector"),
    STACK + "push": (1, "pushed on the stack"),
    "marwood::vm::environment::LexicalEnvironment::put": (2, "stored in an environment slot"),
    "marwood::vm::environment::GlobalEnvironment::put_slot": (2, "stored in a global slot"),
    HEAP + "put": (1, "copied into a fresh heap cell"),
    HEAP + "maybe_put": (1, "copied into a fresh heap cell"),
    "std::vec::Vec::<T, A>::push": (1, "collected into a Vec<VCell>"),
}


def is_vcell_ty(ty):
    return "vcell::VCell" in ty and "fn(" not in ty


_SUMMARY = {}


def returns_summary(facts, cg, path, depth=0):
    """(returns a snapshot created inside, set of parameter indices whose labels flow to the return value)"""
    if path in _SUMMARY:
        return _SUMMARY[path]
    _SUMMARY[path] = (False, set())      # recursion guard: optimistic, refined below
    g = facts.fns.get(path)
    if g is None or depth > 3:
        return _SUMMARY[path]
    init = {i: {("param", i)} for i in range(1, g.argc + 1) if is_vcell_ty(g.locals[i])}
    lab = _labels(facts, cg, g, init, depth + 1)
    ret = lab.labels.get(0, set())
    res = (any(l[0] == "snap" for l in ret), {l[1] for l in ret if l[0] == "param"})
    _SUMMARY[path] = res
    return res


def _labels(facts, cg, f, init=None, depth=0):
    def transfer(t, al):
        c = callee(t) or ""
        dty = t["dest"]["ty"]
        if c in SOURCES:
            return {("snap", SOURCES[c])}
        if c == HEAP + "get_at_index":
            return {("ref", "Heap::get_at_index")}
        if c.endswith("Clone>::clone") or c == "std::clone::Clone::clone" or (t.get("fnargs") or "").endswith("VCell as std::clone::Clone>::clone"):
            out = set()
            for a in al:
                for l in a:
                    if l[0] == "ref":
                        out.add(("snap", l[1] + "(..).clone()"))
                    elif l[0] in ("snap", "param"):
                        out.add(l)
            return out
        if any(c.endswith(k) or k in c for k in CLEAN_CALLS):
            return set()
        if not is_vcell_ty(dty):
            return set()
        if c in facts.fns and f.path != c:
            snap, params = returns_summary(facts, cg, c, depth)
            out = set()
            if snap:
                out.add(("snap", "via " + short_path(c)))
            for i in params:
                if i - 1 < len(al):
                    out |= {l for l in al[i - 1] if l[0] in ("snap", "param")}
            return out
        return None
    return Labels(f, call_transfer=transfer, init=init,
                  keep=lambda l: is_vcell_ty(f.locals[l]) or f.locals[l].startswith("&"))


def snapshot_flows(facts, cg, f):
    """[(what, loc, source description)] — snapshots of heap cells that reach a storing sink in f"""
    def seed(fn, where, p):
        return []

    def transfer(t, al):
        c = callee(t)
        dty = t["dest"]["ty"]
        if c in SOURCES:
            return {("snap", SOURCES[c])}
        if c == HEAP + "get_at_index":
            return {("ref", "Heap::get_at_index")}
        if c.endswith("Clone>::clone") or c == "std::clone::Clone::clone" or (t.get("fnargs") or "").endswith("VCell as std::clone::Clone>::clone"):
            out = set()
            for a in al:
                for l in a:
                    if l[0] == "ref":
                        out.add(("snap", l[1] + "(..).clone()"))
                    elif l[0] == "snap":
                        out.add(l)
            return out
        if any(c.endswith(k) or k in c for k in CLEAN_CALLS):
            return set()
        if not is_vcell_ty(dty):
            return set()
        return None
    lab = _labels(facts, cg, f)
    # labels only live on VCell-typed locals
    out = []

    def tainted(op):
        p = op_place(op)
        if p is None:
            return set()
        if not is_vcell_ty(p["ty"]):
            return set()
        return {l for l in lab.of_place(p) if l[0] == "snap"}

    def sanitized(bb, op):
        # on the false edge of is_pair(x) / true edge of is_nil(x) for the same value: not a mutable-by-value cell
        for g_bb, cond, taken, gt in dominating_guards(f, bb):
            go = f.origin(cond)
            if go[0] == "call":
                c = callee(go[1])
                if c == VCELL + "::is_pair" and taken == 0:
                    return True
                if c == VCELL + "::is_nil" and taken == "else":
                    return True
        return False
    for bb, t in f.calls():
        c = callee(t)
        if c in SINKS:
            i, how = SINKS[c]
            if i < len(t["args"]):
                ls = tainted(t["args"][i])
                if ls and not sanitized(bb, t["args"][i]):
                    out.append((how, t["loc"], sorted(l[1] for l in ls), short_path(c)))
    for bb, j, s in f.stmts():
        l = s["lhs"]
        vml = [i for i, ty in enumerate(f.locals) if ty == "&mut marwood::vm::Vm"]
        if l["l"] in vml and [e.get("n") for e in l["p"] if isinstance(e, dict)] == ["acc"]:
            ls = set()
            for p in places_read(s["rv"]):
                if is_vcell_ty(p["ty"]):
                    ls |= {x for x in lab.of_place(p) if x[0] == "snap"}
            if ls and not sanitized(bb, None):
                out.append(("left in the accumulator", s["loc"], sorted(x[1] for x in ls), "%acc"))
        # Ok(snapshot) returned from a builtin
        if f.path in cg.registry and not l["p"] and l["l"] == 0 and s["rv"]["k"] == "agg" and s["rv"].get("variant") == "Ok":
            ls = set()
            for o in s["rv"]["ops"]:
                ls |= tainted(o)
            if ls and not sanitized(bb, None):
                out.append(("returned as the builtin's value (re-boxed by maybe_put)", s["loc"], sorted(x[1] for x in ls), "Ok(..)"))
    return out


def r14a(ctx, rep):
    facts, cg = ctx["facts"], ctx["cg"]
    rep.rule("R14a", "no snapshot is stored: heap cells are values; Heap::get, Vm::pop and Heap::get_at_index(..).clone() "
             "return a copy of a cell. Storing such a copy (into a vector, the stack, an environment or global slot, a fresh "
             "heap cell, the accumulator, or returning it from a builtin) creates a second object: identity is lost and "
             "mutations through one alias are invisible through the other. Def-use taint from those three sources over "
             "VCell-typed values to the storing sinks in builtin/*.rs and run.rs; destructuring (as_car/as_cdr, payload "
             "fields), the false edge of is_pair() and the true edge of is_nil() sanitise.")
    n = 0
    total = 0
    for p, f in sorted(facts.fns.items()):
        if not (p.startswith("marwood::vm::builtin::") or p.startswith(RUN)):
            continue
        if f.kind == "Closure" and False:
            continue
        n += 1
        flows = snapshot_flows(facts, cg, f)
        seen = {}
        for how, loc, srcs, sink in flows:
            if f.path == RUN_ONE and sink.endswith("Stack::push") and any("load_operand" in x for x in srcs):
                # reviewed exception with a checked side condition: the PUSH opcode (load_operand + push) is never emitted
                emit = [g.short for g in facts.fns.values() if g.crate == "marwood" and "vm::opcode::" not in g.path
                        and g.impl_trait not in DERIVE_TRAITS
                        and any(s_["rv"]["k"] == "agg" and s_["rv"].get("adt") == "marwood::vm::opcode::OpCode" and
                                s_["rv"].get("variant") == "Push" for _, _, s_ in g.stmts())]
                if not emit:
                    rep.ok("R14a", "R14a|run_one|PUSH-never-emitted", "the PUSH instruction would push a dereferenced copy "
                           "(load_operand of a Ptr operand), but no function outside opcode.rs constructs OpCode::Push, so the "
                           "arm is dead", [loc])
                    continue
            total += 1
            k = "%s|%s" % (f.short, sink)
            seen[k] = seen.get(k, 0) + 1
            key = "R14a|%s%s" % (k, "" if seen[k] == 1 else "#%d" % seen[k])
            rep.fail("R14a", key, "%s: a copy of a heap cell (%s) is %s; if the cell is a pair (or, in %%acc, any container) "
                     "the stored value is a different object from the original" % (f.short, ", ".join(srcs), how), [loc])
        if not flows:
            rep.ok("R14a", "R14a|%s" % f.short, "%s stores no cell snapshot" % f.short, [f.span], nontrivial=bool(
                [1 for bb, t in f.calls() if callee(t) in SOURCES]))
    rep.floor("R14a", "functions scanned for snapshot flows", n, 150)


def r14b(ctx, rep):
    facts = ctx["facts"]
    rep.rule("R14b", "mutators write through: set-car!/set-cdr! assign through Heap::get_at_index_mut(p) where p is the "
             "popped operand's own pointer; vector-set!/vector-fill!/vector-copy! mutate through the popped Rc<Vector> "
             "(Vector::put), never through a clone_vector copy.")
    for nm in ("set_car", "set_cdr"):
        f = facts.fn("marwood::vm::builtin::list::" + nm)
        if f is None:
            rep.anchor_lost("R14b", "builtin list::%s" % nm)
            continue
        muts = [t for bb, t in f.calls() if callee(t) == HEAP + "get_at_index_mut"]
        writes = [s for bb, j, s in f.stmts() if s["lhs"]["p"] and s["lhs"]["p"][0] == "*" and "VCell" in f.locals[s["lhs"]["l"]]]
        puts = [t for bb, t in f.calls() if callee(t) in (HEAP + "put", HEAP + "maybe_put")]
        ok = bool(muts) and bool(writes)
        (rep.ok if ok else rep.fail)("R14b", "R14b|%s" % nm, "%s assigns through Heap::get_at_index_mut" % nm if ok else
                                     "%s does not assign through Heap::get_at_index_mut of the operand's pointer: it mutates a copy"
                                     % nm, [f.span])
    for nm in ("vector_set", "vector_fill", "vector_mut_copy"):
        f = facts.fn("marwood::vm::builtin::vector::" + nm)
        if f is None:
            rep.anchor_lost("R14b", "builtin vector::%s" % nm)
            continue
        puts = [t for bb, t in f.calls() if callee(t) == "marwood::vm::vector::Vector::put"]
        clones = [t for bb, t in f.calls() if callee(t) == "marwood::vm::vector::Vector::clone_vector"]
        ok = bool(puts) and not clones
        (rep.ok if ok else rep.fail)("R14b", "R14b|%s" % nm, "%s mutates through Vector::put on the popped vector" % nm if ok else
                                     "%s does not mutate the popped vector in place (Vector::put x%d, clone_vector x%d)" % (
                                         nm, len(puts), len(clones)), [f.span])


def r14c(ctx, rep):
    from ..shapes import dominating_guards
    facts = ctx["facts"]
    rep.rule("R14c", "structural equality of vectors compares lengths first: in Vm::compare_vector every return of "
             "Ok(true) is dominated by the edge on which the two vectors' lengths were found equal; an element-wise loop "
             "bounded by one operand alone makes a vector equal? to any longer vector it is a prefix of.")
    f = need(rep, "R14c", facts, "marwood::vm::compare::<impl marwood::vm::Vm>::compare_vector")
    if f is None:
        return
    trues = []
    for bb, j, s in f.stmts():
        rv = s["rv"]
        if not s["lhs"]["p"] and s["lhs"]["l"] == 0 and rv["k"] == "agg" and rv.get("variant") == "Ok":
            c = op_const(rv["ops"][0]) if rv["ops"] else None
            if c is not None and c.get("int") == 1:
                trues.append((bb, s))
    if not trues:
        # restructured (e.g. returns a computed bool): require only that the lengths are compared somewhere
        cmp_ = False
        for bb, j, s in f.stmts():
            rv = s["rv"]
            if rv["k"] == "bin" and rv["op"] in ("Ne", "Eq"):
                a, b = f.origin(rv["a"]), f.origin(rv["b"])
                if a[0] == "call" and b[0] == "call" and callee(a[1]).endswith("::len") and callee(b[1]).endswith("::len") and a[1] is not b[1]:
                    cmp_ = True
        (rep.ok if cmp_ else rep.fail)("R14c", "R14c|compare_vector|lengths-compared",
                                       "compare_vector compares the two lengths" if cmp_ else
                                       "compare_vector never compares the lengths of its operands", [f.span])
        return
    for i, (bb, s) in enumerate(trues):
        ok = False
        for g_bb, cond, taken, gt in dominating_guards(f, bb):
            go = f.origin(cond)
            if go[0] == "rv" and go[1]["rv"]["k"] == "bin" and go[1]["rv"]["op"] in ("Ne", "Eq"):
                a, b = f.origin(go[1]["rv"]["a"]), f.origin(go[1]["rv"]["b"])
                if a[0] == "call" and b[0] == "call" and callee(a[1]).endswith("Vector::len") and callee(b[1]).endswith("Vector::len") \
                        and a[1] is not b[1]:
                    equal_edge = (go[1]["rv"]["op"] == "Ne" and taken == 0) or (go[1]["rv"]["op"] == "Eq" and taken == "else")
                    if equal_edge:
                        ok = True
        (rep.ok if ok else rep.fail)("R14c", "R14c|compare_vector|true#%d" % (i + 1),
                                     "compare_vector answers true only after finding the lengths equal" if ok else
                                     "compare_vector can answer true without having compared the two lengths: a vector is "
                                     "equal? to every longer vector that starts with its elements", [s["loc"]])


VPUT = "marwood::vm::vector::Vector::put"
VGET = "marwood::vm::vector::Vector::get"
VLEN = "marwood::vm::vector::Vector::len"


def _in_loop(f, bb):
    return any(bb in (f.reach_from(h) & f.reach_back(src)) | {h, src} for src, h in f.back_edges())


def r14d(ctx, rep, rule="R14d"):
    """index alignment of ranged element access, by linear forms over the MIR"""
    from ..linear import Linear, Lin
    facts = ctx["facts"]
    rep.rule(rule, "ranged element access is aligned: inside a loop of a vector builtin the index handed to Vector::get / "
             "Vector::put is summarised as a linear form over the loop variable and the popped operands. (i) At the first "
             "iteration the form reduces to a single operand or a constant (the element range starts where one argument "
             "says, not at a sum of two arguments); (ii) if the function compares anything against the length of the "
             "vector being written, one of those tests compares exactly the form one past the last index written "
             "(the capacity test agrees with the writes).")
    n = 0
    for p, f in sorted(facts.fns.items()):
        if not p.startswith("marwood::vm::builtin::") or "::{closure" in p:
            continue
        L = None
        for bb, t in f.calls():
            c = callee(t)
            if c not in (VPUT, VGET) or len(t["args"]) < 2 or not _in_loop(f, bb):
                continue
            L = L or Linear(f)
            form = L.of(t["args"][1])
            if not form.loops():
                continue
            n += 1
            nm = f.short.rsplit("::", 1)[-1]
            what = "put" if c == VPUT else "get"
            k = len([1 for b2, t2 in f.calls() if callee(t2) == c and b2 < bb]) + 1
            key = "%s|%s|%s#%d" % (rule, nm, what, k)
            first = L.at_lowest(form)
            if first.is_single():
                rep.ok(rule, key + "|start", "%s: Vector::%s index `%s` starts at `%s`" % (nm, what, form, first), [t["loc"]])
            else:
                rep.fail(rule, key + "|start", "%s: the index handed to Vector::%s is `%s`, which for the first element of the range "
                         "is `%s` — a sum of operands rather than the position one argument names, so a range that does not start "
                         "at 0 is %s the wrong place" % (nm, what, form, first, "written to" if what == "put" else "read from"), [t["loc"]])
            if c != VPUT:
                continue
            past = L.past_highest(form)
            if past is None:
                continue
            recv = L.of(t["args"][0])
            tests = []
            for b2, j2, st in f.stmts():
                rv = st["rv"]
                if rv["k"] != "bin" or rv["op"] not in ("Gt", "Ge", "Lt", "Le"):
                    continue
                for side, other in (("a", "b"), ("b", "a")):
                    o = f.origin(rv[side])
                    if o[0] == "call" and callee(o[1]) == VLEN and L.of(o[1]["args"][0]) == recv:
                        tests.append((L.of(rv[other]), st))
            if not tests:
                continue
            # `at >= len` style tests of the start alone do not speak about the extent
            extent = [(g, st) for g, st in tests if g == past]
            if extent:
                rep.ok(rule, key + "|capacity", "%s: the capacity test compares `%s`, one past the last index written" % (nm, past),
                       [extent[0][1]["loc"]])
            else:
                rep.fail(rule, key + "|capacity", "%s writes indices up to `%s` (exclusive) but the tests against the destination's "
                         "length compare %s: valid copies are rejected or the extent is not what is tested" % (
                             nm, past, ", ".join("`%s`" % g for g, st in tests)), [tests[0][1]["loc"]])
    rep.floor(rule, "loop-indexed Vector::get / Vector::put sites in the builtins", n, 2)


def r14e(ctx, rep, rule="R14e"):
    from ..linear import Linear
    from ..shapes import dominating_guards
    facts = ctx["facts"]
    rep.rule(rule, "copies between possibly identical vectors are direction-aware: when one loop both reads Vector::get from one "
             "popped vector and writes the value with Vector::put into another popped vector (two operands the caller may "
             "bind to the same object), the loop is dominated by a comparison between the destination start and the source "
             "start (so that an overlapping copy runs in the direction that reads every element before it is overwritten); "
             "R7RS: 'as if the source is first copied into a temporary vector'.")
    n = 0
    for p, f in sorted(facts.fns.items()):
        if not p.startswith("marwood::vm::builtin::") or "::{closure" in p:
            continue
        L = None
        for bb, t in f.calls():
            if callee(t) != VPUT or len(t["args"]) < 3 or not _in_loop(f, bb):
                continue
            o = f.origin(t["args"][2])
            # peel Option::unwrap / clone
            for _ in range(4):
                if o[0] == "call" and (callee(o[1]) or "").endswith(("::unwrap", "::clone", "::expect")):
                    o = f.origin(o[1]["args"][0])
                else:
                    break
            if not (o[0] == "call" and callee(o[1]) == VGET):
                continue
            L = L or Linear(f)
            src, dst = L.of(o[1]["args"][0]), L.of(t["args"][0])
            if src == dst:
                continue
            n += 1
            nm = f.short.rsplit("::", 1)[-1]
            dform, sform = L.of(t["args"][1]), L.of(o[1]["args"][1])
            dbase = {s for s in L.at_lowest(dform).symbols()}
            sbase = {s for s in L.at_lowest(sform).symbols()}
            ok = False
            for g_bb, cond, taken, gt in dominating_guards(f, bb):
                go = f.origin(cond)
                if go[0] == "rv" and go[1]["rv"]["k"] == "bin" and go[1]["rv"]["op"] in ("Gt", "Ge", "Lt", "Le"):
                    a, b = L.of(go[1]["rv"]["a"]).symbols(), L.of(go[1]["rv"]["b"]).symbols()
                    if (a & dbase and b & sbase) or (a & sbase and b & dbase):
                        ok = True
            k = len([1 for b2, t2 in f.calls() if callee(t2) == VPUT and b2 < bb]) + 1
            (rep.ok if ok else rep.fail)(
                rule, "%s|%s|put#%d" % (rule, nm, k) if not ok else "%s|%s|put#%d" % (rule, nm, k),
                "%s: the element loop runs under a comparison of the destination start with the source start" % nm if ok else
                "%s copies element by element from one popped vector into another (index `%s` <- `%s`) in a single direction, "
                "whatever the relative position of the two ranges: when both operands are the same vector and the destination "
                "starts after the source, elements are overwritten before they are read" % (nm, dform, sform), [t["loc"]])
    rep.floor(rule, "interleaved get->put loops between two popped vectors", n, 1)


def r14f(ctx, rep, rule="R14f"):
    facts = ctx["facts"]
    rep.rule(rule, "eqv? separates exact from inexact: Number's PartialEq is numeric equality across representations "
             "((= 2 2.0) is true), so the number arm of Vm::eqv — which equal?, memv, assv, member, assoc and case are built "
             "on — must also observe the representation of both operands (a discriminant read of each Number, or an "
             "exactness predicate on each); R7RS 6.1: eqv? is #f when one argument is exact and the other inexact.")
    f = need(rep, rule, facts, "marwood::vm::compare::<impl marwood::vm::Vm>::eqv")
    if f is None:
        return
    eqs = [(bb, t) for bb, t in f.calls() if "marwood::number::Number as std::cmp::PartialEq" in (t.get("fnargs") or "")
           and len(t["args"]) == 2]
    if not eqs:
        rep.anchor_lost(rule, "comparison of two Numbers in Vm::eqv")
        return

    def chain(op):
        out = set()
        cur = op
        for _ in range(6):
            pl = op_place(cur)
            if pl is None:
                break
            out.add(pl["l"])
            sd = f.single_def(pl["l"])
            if sd is None or sd[2] != "assign":
                break
            rv = sd[3]["rv"]
            if rv["k"] == "ref":
                if not [e for e in rv["place"]["p"] if e != "*"]:
                    cur = {"copy": rv["place"]}
                    continue
                break
            if rv["k"] == "use":
                cur = rv["a"]
                continue
            break
        return out

    for i, (bb, t) in enumerate(eqs):
        seen = []
        for k in (0, 1):
            locs = chain(t["args"][k])
            obs = False
            for b2, j, st in f.stmts():
                if st["rv"]["k"] == "disc" and st["rv"]["place"]["l"] in locs and "number::Number" in st["rv"]["place"].get("ty", "number::Number"):
                    obs = True
            for b2, t2 in f.calls():
                c = callee(t2) or ""
                if c.startswith("marwood::number::Number::") and any(w in c.rsplit("::", 1)[-1] for w in ("exact", "float")):
                    if t2["args"] and chain(t2["args"][0]) & locs:
                        obs = True
            seen.append(obs)
        ok = all(seen)
        (rep.ok if ok else rep.fail)(
            rule, "%s|eqv|number-arm#%d" % (rule, i + 1),
            "Vm::eqv observes the representation of both numbers next to their numeric equality" if ok else
            "Vm::eqv decides two numbers by Number's PartialEq alone (numeric equality across representations): "
            "(eqv? 2 2.0) and therefore (equal? 2 2.0), (memv 2.0 '(1 2 3)) and (assoc 2.0 '((2 b))) answer as if exact and "
            "inexact were the same object", [t["loc"]])


def r14g(ctx, rep, rule="R14g", only=None, skip=("marwood::vm::builtin::string::",), floor=4):
    from ..shapes import roots
    facts = ctx["facts"]
    rep.rule(rule, "list walkers look at the terminator: a loop of a builtin that follows cdr (VCell::as_cdr) and leaves when "
             "its cursor is no longer a pair has consumed a *proper* list only if the cursor is then the empty list. On every "
             "path from that exit to the construction of an Ok result, VCell::is_nil is applied to the cursor (the idiom of "
             "append / reverse / apply / list?); otherwise an improper list is silently truncated where R7RS requires a list.")
    n = 0
    for p, f in sorted(facts.fns.items()):
        if not p.startswith("marwood::vm::builtin::") or "::{closure" in p:
            continue
        if (only and not p.startswith(only)) or (not only and p.startswith(skip)):
            continue
        done = set()
        for src, h in f.back_edges():
            body = (f.reach_from(h) & f.reach_back(src)) | {h, src}
            if not any((callee(t) or "").endswith("VCell::as_cdr") for bb, t in f.calls() if bb in body):
                continue
            # is_pair tests in the loop whose switch has an edge leaving the loop
            for bb, t in f.calls():
                if bb not in body or not (callee(t) or "").endswith("VCell::is_pair") or t.get("target") is None:
                    continue
                cur = roots(f, t["args"][0])
                # the switch controlled by this test (directly, or through `!`)
                sw = None
                b2 = t["target"]
                for _ in range(3):
                    tt = f.blocks[b2]["term"]
                    if tt["k"] == "switch":
                        sw = (b2, tt)
                        break
                    if tt["k"] == "goto":
                        b2 = tt["target"]
                        continue
                    break
                if sw is None:
                    continue
                b2, tt = sw
                o = f.origin(tt["op"])
                neg = False
                if o[0] == "rv" and o[1]["rv"]["k"] == "un" and o[1]["rv"]["op"] == "Not":
                    neg = True
                    o = f.origin(o[1]["rv"]["a"])
                if not (o[0] == "call" and o[1] is t):
                    continue
                # edge on which is_pair(cursor) is false
                vals = dict((v, tg) for v, tg in tt["targets"])
                false_val = 1 if neg else 0
                not_pair = vals.get(false_val, tt["otherwise"]) if false_val in vals or neg else vals.get(0, tt["otherwise"])
                if neg and 1 not in vals:
                    not_pair = tt["otherwise"]
                key_site = (p, t["loc"]["line"])
                if key_site in done:
                    continue
                done.add(key_site)
                n += 1
                nil_blocks = {bb3 for bb3, t3 in f.calls() if (callee(t3) or "").endswith("VCell::is_nil") and roots(f, t3["args"][0]) & cur}
                # is_nil is a call terminator: the test has happened once its block was executed
                # knowledge about the cursor ends where the cursor is given a new value
                cur_locals = {r[1] for r in cur if r[0] == "v"}
                redefs = set()
                for l in cur_locals:
                    for d in f.defs().get(l, []):
                        if d[2] != "partial" and d[0] != bb:
                            # a definition takes effect at the end of its block: exploration may enter the block but not leave it
                            redefs.add(d[0])
                reach = set()
                stack_ = [not_pair]
                while stack_:
                    b0 = stack_.pop()
                    if b0 in reach or b0 in nil_blocks:
                        continue
                    reach.add(b0)
                    if b0 in redefs:
                        continue
                    stack_.extend(f.succ[b0])
                # leaving the loop is not required: `return Ok` inside the loop body on the not-pair edge counts too
                oks = [bb3 for bb3 in reach if bb3 not in body or f.dominates(not_pair, bb3)
                       for st in f.blocks[bb3]["stmts"] if st["lhs"]["l"] == 0 and not st["lhs"]["p"] and st["rv"]["k"] == "agg"
                       and st["rv"].get("variant") == "Ok"]
                nm = f.short.rsplit("::", 1)[-1]
                k = len([1 for x in done if x[0] == p])
                key = "%s|%s|walk#%d" % (rule, nm, k)
                if oks:
                    rep.fail(rule, key, "%s follows cdr until its cursor is not a pair and can then return Ok without testing that "
                             "the cursor is the empty list: the tail of an improper list is dropped silently "
                             "(e.g. (1 2 . 3) is treated as (1 2))" % f.short, [t["loc"]])
                else:
                    rep.ok(rule, key, "%s: after the cdr walk the terminator is tested with is_nil before any Ok" % f.short, [t["loc"]])
    # the same walk written as a match on the cursor: `while let VCell::Pair(_, cdr) = cur { ..; cur = heap.get(cdr) }`
    for p, f in sorted(facts.fns.items()):
        if not p.startswith("marwood::vm::builtin::") or "::{closure" in p:
            continue
        if (only and not p.startswith(only)) or (not only and p.startswith(skip)):
            continue
        k2 = 0
        seen_sw = set()
        for src, h in f.back_edges():
            body = (f.reach_from(h) & f.reach_back(src)) | {h, src}
            for sw in disc_switches(facts, f, VCELL):
                if sw["bb"] not in body or sw["bb"] in seen_sw or sw["arms"].get("Pair") not in body or sw["place"]["p"]:
                    continue
                cur_l = sw["place"]["l"]
                redef_in_body = []
                for d in f.defs().get(cur_l, []):
                    if d[0] not in body or d[2] == "partial":
                        continue
                    if d[2] == "call" and callee(d[3]) == HEAP + "get":
                        redef_in_body.append(d)
                    elif d[2] == "assign" and d[3]["rv"]["k"] == "use":
                        o = f.origin(d[3]["rv"]["a"])
                        if o[0] == "call" and callee(o[1]) == HEAP + "get":
                            redef_in_body.append(d)
                if not redef_in_body:
                    continue
                seen_sw.add(sw["bb"])
                n += 1
                k2 += 1
                exits = {tg for v, tg in sw["arms"].items() if v not in ("Pair", "Nil")} | {sw["otherwise"]}
                if sw["arms"].get("Nil") == sw["otherwise"]:
                    exits.add(sw["otherwise"])
                exits.discard(sw["arms"].get("Pair"))
                nil_blocks = {bb3 for bb3, t3 in f.calls() if (callee(t3) or "").endswith("VCell::is_nil")
                              and (f.origin(t3["args"][0])[0] == "local" and f.origin(t3["args"][0])[1] == cur_l)}
                nil_blocks |= {s2["bb"] for s2 in disc_switches(facts, f, VCELL) if s2["bb"] != sw["bb"] and not s2["place"]["p"]
                               and s2["place"]["l"] == cur_l and "Nil" in s2["arms"] and s2["arms"]["Nil"] != s2["otherwise"]}
                redefs = {d[0] for d in f.defs().get(cur_l, []) if d[2] != "partial"}
                reach, stack_ = set(), list(exits)
                while stack_:
                    b0 = stack_.pop()
                    if b0 in reach or b0 in nil_blocks:
                        continue
                    reach.add(b0)
                    if b0 in redefs:
                        continue
                    stack_.extend(f.succ[b0])
                oks = [bb3 for bb3 in reach for st in f.blocks[bb3]["stmts"] if st["lhs"]["l"] == 0 and not st["lhs"]["p"]
                       and st["rv"]["k"] == "agg" and st["rv"].get("variant") == "Ok"]
                nm = f.short.rsplit("::", 1)[-1]
                key = "%s|%s|match-walk#%d" % (rule, nm, k2)
                if oks:
                    rep.fail(rule, key, "%s walks a list with a match on VCell::Pair and, once the cursor is no longer a pair, can return "
                             "Ok without testing that it is the empty list: the tail of an improper list is dropped silently "
                             "(e.g. (1 2 . 3) is treated as (1 2))" % f.short, [sw["term"].get("loc") or f.span])
                else:
                    rep.ok(rule, key, "%s: after the match-driven cdr walk the terminator is tested before any Ok" % f.short, [f.span])
    rep.floor(rule, "cdr-walking loops with an is_pair exit in the builtins%s" % (" (%s)" % only if only else ""), n, floor)


def r14h(ctx, rep, rule="R14h"):
    from . import prelude as P
    rep.rule(rule, "length (prelude.scm) counts only proper lists: every clause of its loop that returns a count without "
             "recursing is guarded by a `null?` test of the cursor (or of its cdr); a weaker test such as `(not (pair? ..))` "
             "returns a count for an improper list where R7RS requires an error.")
    try:
        macros, forms, path = P.load_macros(ctx["root"])
    except (OSError, IndexError):
        rep.anchor_lost(rule, "prelude.scm")
        return
    d = None
    for fm in forms:
        if isinstance(fm, list) and len(fm) >= 3 and fm[0] == "define" and isinstance(fm[1], list) and fm[1] and fm[1][0] == "length":
            d = fm
    if d is None:
        rep.anchor_lost(rule, "definition of length in prelude.scm")
        return
    loops = set()

    def names(x):
        # named-let labels and the procedure itself are the recursion targets
        if isinstance(x, list) and x:
            if x[0] == "let" and len(x) > 2 and isinstance(x[1], P.Sym):
                loops.add(str(x[1]))
            for y in x:
                names(y)
    names(d)
    loops.add("length")

    def mentions(x, ns):
        if isinstance(x, P.Sym):
            return str(x) in ns
        if isinstance(x, list):
            return any(mentions(y, ns) for y in x)
        return False

    def is_null_test(t):
        return isinstance(t, list) and len(t) == 2 and t[0] == "null?"

    exits = []

    def show(x):
        if isinstance(x, list):
            return "(" + " ".join(show(y) for y in x) + ")"
        if isinstance(x, tuple):
            return str(x[1])
        return str(x)

    def walk(x):
        if isinstance(x, list) and x:
            if x[0] == "cond":
                for cl in x[1:]:
                    if isinstance(cl, list) and cl:
                        test, body = cl[0], cl[1:]
                        if test != "else" and body and not mentions(body, loops) and not mentions(body, {"error"}):
                            exits.append((test, body))
            if x[0] == "if" and len(x) >= 3:
                test, then = x[1], x[2]
                if not mentions(then, loops) and not mentions(then, {"error"}) and not (isinstance(then, list) and then and then[0] in ("let", "cond", "if")):
                    exits.append((test, [then]))
            for y in x:
                walk(y)
    walk(d)
    if not exits:
        rep.anchor_lost(rule, "count-returning clauses in length")
        return
    for i, (test, body) in enumerate(exits):
        ok = is_null_test(test)
        (rep.ok if ok else rep.fail)(rule, "%s|length|exit#%d" % (rule, i + 1),
                                     "length returns %s only under %s" % (show(body[-1]), show(test)) if ok else
                                     "length returns %s under the test %s, which also holds when the list ends in something other than "
                                     "the empty list: an improper list gets a length instead of an error" % (show(body[-1]), show(test)))
    rep.floor(rule, "count-returning clauses in length", len(exits), 2)


def r14i(ctx, rep, rule="R14i"):
    from .C15 import _payload_root, compared_before
    facts = ctx["facts"]
    rep.rule(rule, "a clamping helper is called only with validated indices: Vector::clone_vector clamps its optional start / end "
             "to the vector's extent instead of failing, so each builtin that calls it must have compared every index it "
             "passes (when present) on every path to the call — otherwise an out-of-range index yields an empty or "
             "truncated vector where an error is required.")
    n = 0
    for p, f in sorted(facts.fns.items()):
        if not p.startswith("marwood::vm::builtin::") or "::{closure" in p:
            continue
        for bb, t in f.calls():
            if callee(t) != "marwood::vm::vector::Vector::clone_vector":
                continue
            nm = f.short.rsplit("::", 1)[-1]
            for k, what in ((1, "start"), (2, "end")):
                if k >= len(t["args"]):
                    continue
                n += 1
                c = op_const(t["args"][k])
                o = f.origin(t["args"][k])
                key = "%s|%s|%s" % (rule, nm, what)
                if c is not None or o[0] == "const" or (o[0] == "rv" and o[1]["rv"]["k"] == "agg" and o[1]["rv"].get("variant") == "None"):
                    rep.ok(rule, key, "%s passes a constant / None as %s" % (nm, what), [t["loc"]], nontrivial=False)
                    continue
                root = _payload_root(f, t["args"][k])
                if root is None:
                    rep.fail(rule, key, "%s: the %s handed to clone_vector could not be traced to an optional index variable" % (nm, what), [t["loc"]])
                    continue
                ok = compared_before(f, bb, root)
                (rep.ok if ok else rep.fail)(rule, key, "%s compares %s on every path before clone_vector" % (nm, what) if ok else
                                             "%s can reach Vector::clone_vector with a %s it has not compared with anything: "
                                             "clone_vector clamps it, so an out-of-range %s silently gives a shorter vector instead of "
                                             "an error" % (nm, what, what), [t["loc"]])
    rep.floor(rule, "optional indices handed to Vector::clone_vector", n, 2)


def r14k(ctx, rep, rule="R14k"):
    facts = ctx["facts"]
    rep.rule(rule, "the walkers behind equal? compare sub-objects structurally: compare_pair and compare_vector hand every "
             "component — elements, cars, and the tails a pair walk ends on — to Vm::equal; Vm::eqv (identity and atoms) is "
             "called by Vm::equal only. A walker that finishes with eqv compares an improper list's vector or string tail "
             "by identity, so two equal-looking structures are not equal?.")
    pre = "marwood::vm::compare::<impl marwood::vm::Vm>::"
    n = 0
    for nm in ("compare_pair", "compare_vector"):
        f = need(rep, rule, facts, pre + nm)
        if f is None:
            continue
        n += 1
        bad = [t for bb, t in f.calls() if callee(t) == pre + "eqv"]
        EQUAL = (pre + "equal", pre + "equal_seen")
        uses_equal = any(callee(t) in EQUAL for bb, t in f.calls())
        key = "%s|%s" % (rule, nm)
        if bad:
            rep.fail(rule, key, "%s compares a component with eqv instead of equal: a vector or string reached there is compared by "
                     "identity ((equal? (cons 1 (vector 1 2)) (cons 1 (vector 1 2))) is #f)" % nm, [bad[0]["loc"]])
        elif not uses_equal:
            rep.fail(rule, key, "%s no longer compares components through Vm::equal" % nm, [f.span])
        else:
            rep.ok(rule, key, "%s compares every component through Vm::equal" % nm, [f.span])
        # no verdict `true` inside the walk before the components of the current step were compared
        body = set()
        for src, h in f.back_edges():
            body |= (f.reach_from(h) & f.reach_back(src)) | {h, src}
        eq_blocks = [bb for bb, t in f.calls() if callee(t) in EQUAL and bb in body]
        k = 0
        for bb, j_, st in f.stmts():
            rv = st["rv"]
            if not (st["lhs"]["l"] == 0 and not st["lhs"]["p"] and rv["k"] == "agg" and rv.get("variant") == "Ok" and rv["ops"]):
                continue
            c = op_const(rv["ops"][0])
            heads = [h for src, h in f.back_edges()]
            if c is None or c.get("int") not in (1, True) or not any(f.dominates(h, bb) for h in heads):
                continue
            k += 1
            from ..shapes import guard_shapes
            exhausted = any(re.match(r"disc\(.*Iterator>::next\(.*\)\)=0$", g) or re.match(r"disc\(iter::range::.*::next\(.*\)\)=0$", g)
                            for g in guard_shapes(f, bb, None, 3))
            ok = exhausted or any(f.dominates(e, bb) and e != bb for e in eq_blocks)
            (rep.ok if ok else rep.fail)(
                rule, "%s|%s|early-true#%d" % (rule, nm, k),
                "%s answers #t inside its walk only after comparing the current components" % nm if ok else
                "%s can answer #t inside its walk before the components of the current step were compared (a shortcut on identical "
                "tails / identical storage skips the element in front of them): (equal? (cons 1 t) (cons 2 t)) is #t" % nm, [st["loc"]])


FRESH_LIST = {"marwood::vm::builtin::list::reverse": "reverse"}


def _result_leaves(f, op, seen=None, depth=10):
    """where the value of an operand can come from, through copies, clones and re-definitions: set of
    ('alloc', bb) | ('const',) | ('operand', bb) | ('cell', bb) | ('other', text)"""
    from .. import shapes
    out = set()
    seen = seen if seen is not None else set()
    pl = op_place(op)
    if op_const(op) is not None:
        return {("const",)}
    if pl is None or depth < 0:
        return {("other", "?")}
    l = pl["l"]
    if l in seen:
        return out
    seen.add(l)
    if 1 <= l <= f.argc:
        return {("other", "arg")}
    for d in f.defs().get(l, []):
        bb, idx, kind, payload = d
        if kind == "partial":
            continue
        if kind == "call":
            c = callee(payload) or ""
            if c in (HEAP + "put", HEAP + "maybe_put", HEAP + "put_cell"):
                out.add(("alloc", bb))
            elif c.endswith("Stack::pop") or c.endswith("Stack::get_offset") or c.endswith("Stack::get"):
                out.add(("operand", bb))
            elif c == HEAP + "get":
                out.add(("cell", bb))
            elif c.endswith("Clone>::clone") or c.endswith("Try>::branch") or c.endswith("::unwrap") or c.endswith("Deref>::deref"):
                for a in payload["args"][:1]:
                    out |= _result_leaves(f, a, seen, depth - 1)
            else:
                out.add(("other", short_path(c)))
        else:
            rv = payload["rv"]
            if rv["k"] in ("use", "cast"):
                out |= _result_leaves(f, rv["a"], seen, depth - 1)
            elif rv["k"] == "ref":
                out |= _result_leaves(f, {"copy": rv["place"]}, seen, depth - 1)
            elif rv["k"] == "agg":
                out.add(("const",) if not rv.get("ops") else ("other", "agg"))
            else:
                out.add(("other", rv["k"]))
    return out


def r14l(ctx, rep, rule="R14l"):
    from .. import shapes
    facts = ctx["facts"]
    rep.rule(rule, "a list result that R7RS requires to be newly allocated is not an operand: in `reverse`, every value returned "
             "with Ok comes from a Heap::put of this call (or is the empty list, returned under an is_nil test) — never the "
             "operand popped from the stack or a cell read through it. A shortcut that hands back the argument makes the "
             "result eq? to it, and a later set-car! on the result changes the argument.")
    n = 0
    for path, name in sorted(FRESH_LIST.items()):
        f = need(rep, rule, facts, path)
        if f is None:
            continue
        k = 0
        for bb, j_, st in f.stmts():
            rv = st["rv"]
            if not (st["lhs"]["l"] == 0 and not st["lhs"]["p"] and rv["k"] == "agg" and rv.get("variant") == "Ok" and rv["ops"]):
                continue
            k += 1
            n += 1
            key = "%s|%s|Ok#%d" % (rule, name, k)
            leaves = _result_leaves(f, rv["ops"][0])
            shared = sorted(x[0] for x in leaves if x[0] in ("operand", "cell"))
            ro = f.origin(rv["ops"][0])
            nil_guard = False
            for sbb, cond, taken, t in shapes.dominating_guards(f, bb):
                co = f.origin(cond)
                if taken == "else" and co[0] == "call" and (callee(co[1]) or "").endswith("VCell::is_nil"):
                    ao = f.origin(co[1]["args"][0])
                    if ao[0] == ro[0] == "local" and ao[1] == ro[1]:
                        nil_guard = True
            if shared and not nil_guard:
                rep.fail(rule, key, "%s can return %s: the result is the argument (or shares its first pair) instead of a newly "
                         "allocated list, so mutating one mutates the other" % (
                             name, "the operand it popped" if "operand" in shared else "a cell read through its operand"), [st["loc"]])
            else:
                rep.ok(rule, key, "%s returns %s" % (name, "the empty list (under is_nil)" if shared else "a list allocated by this call"), [st["loc"]])
    rep.floor(rule, "Ok results of procedures that must allocate", n, 2)


def r14m(ctx, rep, rule="R14m"):
    from . import prelude as P
    rep.rule(rule, "the n-ary list walks of the prelude stop at the shortest list: in `map` and `for-each` the test that ends "
             "the loop looks at every list (its operand is the whole list-of-lists variable, not one selected element of it). "
             "A test of the first list only runs past the end of a shorter second list "
             "(`expected pair`) where R7RS says the walk ends.")
    try:
        macros, forms, path = P.load_macros(ctx["root"])
    except (OSError, IndexError):
        rep.anchor_lost(rule, "prelude.scm")
        return

    def show(x):
        if isinstance(x, list):
            return "(" + " ".join(show(y) for y in x) + ")"
        if isinstance(x, tuple):
            return str(x[1])
        return str(x)

    tests = {}
    for name in ("map", "for-each"):
        d = None
        for fm in forms:
            if isinstance(fm, list) and len(fm) >= 3 and fm[0] == "define" and isinstance(fm[1], list) and fm[1] and fm[1][0] == name:
                d = fm
        if d is None:
            rep.anchor_lost(rule, "definition of %s in prelude.scm" % name)
            continue
        found = []

        def applies(x):
            """the n-ary walk is the loop that applies the procedure to one element of every list: (apply f ..)"""
            if isinstance(x, list) and x:
                if x[0] == "apply":
                    return True
                return any(applies(y) for y in x)
            return False

        def walk(x, params):
            if isinstance(x, list) and x:
                if x[0] == "lambda" and len(x) >= 3 and isinstance(x[1], list):
                    for y in x[2:]:
                        walk(y, [str(q) for q in x[1] if isinstance(q, P.Sym)])
                    return
                if x[0] == "define" and len(x) >= 3 and isinstance(x[1], list) and x[1]:
                    # an internal (define (helper . params) body ..) is a lambda too
                    for y in x[2:]:
                        walk(y, [str(q) for q in x[1][1:] if isinstance(q, P.Sym)])
                    return
                if x[0] == "if" and len(x) >= 3 and params and applies(x):
                    found.append((x[1], params))
                for y in x:
                    walk(y, params)
        walk(d[2:], [])
        if not found:
            rep.anchor_lost(rule, "loop test of %s" % name)
            continue
        formals = d[1][1:]
        dot = [i for i, x in enumerate(formals) if x == "."]
        required = dot[0] if dot else len(formals)
        (rep.ok if required >= 2 else rep.fail)(
            rule, "%s|%s|requires-a-list" % (rule, name),
            "%s requires a procedure and at least one list" % name if required >= 2 else
            "%s accepts a call with no list: the walk's termination test over zero lists is never true, so (%s f) applies f to no "
            "arguments for ever and conses without bound instead of reporting an arity error" % (name, name))
        test, params = found[0]
        tests[name] = show(test)

        def whole(x):
            """does the test pass a loop parameter as a whole operand (not under car/cdr)?"""
            if isinstance(x, list) and x:
                if x[0] in ("car", "cdr", "cadr", "cddr", "caar", "list-ref"):
                    return False
                return any((isinstance(y, P.Sym) and str(y) in params) or whole(y) for y in x[1:])
            return False
        key = "%s|%s|test-sees-every-list" % (rule, name)
        if whole(test):
            rep.ok(rule, key, "%s ends its loop on %s, a test over the whole list of lists" % (name, show(test)))
        else:
            rep.fail(rule, key, "%s ends its loop on %s, which inspects one selected list only: when another list is shorter the walk "
                     "runs off its end instead of stopping at the shortest list" % (name, show(test)))


# R7RS small 6.4 / 6.8: (min, max) operands of the list and vector procedures C14 names that are Rust builtins
R7RS_ARITY_C14 = {
    "cons": (2, 2), "car": (1, 1), "cdr": (1, 1), "set-car!": (2, 2), "set-cdr!": (2, 2), "append": (0, None), "reverse": (1, 1),
    "list-tail": (2, 2), "list-ref": (2, 2), "list?": (1, 1), "vector": (0, None), "make-vector": (1, 2), "vector-length": (1, 1),
    "vector-ref": (2, 2), "vector-set!": (3, 3), "vector-fill!": (2, 4), "vector->list": (1, 3), "list->vector": (1, 1),
    "vector-copy": (1, 3), "vector-copy!": (3, 5), "equal?": (2, 2), "eqv?": (2, 2), "eq?": (2, 2),
    # defined in the prelude
    "list": (0, None), "length": (1, 1), "memq": (2, 2), "memv": (2, 2), "member": (2, 3), "assq": (2, 2), "assv": (2, 2),
    "assoc": (2, 3), "map": (2, None), "for-each": (2, None),
}
RANGE_PROCS = ["marwood::vm::builtin::vector::vector_copy", "marwood::vm::builtin::vector::vector_mut_copy",
               "marwood::vm::builtin::vector::vector_range"]


def r14o(ctx, rep, rule="R14o"):
    from .. import shapes
    facts = ctx["facts"]
    rep.rule(rule, "range bounds may equal the length: R7RS admits start <= end <= length for the ranged vector procedures, so in "
             "vector-copy, vector-copy! and the shared range helper every InvalidVectorIndex exit for a bound (start, end, at) is "
             "taken on `bound > length`, never on `bound >= length` (that test is for element indices, vector-ref / vector-set!). "
             "With >= a copy of zero elements at the end of a vector — (vector-copy v (vector-length v)) — is an error.")
    n = 0
    for path in RANGE_PROCS:
        f = facts.fns.get(path) if path.endswith("vector_range") else need(rep, rule, facts, path)
        if f is None:
            continue
        k = 0
        for bb, j, st in f.stmts():
            rv = st["rv"]
            if not (rv["k"] == "agg" and rv.get("variant") == "InvalidVectorIndex"):
                continue
            k += 1
            n += 1
            bound = shapes.shape(f, rv["ops"][0], 3)
            g = shapes.guard_shapes(f, bb, None, 3)
            strict = [x for x in g if x.startswith("(Gt " + bound + " ") and x.endswith("=T")]
            weak = [x for x in g if (x.startswith("(Ge " + bound + " ") and x.endswith("=T")) or (x.startswith("(Lt " + bound + " ") and x.endswith("=F"))]
            key = "%s|%s|bound#%d" % (rule, f.short.rsplit("::", 1)[-1], k)
            if weak or not strict:
                rep.fail(rule, key, "%s rejects a range bound on %s: a bound equal to the length is valid (it denotes an empty "
                         "range at the end of the vector)" % (f.short, (weak or ["a test other than `bound > length`"])[0][:120]), [st["loc"]])
            else:
                rep.ok(rule, key, "%s rejects this bound only when it exceeds the length" % f.short, [st["loc"]])
    rep.floor(rule, "InvalidVectorIndex exits of the ranged vector procedures", n, 5)



def r14q(ctx, rep, rule="R14q"):
    """equal? is handed locations, not copies"""
    facts = ctx["facts"]
    rep.rule(rule, "identity needs the location: Vm::eqv answers 'same object' by comparing heap pointers — its own comment says that "
             "this covers every symbol, symbols being interned — and has no arm for two symbol *values*. The walkers behind equal? "
             "therefore hand the comparison what a pair or vector stores (the results of as_car / as_cdr / Vector::get, which are "
             "pointers for everything kept in the heap) and never a copy fetched through the pointer with Heap::get / "
             "get_at_index: a dereferenced symbol is equal to nothing, so (equal? '(1 . c) '(1 . c)) was #f.")
    pre = "marwood::vm::compare::<impl marwood::vm::Vm>::"
    n = 0
    for nm in ("compare_pair", "compare_vector"):
        f = need(rep, rule, facts, pre + nm)
        if f is None:
            continue
        k = 0
        for bb, t in f.calls():
            c = callee(t) or ""
            if not (c.endswith("::equal_seen") or c.endswith("::equal")):
                continue
            for ai in (1, 2):
                if ai >= len(t["args"]):
                    continue
                k += 1
                n += 1
                key = "%s|%s|equal-arg#%d" % (rule, nm, k)
                # every definition that can reach the argument
                bad = []
                seen, work = set(), [t["args"][ai]]
                steps = 0
                while work and steps < 60:
                    steps += 1
                    op = work.pop()
                    pl = op_place(op)
                    if pl is None:
                        continue
                    if (pl["l"], bool(pl["p"])) in seen:
                        continue
                    seen.add((pl["l"], bool(pl["p"])))
                    for d in f.defs().get(pl["l"], []):
                        if d[2] == "call":
                            cc = callee(d[3]) or ""
                            if cc.endswith(("heap::Heap::get", "heap::Heap::get_at_index")):
                                bad.append(d[3]["loc"])
                            elif cc.endswith(("::clone", "::deref", "::unwrap", "Try>::branch", "::borrow")) and d[3]["args"]:
                                work.append(d[3]["args"][0])
                        elif d[2] == "assign":
                            rv = d[3]["rv"]
                            if rv["k"] == "use":
                                work.append(rv["a"])
                            elif rv["k"] == "ref":
                                work.append({"copy": rv["place"]})
                (rep.ok if not bad else rep.fail)(
                    rule, key, "%s hands equal? a stored reference" % nm if not bad else
                    "%s hands equal? a value fetched with Heap::get / get_at_index: a symbol (or any atom kept in the heap) arrives as a "
                    "copy without its location, and eqv — which knows a symbol only by its pointer — calls two copies of one symbol "
                    "different" % nm, bad[:2])
    rep.floor(rule, "arguments handed to equal? by the walkers", n, 6)


def r14r(ctx, rep, rule="R14r"):
    """the accumulator holds scalars and references, never a freshly built aggregate"""
    facts = ctx["facts"]
    rep.rule(rule, "objects live in the heap: a vector, string, pair or closure has an identity only as a heap cell, and everything "
             "that stores %acc (define, set!, PUSH, vector-set!) stores what is in it. Wherever run_one assigns %acc a value it has "
             "just built with an aggregate constructor (VCell::vector, VCell::string, a Pair / Closure / Vector / String variant) "
             "the value passes through Heap::put / maybe_put first; an inline aggregate in %acc is copied by every later store, so "
             "(define v `#(1 2)) made (eq? v v) false and mutations through one copy were invisible through the other.")
    f = need(rep, rule, facts, RUN_ONE)
    if f is None:
        return
    AGG_CTORS = ("marwood::vm::vcell::VCell::vector", "marwood::vm::vcell::VCell::string", "marwood::vm::vcell::VCell::new_pair")
    AGG_VARIANTS = ("Vector", "String", "Pair", "Closure", "LexicalEnv", "Lambda", "Continuation")
    n = 0
    bad = []
    for bb, j, st in f.stmts():
        lp = st["lhs"]
        if not (lp["l"] == 1 and [e.get("n") for e in lp["p"] if isinstance(e, dict)][:1] == ["acc"]):
            continue
        n += 1
        rv = st["rv"]
        o = f.origin(rv["a"]) if rv["k"] == "use" else ("rv", st)
        inline = False
        if o[0] == "call" and (callee(o[1]) or "") in AGG_CTORS:
            inline = True
        if o[0] == "rv" and o[1]["rv"]["k"] == "agg" and (o[1]["rv"].get("adt") or "").endswith("vcell::VCell") and o[1]["rv"].get("variant") in AGG_VARIANTS:
            inline = True
        if inline:
            bad.append(st["loc"])
    for bb, t in f.calls():
        dp = t["dest"]
        if dp["l"] == 1 and [e.get("n") for e in dp["p"] if isinstance(e, dict)][:1] == ["acc"]:
            n += 1
            if (callee(t) or "") in AGG_CTORS:
                bad.append(t["loc"])
    key = rule + "|run_one|acc-gets-no-inline-aggregate"
    (rep.ok if not bad else rep.fail)(
        rule, key, "run_one assigns %%acc no aggregate it has just constructed without putting it on the heap (%d writes of %%acc)" % n if not bad else
        "run_one assigns %acc an aggregate straight from its constructor, without Heap::put: the object has no heap cell, every "
        "store of %acc copies it, and eq? on it is false", bad)
    rep.floor(rule, "writes of %acc in run_one", n, 7)


def r14s(ctx, rep, rule="R14s"):
    """eqv? tells two strings apart by where they are, not by what they hold"""
    facts = ctx["facts"]
    rep.rule(rule, "a string is an object with a location: (eqv? (string #\\a) (string #\\a)) is #f (R7RS 6.1), mutating one of two "
             "strings must not change whether they are eqv?, and memq / assq / case find a string only where that very string is. "
             "In Vm::eqv the arm for two strings therefore compares their locations (Rc::ptr_eq); it applies no comparison of "
             "contents (PartialEq of the Rc / RefCell / String).")
    f = need(rep, rule, facts, "marwood::vm::compare::<impl marwood::vm::Vm>::eqv")
    if f is None:
        return
    # the (String, String) arm: blocks under the String target of a switch on the left operand's discriminant and, inside it, of the right one's
    sws = disc_switches(facts, f, "marwood::vm::vcell::VCell")
    region = None
    for sw in sws:
        r = arm_region(f, sw, "String")
        if r:
            inner = [s2 for s2 in sws if s2["bb"] in r and "String" in s2["arms"]]
            if inner:
                r2 = arm_region(f, inner[0], "String")
                region = (r & r2) if r2 else None
                if region:
                    break
    key = rule + "|eqv|String,String"
    if not region:
        rep.anchor_lost(rule, "the (String, String) arm of Vm::eqv")
        return
    content, ident = [], []
    for bb, t in f.calls():
        if bb not in region:
            continue
        c = callee(t) or ""
        fa = t.get("fnargs") or ""
        if c.endswith("::ptr_eq"):
            ident.append(t["loc"])
        elif "PartialEq" in c or "PartialEq" in fa:
            content.append(t["loc"])
    ok = bool(ident) and not content
    (rep.ok if ok else rep.fail)(
        rule, key, "eqv compares two strings by location (Rc::ptr_eq)" if ok else
        "eqv compares two strings by their contents (PartialEq on the shared string): two distinct strings that spell the same are "
        "eqv? / eq?, memq and assq find a string that is merely spelled alike, and mutating one of them changes the answer", content or [f.span])


def r14t(ctx, rep, rule="R14t"):
    """eqv? knows every kind of value that has no location"""
    facts = ctx["facts"]
    rep.rule(rule, "(eqv? x x) holds for everything: Vm::eqv answers 'same object' by pointer only when both operands are heap "
             "references; a value that Heap::maybe_put leaves inline (it lists them: numbers, booleans, characters, the empty list, "
             "the unspecified value, the undefined value) reaches the type match, where it needs an arm of its own. The two tables "
             "must agree: every variant maybe_put returns as it is has an arm in eqv's match. A missing arm makes such a value "
             "different from itself — (let ((u (if #f #f))) (eq? u u)) was #f, and so was equal? on two lists that hold it.")
    mp = need(rep, rule, facts, "marwood::vm::heap::Heap::maybe_put")
    ev = need(rep, rule, facts, "marwood::vm::compare::<impl marwood::vm::Vm>::eqv")
    if mp is None or ev is None:
        return
    VC = "marwood::vm::vcell::VCell"
    inline = set()
    # variants of maybe_put's match whose arm returns the value unchanged: their target block does not call Heap::alloc / insert
    for sw in disc_switches(facts, mp, VC):
        by_target = {}
        for v, tg in sw["arms"].items():
            by_target.setdefault(tg, []).append(v)
        for tg, vs in by_target.items():
            reach = mp.reach_from(tg)
            allocs = [bb for bb, t in mp.calls() if bb in reach and (callee(t) or "").endswith(("Heap::alloc", "HashMap::<K, V, S, A>::get"))]
            if not allocs:
                inline |= set(vs)
    inline.discard("Ptr")
    rep.floor(rule, "VCell variants maybe_put leaves inline", len(inline), 6)
    armed = set()
    for sw in disc_switches(facts, ev, VC):
        for v, tg in sw["arms"].items():
            if tg != sw["otherwise"]:
                armed.add(v)
    for v in sorted(inline):
        key = "%s|eqv|%s" % (rule, v)
        (rep.ok if v in armed else rep.fail)(
            rule, key, "eqv has an arm for %s" % v if v in armed else
            "Heap::maybe_put leaves a %s value inline, and Vm::eqv has no arm for it: two such values fall through to `false`, so the "
            "value is not eqv? (nor eq?, nor equal?) to itself" % v, [ev.span])

def r14u(ctx, rep, rule="R14u"):
    """eqv? tells the two zeros apart"""
    facts = ctx["facts"]
    rep.rule(rule, "eqv? is finer than =: (eqv? 0.0 -0.0) is #f (R7RS 6.1 — the two print and divide differently) while (= 0.0 -0.0) "
             "is #t, and equal?, memv, assv, member, assoc and case rest on eqv?. IEEE equality of the two doubles cannot tell "
             "them apart, so Vm::eqv (or a helper of the compare module it calls) inspects the sign or the bits of a float: a "
             "call of f64::is_sign_negative / is_sign_positive / to_bits / signum / copysign / total_cmp. "
             "(case -0.0 ((0.0) 'pos) ((-0.0) 'neg)) was pos.")
    ev = need(rep, rule, facts, "marwood::vm::compare::<impl marwood::vm::Vm>::eqv")
    if ev is None:
        return
    scope = [ev] + [facts.fns[callee(t)] for bb, t in ev.calls()
                    if (callee(t) or "").startswith("marwood::vm::compare::") and callee(t) in facts.fns and callee(t) != ev.path]
    hits = []
    for g in scope:
        for bb, t in g.calls():
            c = (callee(t) or "") + " " + (t.get("fnargs") or "")
            if re.search(r"f64>?::(is_sign_negative|is_sign_positive|to_bits|signum|copysign|total_cmp)\b", c):
                hits.append(t["loc"])
    key = rule + "|eqv|sign-of-zero"
    (rep.ok if hits else rep.fail)(
        rule, key, "Vm::eqv inspects the sign / bits of a float (%d call%s)" % (len(hits), "" if len(hits) == 1 else "s") if hits else
        "Vm::eqv decides two floats by IEEE equality alone: 0.0 and -0.0 are eqv?, so (memv -0.0 '(0.0)) finds 0.0 and the clause "
        "((-0.0) ..) of a case after ((0.0) ..) is unreachable", hits or [ev.span])


def run(ctx, rep):
    r14a(ctx, rep)
    r14b(ctx, rep)
    r14c(ctx, rep)
    r14d(ctx, rep)
    r14e(ctx, rep)
    r14f(ctx, rep)
    r14g(ctx, rep)
    r14h(ctx, rep)
    r14i(ctx, rep)
    r14k(ctx, rep)
    r14l(ctx, rep)
    r14m(ctx, rep)
    r14o(ctx, rep)
    r14q(ctx, rep)
    r14r(ctx, rep)
    r14s(ctx, rep)
    r14t(ctx, rep)
    r14u(ctx, rep)
    from . import popbalance
    popbalance.r_arity_table(ctx, rep, "R14n", R7RS_ARITY_C14, "the list and vector procedures C14 names")
    from .C15 import fresh_results
    fresh_results(ctx, rep, "R14j", "Vector", "marwood::vm::vcell::VCell::vector", "vector", "vector-set!", 1, 3)
    from . import C06
    C06.r06a_restricted(ctx, rep, "R14p", ["marwood::vm::builtin::vector::", "marwood::vm::builtin::list::", "marwood::vm::vector::", "marwood::vm::compare::"],
                        "the list and vector procedures never abort", 20)
    rep.not_decided += ["that each procedure returns what R7RS specifies (value-level)",
                        "error-versus-wrong-answer for out-of-range indices", "equal?"]
