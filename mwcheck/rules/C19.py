"""C19 — depth is limited by memory, not by the host's native stack (R19a-b)."""
import re
from ..facts import callee, op_place, short_path
from .common import *

# Recursions whose depth does not grow with the data, each with the reason (reviewed by reading).
BOUNDED = [
    ({"marwood::vm::heap::Heap::alloc"}, "calls itself once after grow(), which makes the retry succeed"),
    ({"marwood::vm::stack::Stack::push"}, "calls itself once after grow(), which makes the retry succeed"),
    ({RUN + "get_str_bound_to"}, "slot -> symbol: the inner call takes the Ptr arm, depth 1"),
    ({"<marwood::error::Error as std::error::Error>::source", "<marwood::parse::Error as std::error::Error>::source",
      "<marwood::lex::Error as std::error::Error>::source"},
     "dyn Error::source over the static nesting Error > parse::Error > lex::Error: depth bounded by the types"),
    ({"<marwood::vm::vcell::VCell as std::cmp::PartialEq>::eq", "<marwood::vm::vector::Vector as std::cmp::PartialEq>::eq",
      "<marwood::vm::stack::Stack as std::cmp::PartialEq>::eq", "<marwood::vm::lambda::Lambda as std::cmp::PartialEq>::eq",
      "<marwood::vm::environment::EnvironmentMap as std::cmp::PartialEq>::eq",
      "<marwood::vm::environment::LexicalEnvironment as std::cmp::PartialEq>::eq",
      "<marwood::vm::continuation::Continuation as std::cmp::PartialEq>::eq"},
     "derived equality recurses only through containers of VCell; aggregates inside containers are Ptr cells "
     "(heap indices, compared as integers), so the depth is bounded by the container nesting of the types"),
]
BOUNDED_TYPES = {
    "marwood::vm::vcell::VCell": "owns other VCells only through Rc'd containers whose elements are Ptr cells (indices), "
                                 "so drop/clone depth is bounded by the container nesting of the types",
}


def _variant_hop(facts, path, sites):
    """A self-call that hops to another variant's arm once: every call site lies in the arm for variant X of a match on the
    receiver (argument 1), passes a receiver built on the spot as variant Y != X of the same enum, and the arm for Y contains no
    self-call. The depth of such a recursion is 2 whatever the data."""
    f = facts.fns.get(path)
    if f is None or f.argc < 1:
        return None
    ty = (f.locals[1] or "").replace("&mut ", "").replace("&", "").strip()
    if ty not in facts.adts:
        return None
    sws = [sw for sw in disc_switches(facts, f, ty) if sw["place"]["l"] == 1 or f.origin({"copy": sw["place"]})[0] == "arg"]
    if not sws:
        return None
    sw = sws[0]
    self_blocks = {bb for bb, t, k in sites}
    hops = []
    for bb, t, k in sites:
        if not isinstance(t, dict) or not t.get("args"):
            return None
        x = [v for v in sw["arms"] if bb in arm_region(f, sw, v)]
        if len(x) != 1:
            return None
        o = f.origin(t["args"][0])
        if o[0] == "rv" and o[1]["rv"]["k"] == "ref":
            o = f.origin({"copy": o[1]["rv"]["place"]})
        if not (o[0] == "rv" and o[1]["rv"]["k"] == "agg" and o[1]["rv"].get("adt") == ty):
            return None
        y = o[1]["rv"].get("variant")
        if y == x[0] or y not in sw["arms"]:
            return None
        if arm_region(f, sw, y) & self_blocks or not arm_region(f, sw, y):
            return None
        hops.append((x[0], y))
    if not hops:
        return None
    return "the call sits in the %s arm and passes a receiver built as %s, whose arm does not recurse (depth 2)" % (
        "/".join(sorted({h[0] for h in hops})), "/".join(sorted({h[1] for h in hops})))


def r19a(ctx, rep):
    facts, cg = ctx["facts"], ctx["cg"]
    rep.rule("R19a", "recursion inventory: every strongly connected component of the workspace call graph (with "
             "explicit edges for closures, the builtin function-pointer slot, dyn dispatch, format_args!, std "
             "forwarding impls of Clone/PartialEq/Hash/Debug/Display) is native recursion. Each recursive call edge is "
             "either in the reviewed bounded list (depth independent of the data) or a finding: its depth follows the "
             "nesting of the datum / expression being processed. Keyed per call edge with its site count, so a new "
             "recursive call in an already recursive function is still reported.")
    n_edges = 0
    n_scc = 0
    # a listed finding `R19a|a -> b|n` covers up to n sites of that edge: removing a recursive call site is
    # not a new finding, adding one is
    from ..core import load_known
    listed = {}
    for k in load_known().get("findings", []):
        if k.get("property") == "C19" and k["key"].startswith("R19a|"):
            edge, _, cnt = k["key"].rpartition("|")
            if cnt.isdigit():
                listed[edge] = max(listed.get(edge, 0), int(cnt))
    for comp in cg.sccs():
        cs = set(comp)
        if len(comp) == 1 and comp[0] not in cg.out.get(comp[0], ()):
            continue
        n_scc += 1
        why = None
        for names, reason in BOUNDED:
            if cs <= names:
                why = reason
        for a in sorted(cs):
            for b in sorted(cg.out.get(a, ())):
                if b not in cs:
                    continue
                sites = cg.sites[(a, b)]
                n = len(sites)
                n_edges += 1
                edge = "R19a|%s -> %s" % (short_path(a), short_path(b))
                key = "%s|%d" % (edge, listed[edge] if n <= listed.get(edge, 0) else n)
                locs = [t["loc"] for bb, t, k in sites if isinstance(t, dict) and "loc" in t]
                hop = None if why or a != b else _variant_hop(facts, a, sites)
                if why:
                    rep.ok("R19a", key, "recursion %s -> %s is bounded: %s" % (short_path(a), short_path(b), why), locs)
                elif hop:
                    rep.ok("R19a", key, "recursion %s -> %s is bounded: %s" % (short_path(a), short_path(b), hop), locs)
                else:
                    rep.fail("R19a", key, "native recursion %s -> %s (%d site(s), cycle of %d function(s)): depth follows "
                             "the nesting of the data, so a datum/expression nested 10^5 deep exhausts the native stack "
                             "and aborts the process" % (short_path(a), short_path(b), n, len(cs)), locs)
    rep.floor("R19a", "recursive components in the call graph", n_scc, 15)
    rep.floor("R19a", "recursive call edges", n_edges, 30)


OWNING = re.compile(r"marwood::[A-Za-z0-9_:]+")


def r19b(ctx, rep):
    facts = ctx["facts"]
    rep.rule("R19b", "recursive types: a local type that owns values of its own type (through Box/Vec/Option/Rc/"
             "tuples) and has no hand-written iterative Drop is dropped by compiler-generated recursive glue; likewise "
             "its derived Clone/PartialEq/Hash/Debug. One obligation per self-reaching type.")
    owns = {}
    for p, a in facts.adts.items():
        s = set()
        for v in a["variants"]:
            for f in v["fields"]:
                ty = f["ty"]
                ty = re.sub(r"(for<[^>]*> )?fn\(.*", "", ty)
                if ty.startswith("&"):
                    continue
                for m in OWNING.findall(ty):
                    if m in facts.adts:
                        s.add(m)
        owns[p] = s
    def reach(p, avoid=()):
        seen, st = set(), [p]
        while st:
            x = st.pop()
            for y in owns.get(x, ()):
                if y in avoid:
                    continue
                if y not in seen:
                    seen.add(y)
                    st.append(y)
        return seen
    n = 0
    has_drop = {f.impl_self for f in facts.fns.values() if f.impl_trait == "std::ops::Drop"}
    for p in sorted(facts.adts):
        if p in reach(p):
            n += 1
            key = "R19b|%s" % short_path(p)
            via = [b for b in BOUNDED_TYPES if p == b or p not in reach(p, avoid={b})]
            if via:
                rep.ok("R19b", key, "%s reaches itself only through %s, which %s" % (
                    short_path(p), short_path(via[0]), BOUNDED_TYPES[via[0]]), [facts.adts[p]["loc"]])
            elif p in has_drop:
                rep.ok("R19b", key, "%s reaches itself and has a hand-written Drop" % short_path(p), [facts.adts[p]["loc"]])
            else:
                rep.fail("R19b", key, "%s owns values of its own type and relies on compiler-generated drop glue (and "
                         "derived Clone/PartialEq/Hash), which recurse once per nesting level: dropping, cloning or "
                         "comparing a value nested 10^5 deep exhausts the native stack" % short_path(p),
                         [facts.adts[p]["loc"]])
    rep.floor("R19b", "self-reaching local types", n, 2)


def r19c(ctx, rep):
    from . import C03
    facts = ctx["facts"]
    rep.rule("R19c", "the marker stays iterative along cdr: in Heap::mark the cdr field of a Pair (and the target of a Ptr) "
             "flows into the loop cursor that feeds gc::Map::mark, not into a recursive marker call — the anchor's "
             "'iterative on cdr, recursive on car'. Delegating pairs to a routine that recurses on both fields makes the "
             "native depth follow list length.")
    fn = need(rep, "R19c", facts, C03.MARK)
    if fn is None:
        return
    if not fn.back_edges():
        rep.fail("R19c", "R19c|mark|loop", "Heap::mark no longer contains a loop: every cell visited costs a native frame", [fn.span])
        return
    reach = C03.marker_flows(facts, fn)
    for v, i in (("Pair", 1), ("Ptr", 0)):
        got = reach.get((v, i), set())
        key = "R19c|mark|%s.%d" % (v, i)
        if "loop-cursor" in got:
            rep.ok("R19c", key, "VCell::%s field %d is followed by the loop cursor" % (v, i), [fn.span])
        else:
            rep.fail("R19c", key, "Heap::mark does not follow VCell::%s field %d with its loop cursor (it reaches %s): a list "
                     "10^5 long costs 10^5 nested marker frames" % (v, i, ", ".join(sorted(got)) or "nothing"), [fn.span])


def r19h(ctx, rep, rule="R19h"):
    from .. import shapes
    facts = ctx["facts"]
    GAC = "marwood::vm::heap::Heap::get_as_cell"
    rep.rule(rule, "the datum conversion stays iterative along cdr: Heap::get_as_cell walks the spine of a list in a loop; a "
             "recursive call of it may receive the cdr of a pair (as_cdr / the second Pair field) only where an is_pair test of "
             "that value failed (the tail of an improper list). Recursing on the cdr of every pair costs one native frame per "
             "list element — flat lists of ordinary length then overflow behind display, write, error and every result.")
    f = need(rep, rule, facts, GAC)
    if f is None:
        return
    # the conversion proper may live in a helper the entry point delegates to (get_as_cell -> get_as_cell_under)
    if not f.back_edges():
        for bb, t in f.calls():
            g = facts.fns.get(callee(t) or "")
            if g is not None and g.path.startswith(GAC) and g.back_edges():
                f, GAC = g, g.path
                break
    if not f.back_edges():
        rep.fail(rule, rule + "|get_as_cell|loop", "Heap::get_as_cell no longer contains a loop over the cdr chain", [f.span])
    else:
        rep.ok(rule, rule + "|get_as_cell|loop", "Heap::get_as_cell walks the cdr chain in a loop", [f.span])
    k = 0
    for bb, t in f.calls():
        if callee(t) != GAC or len(t["args"]) < 2:
            continue
        sh = shapes.shape(f, t["args"][1], 6)
        if not ("as_cdr(" in sh or ".Pair.1" in sh):
            continue
        k += 1
        key = "%s|get_as_cell|cdr-recursion#%d" % (rule, k)
        ok = any(g.startswith("vm::vcell::VCell::is_pair(") and g.endswith("=F") and ("as_cdr(" in g or ".Pair.1" in g)
                 for g in shapes.guard_shapes(f, bb, None, 5))
        (rep.ok if ok else rep.fail)(
            rule, key, "get_as_cell recurses on a cdr only after is_pair failed for it (improper tail)" if ok else
            "get_as_cell calls itself on the cdr of a pair with no failed is_pair test of that value: the native depth follows "
            "the length of the list", [t["loc"]])


def r19i(ctx, rep, rule="R19i"):
    from .. import shapes
    facts = ctx["facts"]
    rep.rule(rule, "premise of the reviewed retry-after-grow recursions (Stack::push, Heap::alloc call themselves once after "
             "grow()): grow always makes room — its Vec::resize is executed on every path through grow (it dominates every "
             "return) and the new length is not capped (no min / clamp / saturating step in its computation). With a cap, a "
             "full stack at the cap makes push call itself without progress until the native stack is exhausted.")
    for owner, grow in (("marwood::vm::stack::Stack::push", "marwood::vm::stack::Stack::grow"),
                        ("marwood::vm::heap::Heap::alloc", "marwood::vm::heap::Heap::grow")):
        o = need(rep, rule, facts, owner)
        g = need(rep, rule, facts, grow)
        if o is None or g is None:
            continue
        key = "%s|%s" % (rule, short_path(grow))
        if not any(callee(t) == grow for bb, t in o.calls()):
            rep.anchor_lost(rule, "%s no longer calls %s" % (short_path(owner), short_path(grow)))
            continue
        rs = [(bb, t) for bb, t in g.calls() if (callee(t) or "").endswith("Vec::<T, A>::resize")]
        if not rs:
            rep.anchor_lost(rule, "%s has no Vec::resize" % short_path(grow))
            continue
        rets = g.return_blocks()
        uncond = [(bb, t) for bb, t in rs if all(g.dominates(bb, r) for r in rets)]
        capped = [shapes.shape(g, t["args"][1], 6) for bb, t in rs
                  if re.search(r"::min\(|::clamp\(|saturating_|::min_by", shapes.shape(g, t["args"][1], 6))]
        if not uncond:
            rep.fail(rule, key, "%s does not resize on every path: when it returns without growing, the retry in %s recurses "
                     "without progress until the native stack overflows" % (short_path(grow), short_path(owner)), [g.span])
        elif capped:
            rep.fail(rule, key, "%s caps the new length (%s): at the cap it no longer makes room, and the retry in %s recurses "
                     "without progress until the native stack overflows" % (short_path(grow), capped[0][:100], short_path(owner)), [g.span])
        else:
            rep.ok(rule, key, "%s resizes unconditionally to an uncapped larger length" % short_path(grow), [g.span])


MATERIALISERS = {
    # function -> why it may turn run-time data into a (natively recursive) datum on a success path
    "marwood::vm::heap::Heap::get_as_cell": "the conversion itself (its own recursion is an R19a entry)",
    "marwood::vm::heap::Heap::get_as_cell_under": "the conversion itself (its own recursion is an R19a entry)",
    "marwood::vm::builtin::ports::display": "output: the datum is what gets printed",
    "marwood::vm::builtin::ports::write": "output: the datum is what gets printed",
    "marwood::vm::builtin::procedure::error": "the irritants become the error's payload (the procedure never returns Ok)",
    "marwood::vm::builtin::procedure::eval": "eval's argument is a datum by definition; it is handed to the compiler",
    "marwood::vm::run::<impl marwood::vm::Vm>::run_count": "the result of an evaluation is returned to the host as a datum",
    "marwood::vm::opcode::<impl marwood::vm::Vm>::decompile_one": "diagnostic rendering of bytecode operands",
}


def r19d(ctx, rep, rule="R19d"):
    facts = ctx["facts"]
    rep.rule(rule, "run-time data is turned into a datum only where the language asks for one: Heap::get_as_cell builds a Cell "
             "tree whose construction (car direction) and destruction (compiler-generated Drop, both directions) recurse on "
             "the native stack — the recorded R19a/R19b findings. Every call of it is either error-only (each path from the "
             "call to a return passes the construction of an Err: the datum is the payload of an error message) or lies in one "
             "of the reviewed materialisers (output, eval, the result handed to the host). A conversion on the success path "
             "of an ordinary procedure makes its native depth follow the size of its argument.")
    n = 0
    seen_fns = set()
    for p, f in sorted(facts.fns.items()):
        if f.crate != "marwood" or "::tests::" in p:
            continue
        sites = [(bb, t) for bb, t in f.calls() if (callee(t) or "").endswith(("Heap::get_as_cell", "Heap::get_as_cell_under"))]
        if not sites:
            continue
        E = {bb for bb, j, st in f.stmts() if st["rv"]["k"] == "agg" and st["rv"].get("variant") == "Err"}
        rets = set(f.return_blocks())
        k = 0
        for bb, t in sites:
            n += 1
            k += 1
            base = p.split("::{closure")[0]
            key = "%s|%s|site#%d" % (rule, short_path(p), k)
            if base in MATERIALISERS:
                seen_fns.add(base)
                rep.ok(rule, key, "%s: reviewed materialiser (%s)" % (short_path(p), MATERIALISERS[base]), [t["loc"]])
                continue
            reach = f.reach_from(t["target"], avoid=E) if t.get("target") is not None else set()
            if reach & rets:
                rep.fail(rule, key, "%s converts a run-time value to a datum on a path that can return without constructing an "
                         "error: the Cell is built (and dropped) even when the call succeeds, so the native depth of an ordinary "
                         "call follows the length / nesting of its argument" % short_path(p), [t["loc"]])
            else:
                rep.ok(rule, key, "%s: the datum is built only on the way to an Err" % short_path(p), [t["loc"]])
    rep.floor(rule, "call sites of Heap::get_as_cell", n, 30)
    for m in sorted(set(MATERIALISERS) - seen_fns):
        rep.ok(rule, "%s|table|%s" % (rule, short_path(m)), "reviewed materialiser %s no longer converts (entry unused)" % short_path(m), nontrivial=False)


def r19e(ctx, rep, rule="R19e"):
    facts = ctx["facts"]
    rep.rule(rule, "equal? answers identity before it descends: in Vm::equal every call of compare_pair / compare_vector is "
             "dominated by the call of Vm::eqv (same object => #t without looking inside). Without it, comparing a deep "
             "structure with itself — (equal? x x), (member x l) — costs one native frame per level, like the comparison of "
             "two distinct deep structures that is already on the findings list.")
    f = need(rep, rule, facts, "marwood::vm::compare::<impl marwood::vm::Vm>::equal")
    if f is None:
        return
    # the comparison proper may live in a helper the entry point delegates to (equal -> equal_seen)
    pre = "marwood::vm::compare::<impl marwood::vm::Vm>::"
    if not any((callee(t) or "").endswith(("::compare_pair", "::compare_vector")) for bb, t in f.calls()):
        for bb, t in f.calls():
            g = facts.fns.get(callee(t) or "")
            if g is not None and g.path.startswith(pre) and any((callee(t2) or "").endswith(("::compare_pair", "::compare_vector")) for b2, t2 in g.calls()):
                f = g
                break
    eqv = [bb for bb, t in f.calls() if (callee(t) or "").endswith("::eqv")]
    desc = [(bb, t) for bb, t in f.calls() if (callee(t) or "").endswith(("::compare_pair", "::compare_vector"))]
    if not desc:
        rep.anchor_lost(rule, "descending calls in Vm::equal")
        return
    for i, (bb, t) in enumerate(desc):
        ok = any(f.dominates(e, bb) for e in eqv)
        nm = (callee(t) or "").rsplit("::", 1)[-1]
        (rep.ok if ok else rep.fail)(rule, "%s|equal|%s" % (rule, nm), "%s is reached only after the identity test" % nm if ok else
                                     "Vm::equal can call %s without having tested identity with eqv first: (equal? x x) on a deeply "
                                     "nested x recurses once per level and exhausts the native stack" % nm, [t["loc"]])


def r19f(ctx, rep, rule="R19f"):
    facts = ctx["facts"]
    rep.rule(rule, "a datum is not copied for an error that does not happen: a Cell::clone whose result is consumed only by the "
             "construction of an Error value (the payload of `expected pair, but found ...`) lies on a path that constructs "
             "an Err — e.g. inside the None arm of a match, or an ok_or_else closure. Option::ok_or(Error(..clone())) "
             "evaluates its argument eagerly: every successful car / cdr of the compiler then deep-copies and drops the "
             "whole expression, and the copy and the drop both recurse on the native stack along the list.")
    n = 0
    bad_n = 0
    for p, f in sorted(facts.fns.items()):
        if f.crate != "marwood" or "::tests::" in p or f.impl_trait in DERIVE_TRAITS:
            continue
        sites = [(bb, t) for bb, t in f.calls() if (t.get("fnargs") or callee(t) or "") == "<marwood::cell::Cell as std::clone::Clone>::clone"
                 and not t["dest"]["p"]]
        if not sites:
            continue
        E = {bb for bb, j, st in f.stmts() if st["rv"]["k"] == "agg" and st["rv"].get("variant") == "Err"}
        rets = set(f.return_blocks())
        k = 0
        for bb, t in sites:
            d = t["dest"]["l"]
            uses = []
            for b2, j2, st in f.stmts():
                rv = st["rv"]
                ops = rv.get("ops", []) + ([rv["a"]] if "a" in rv else []) + ([rv["b"]] if "b" in rv else [])
                if any((op_place(o) or {}).get("l") == d for o in ops):
                    uses.append(("agg-error" if rv["k"] == "agg" and (rv.get("adt") or "") == "marwood::error::Error" else "stmt", st))
                elif rv["k"] == "ref" and rv["place"]["l"] == d:
                    uses.append(("stmt", st))
            for b2, t2 in f.calls():
                if any((op_place(a) or {}).get("l") == d for a in t2["args"]):
                    uses.append(("call", t2))
            if not uses or any(u[0] != "agg-error" for u in uses):
                continue
            n += 1
            k += 1
            reach = f.reach_from(t["target"], avoid=E) if t.get("target") is not None else set()
            ok = not (reach & rets)
            if not ok:
                bad_n += 1
            (rep.ok if ok else rep.fail)(rule, "%s|%s|clone#%d" % (rule, f.short, k),
                                         "%s: the copy feeding an error payload is made only on the way to an Err" % f.short if ok else
                                         "%s copies a datum for an error payload on a path that can succeed (eager ok_or): each successful "
                                         "step deep-copies and drops the expression, recursing along its length" % f.short, [t["loc"]])
    rep.floor(rule, "datum copies made for error payloads", n, 20)


def r19g(ctx, rep, rule="R19g"):
    from .numeric import _base_chain
    facts = ctx["facts"]
    rep.rule(rule, "equal? stays iterative along cdr: compare_pair keeps its loop, and no call of Vm::equal inside it takes an "
             "operand obtained directly from as_cdr (the cdr of both lists feeds the loop cursors). The textbook form "
             "equal(car) && equal(cdr) costs one native frame per list element, so comparing two long lists aborts.")
    f = need(rep, rule, facts, "marwood::vm::compare::<impl marwood::vm::Vm>::compare_pair")
    if f is None:
        return
    if not f.back_edges():
        rep.fail(rule, "%s|compare_pair|loop" % rule, "compare_pair no longer contains a loop: every pair of a list costs a native frame", [f.span])
        return
    bad = []
    for bb, t in f.calls():
        if not (callee(t) or "").endswith("::equal"):
            continue
        for a in t["args"][1:]:
            for l in _base_chain(f, a):
                sd = f.single_def(l)
                if sd is not None and sd[2] == "call":
                    c = callee(sd[3]) or ""
                    if c.endswith("VCell::as_cdr"):
                        bad.append(t)
                    elif "Try>::branch" in (sd[3].get("fnargs") or c) and sd[3]["args"]:
                        o = f.origin(sd[3]["args"][0])
                        if o[0] == "call" and (callee(o[1]) or "").endswith("VCell::as_cdr"):
                            bad.append(t)
    key = "%s|compare_pair|cdr" % rule
    if bad:
        rep.fail(rule, key, "compare_pair hands the cdr of its operands to a recursive Vm::equal call instead of to its loop "
                 "cursors: native depth follows the length of the lists", [bad[0]["loc"]])
    else:
        rep.ok(rule, key, "compare_pair loops along cdr and recurses only on car / the terminal tail", [f.span])


def run(ctx, rep):
    r19a(ctx, rep)
    r19b(ctx, rep)
    r19c(ctx, rep)
    r19d(ctx, rep)
    r19e(ctx, rep)
    r19f(ctx, rep)
    r19g(ctx, rep)
    r19h(ctx, rep)
    r19i(ctx, rep)
    rep.not_decided += ["actual frame sizes and the depth at which the abort happens",
                        "recursion hidden inside external crates (num, std)"]
