"""C02 — lexical scoping: structural clauses R02a-e."""
from ..facts import callee, op_const, op_place, short_path
from ..flow import Labels, places_read
from .common import *
from . import C01

ENVMOD = "marwood::vm::environment::"
OPCODE = "marwood::vm::opcode::OpCode"
OPERAND_VARIANTS = {"Acc", "Ptr", "BasePointerOffset", "GlobalEnvSlot", "LexicalEnvSlot"}


def r02b(ctx, rep):
    facts = ctx["facts"]
    rep.rule("R02b", "load/store symmetry: Vm::load_operand and Vm::store_operand are sibling implementations over the "
             "operand kinds; they must handle the same set of VCell operand variants, and in the LexicalEnvSlot arm both "
             "must test the slot content for LexicalEnvPtr and follow it — a store that does not follow the indirection "
             "writes a private copy and closures stop sharing one location.")
    arms = {}
    for nm in ("load_operand", "store_operand"):
        f = need(rep, "R02b", facts, RUN + nm)
        if f is None:
            return
        sws = [sw for sw in disc_switches(facts, f, VCELL) if {"Acc", "LexicalEnvSlot"} <= set(sw["arms"])]
        if not sws:
            rep.anchor_lost("R02b", "operand dispatch in %s" % nm)
            return
        sw = sws[0]
        handled = {v for v, t in sw["arms"].items() if t != sw["otherwise"]}
        reg = arm_region(f, sw, "LexicalEnvSlot")
        inner = [s2 for s2 in disc_switches(facts, f, VCELL) if s2["bb"] in reg and "LexicalEnvPtr" in s2["arms"]]
        follows = False
        if inner:
            r2 = arm_region(f, inner[0], "LexicalEnvPtr")
            follows = any(callee(t) in (ENVMOD + "LexicalEnvironment::get", ENVMOD + "LexicalEnvironment::put")
                          for bb, t in f.calls() if bb in r2) and \
                any(callee(t) == HEAP + "get_at_index" for bb, t in f.calls() if bb in r2)
        arms[nm] = (handled, bool(inner), follows, f)
    lh, sh = arms["load_operand"][0], arms["store_operand"][0]
    key = "R02b|operand-kinds"
    if lh == sh:
        rep.ok("R02b", key, "load_operand and store_operand handle the same operand kinds %s" % sorted(lh), [arms["load_operand"][3].span])
    else:
        rep.fail("R02b", key, "load_operand handles %s but store_operand handles %s: a location that can be read cannot be "
                 "written (or vice versa)" % (sorted(lh), sorted(sh)), [arms["store_operand"][3].span])
    rep.floor("R02b", "operand kinds", len(lh & sh), 5)
    for nm in ("load_operand", "store_operand"):
        handled, tests, follows, f = arms[nm]
        key = "R02b|%s|follows-slot-indirection" % nm
        if tests and follows:
            rep.ok("R02b", key, "%s follows a LexicalEnvPtr found in the addressed slot" % nm, [f.span])
        else:
            rep.fail("R02b", key, "%s does not follow a LexicalEnvPtr stored in the addressed environment slot: %s" % (
                nm, "an assignment through a captured variable updates a private copy, so closures of one activation stop "
                "sharing the location" if nm.startswith("store") else "a reference to a captured variable yields the "
                "indirection instead of the value"), [f.span])


def r02c(ctx, rep):
    facts = ctx["facts"]
    rep.rule("R02c", "binding order: EnvironmentMap::get_slot returns the first match, so 'innermost wins' is the "
             "construction order own arguments -> internal definitions -> inherited bindings in "
             "EnvironmentMap::new_from_iof (dominance order of the three construction steps), and "
             "Lambda::binding_location consults the environment map before the argument list before falling back to Global.")
    f = need(rep, "R02c", facts, ENVMOD + "EnvironmentMap::new_from_iof")
    if f is not None:
        BS = ENVMOD + "BindingSource"
        where = {}
        for c in facts.closures_of(f):
            for bb, j, s in c.stmts():
                if s["rv"]["k"] == "agg" and s["rv"].get("adt") == BS:
                    where.setdefault(s["rv"]["variant"], set()).add(c.path)
        use_bb = {}
        for bb, t in f.calls():
            for ga in t.get("gargs", []):
                cp = ga.get("closure")
                for v, cs in where.items():
                    if cp in cs:
                        use_bb.setdefault(v, []).append(bb)
        # a closure passed to map() is consumed where the resulting iterator is consumed; approximate by the first
        # block that mentions it, which is in source order for this builder-style function
        need_v = ["Argument", "InternalDefinition"]
        inh = [v for v in ("IofEnvironment", "IofArgument") if v in use_bb]
        if not all(v in use_bb for v in need_v) or not inh:
            rep.anchor_lost("R02c", "construction of Argument / InternalDefinition / Iof* bindings in new_from_iof (found %s)" % sorted(use_bb))
        else:
            a, d = min(use_bb["Argument"]), min(use_bb["InternalDefinition"])
            i = min(min(use_bb[v]) for v in inh)
            ok1 = f.dominates(a, d) and a != d
            ok2 = f.dominates(d, i) and d != i
            (rep.ok if ok1 else rep.fail)("R02c", "R02c|new_from_iof|arguments-before-internal-definitions",
                                          "own arguments are entered before internal definitions" if ok1 else
                                          "internal definitions are entered before (or not after) the procedure's own arguments",
                                          [f.span])
            (rep.ok if ok2 else rep.fail)("R02c", "R02c|new_from_iof|internal-definitions-before-inherited",
                                          "internal definitions are entered before inherited bindings" if ok2 else
                                          "inherited bindings are entered before the procedure's internal definitions: an inner "
                                          "(define y ..) that reuses an enclosing variable's name resolves to the enclosing slot "
                                          "and overwrites the outer variable", [f.span])
        gs = facts.fn(ENVMOD + "EnvironmentMap::get_slot")
        if gs is not None:
            first = any(callee(t).endswith("::find") or "Iterator>::find" in (t.get("fnargs") or "") for bb, t in gs.calls())
            rev = any(callee(t).endswith("::rev") or "rfind" in callee(t) or "rposition" in callee(t) for bb, t in gs.calls())
            (rep.ok if first and not rev else rep.fail)("R02c", "R02c|get_slot|first-match",
                                                         "get_slot returns the first matching entry" if first and not rev else
                                                         "get_slot no longer returns the first matching entry: the construction order "
                                                         "no longer means 'innermost wins'", [gs.span])
    bl = need(rep, "R02c", facts, "marwood::vm::lambda::Lambda::binding_location")
    if bl is not None:
        gsl = [bb for bb, t in bl.calls() if callee(t) == ENVMOD + "EnvironmentMap::get_slot"]
        it = [bb for bb, t in bl.calls() if "enumerate" in callee(t) or "Iterator>::find" in (t.get("fnargs") or "") or callee(t).endswith("::iter")]
        glob = [bb for bb, j, s in bl.stmts() if s["rv"]["k"] == "agg" and s["rv"].get("variant") == "Global"]
        envb = [bb for bb, j, s in bl.stmts() if s["rv"]["k"] == "agg" and s["rv"].get("variant") == "Environment"]
        ok = bool(gsl) and bool(it) and bool(glob) and all(bl.dominates(gsl[0], b) for b in it + glob) and \
            all(any(bl.dominates(b2, g) for b2 in it) for g in glob)
        (rep.ok if ok else rep.fail)("R02c", "R02c|binding_location|order",
                                     "binding_location tries the environment map, then the arguments, then Global" if ok else
                                     "binding_location does not try environment map -> arguments -> Global in that order: a "
                                     "captured or internally defined variable is shadowed by a parameter or global of the same name",
                                     [bl.span])


def r02d(ctx, rep):
    facts = ctx["facts"]
    rep.rule("R02d", "bindings do not leak to siblings: find_free_symbols scans each compound sub-form against a copy of "
             "the set of bound names (every path to the call of find_free_symbols_in_proc passes a clone of the incoming "
             "set), because the define/lambda arms insert the formals they meet into the set they are given.")
    f0 = need(rep, "R02d", facts, ENVMOD + "find_free_symbols")
    if f0 is None:
        return
    total = 0
    for p_, f in sorted(facts.fns.items()):
        calls = [(bb, t) for bb, t in f.calls() if callee(t) == ENVMOD + "find_free_symbols_in_proc"]
        if not calls:
            continue
        clones = [bb for bb, t in f.calls() if "HashSet" in (t.get("fnargs") or "") and callee(t).endswith("Clone>::clone")
                  or ("std::collections::HashSet" in (t.get("fnargs") or "") and "clone" in callee(t))]
        for i, (bb, t) in enumerate(calls):
            total += 1
            # the env argument must originate from the clone, on every path
            o = f.origin(t["args"][1]) if len(t["args"]) > 1 else None
            from_clone = False
            cur = o
            if cur is not None:
                if cur[0] == "call" and "clone" in callee(cur[1]):
                    from_clone = True
                elif cur[0] == "local":
                    ds = [d for d in f.defs().get(cur[1], []) if d[2] != "partial"]
                    from_clone = bool(ds) and all(d[2] == "call" and "clone" in callee(d[3]) for d in ds)
            free = f.reach_from(0, avoid=clones)
            ok = from_clone and bb not in free
            (rep.ok if ok else rep.fail)("R02d", "R02d|%s|scan-on-copy#%d" % (f.short.rsplit("::", 1)[-1], i + 1),
                                         "the sub-form is scanned against a fresh copy of the bound-name set" if ok else
                                         "%s hands find_free_symbols_in_proc its caller's own bound-name set: the define/lambda arms "
                                         "insert the formals they meet into the set they are given, so formals of an inner lambda stay "
                                         "'bound' for sibling expressions (operands of ((lambda (x) ..) init), later body forms), whose "
                                         "references to an outer variable of that name are then not captured" % f.short, [t["loc"]])
    if not total:
        rep.anchor_lost("R02d", "call of find_free_symbols_in_proc")


def r02e(ctx, rep):
    facts = ctx["facts"]
    rep.rule("R02e", "separate activations get separate locations: in the ENTER handler every write of the environment "
             "pointer stores an environment freshly built by build_lexical_environment for this activation (def-use from "
             "that call to the written value); reusing the closure's own environment makes all activations share one.")
    fn = need(rep, "R02e", facts, RUN_ONE)
    if fn is None:
        return
    sws = [sw for sw in disc_switches(facts, fn, OPCODE) if "Enter" in sw["arms"]]
    if not sws:
        rep.anchor_lost("R02e", "Enter arm in run_one")
        return
    reg = arm_region(fn, sws[0], "Enter")
    BLE = RUN + "build_lexical_environment"

    def transfer(t, al):
        if callee(t) == BLE:
            return {"fresh"}
        return None
    lab = Labels(fn, call_transfer=transfer)
    writes = []
    for bb, j, s in fn.stmts():
        if bb in reg and s["lhs"]["l"] == 1 and [e.get("n") for e in s["lhs"]["p"] if isinstance(e, dict)] == ["ep"]:
            ls = set()
            for p in places_read(s["rv"]):
                ls |= lab.of_place(p)
            writes.append((s, ls))
    has_call = any(callee(t) == BLE for bb, t in fn.calls() if bb in reg)
    if not writes or not has_call:
        rep.fail("R02e", "R02e|Enter|fresh-environment", "the ENTER handler no longer %s: activations of a closure share the "
                 "closure's environment object" % ("writes the environment pointer" if not writes else
                                                   "calls build_lexical_environment"), [fn.span])
        return
    for i, (s, ls) in enumerate(writes):
        ok = "fresh" in ls
        (rep.ok if ok else rep.fail)("R02e", "R02e|Enter|ep-write#%d" % (i + 1),
                                     "ENTER stores an environment built for this activation" if ok else
                                     "ENTER stores an environment pointer that was not built by build_lexical_environment for this "
                                     "activation: every activation of the closure shares one set of locations (internal "
                                     "definitions and captured arguments of different calls overwrite each other)", [s["loc"]])


def r02h(ctx, rep, rule="R02h"):
    facts = ctx["facts"]
    from . import tables
    from .. import shapes
    rep.rule(rule, "the free-variable scan may skip an operand only where the form declares it: every keyword arm of "
             "find_free_symbols_in_proc that continues the scan past an operand (takes a cdr of the operand list) adds the "
             "names it skipped to the bound set (HashSet::insert on env) in the same arm. An arm that skips an operand "
             "without declaring anything hides a reference — the skipped name is then missing from the closure's "
             "environment map and resolves to the global of that name.")
    f = need(rep, rule, facts, C01.FFS)
    if f is None:
        return
    arms = tables.str_eq_consts(f)
    rep.floor(rule, "keyword arms of the free-variable scan", len(arms), 2)
    for kw, bb, t in arms:
        key = "%s|%s" % (rule, kw)
        if t.get("target") is None or f.blocks[t["target"]]["term"]["k"] != "switch":
            rep.anchor_lost(rule, "keyword test of `%s` is not followed by a branch" % kw)
            continue
        sw = f.blocks[t["target"]]["term"]
        tru = sw["otherwise"]
        excl = {b for b in f.reachable() if f.dominates(tru, b)} if len([p for p in f.pred[tru] if p in f.reachable()]) == 1 else set()
        skips = [b2 for b2, t2 in f.calls() if b2 in excl and callee(t2) == "marwood::cell::Cell::cdr"
                 and shapes.shape(f, t2["args"][0]) == "a1.1"]
        inserts = [b2 for b2, t2 in f.calls() if b2 in excl and ((callee(t2) or "").endswith("HashSet::<T, S, A>::insert") or re.search(r"HashSet<.*> as std::iter::Extend<.*>>::extend$", callee(t2) or ""))
                   and shapes.shape(f, t2["args"][0]) == "a2"]
        if not skips:
            rep.ok(rule, key, "the `%s` arm skips no operand" % kw, [f.span], nontrivial=False)
        elif inserts:
            rep.ok(rule, key, "the `%s` arm skips its first operand and declares the names in it as bound" % kw, [t.get("loc") or f.span])
        else:
            rep.fail(rule, key, "the `%s` arm of the free-variable scan skips an operand but declares no binder: a variable "
                     "that occurs only there (e.g. the target of an assignment) is never captured, and the compiler resolves "
                     "it to a global" % kw, [t.get("loc") or f.span])


def r02j(ctx, rep, rule="R02j"):
    from .. import shapes
    facts = ctx["facts"]
    rep.rule(rule, "the internal-definition scan recognises every definition the compiler accepts: compile_define treats any pair in "
             "the target position as (variable . formals) — proper or dotted — so internally_defined_symbols must register the "
             "car of the target under an is_pair test (or Pair arm), not under a narrower test such as is_list. A definition "
             "the scan misses gets no slot of its own and assigns the enclosing procedure's variable or the global of that name.")
    f = need(rep, rule, facts, ENVMOD + "internally_defined_symbols")
    if f is None:
        return
    ins = [(bb, t) for bb, t in f.calls() if (callee(t) or "").endswith("HashSet::<T, S, A>::insert")]
    rep.floor(rule, "registrations in internally_defined_symbols", len(ins), 2)
    def same(o1, o2):
        if o1[0] != o2[0]:
            return False
        if o1[0] == "call":
            return o1[1] is o2[1] and o1[2] == o2[2]
        if o1[0] in ("local", "arg"):
            return o1[1] == o2[1] and o1[2] == o2[2]
        return False

    def through(op, names):
        """peel `unwrap(call(x))` for call in names: returns the operand x, or None"""
        o = f.origin(op)
        if o[0] == "call" and (callee(o[1]) or "").endswith("Option::<T>::unwrap"):
            o2 = f.origin(o[1]["args"][0])
            if o2[0] == "call" and (callee(o2[1]) or "").rsplit("::", 1)[-1] in names:
                return o2[1]["args"][0]
        return None
    k = 0
    for bb, t in ins:
        target = through(t["args"][1], ("car",))          # the inserted name is (car target)
        if target is None or through(target, ("car",)) is None:   # and target is itself (car operands): the procedure form
            continue
        k += 1
        to = f.origin(target)
        tests = []
        for sbb, cond, taken, tt in shapes.dominating_guards(f, bb):
            co = f.origin(cond)
            if co[0] == "call" and (callee(co[1]) or "").startswith("marwood::cell::Cell::is_") and co[1]["args"] and same(f.origin(co[1]["args"][0]), to):
                tests.append(((callee(co[1]) or "").rsplit("::", 1)[-1], taken))
        pair = any(n == "is_pair" and tk == "else" for n, tk in tests)
        narrower = [n for n, tk in tests if tk == "else" and n not in ("is_pair", "is_symbol")]
        key = "%s|internally_defined_symbols|procedure-form#%d" % (rule, k)
        if pair and not narrower:
            rep.ok(rule, key, "the procedure form of an internal define is recognised by is_pair on its target", [t["loc"]])
        else:
            rep.fail(rule, key, "internally_defined_symbols registers the name of (define (name . formals) ..) only under %s: a "
                     "definition with a rest parameter — (define (f . r) ..), (define (f a . r) ..) — compiles, but gets no "
                     "internal-definition slot and clobbers an outer binding of that name" % (
                         ", ".join(narrower or [n for n, tk in tests]) or "no test of the target"), [t["loc"]])
    if k == 0:
        rep.anchor_lost(rule, "registration of the procedure form in internally_defined_symbols")


def r02m(ctx, rep, rule="R02m"):
    """formals are not expressions"""
    facts = ctx["facts"]
    TPA = "marwood::vm::compile::<impl marwood::vm::Vm>::transform_procedure_application"
    rep.rule(rule, "a binding position is not an expression: the formals of a lambda and the head of a procedure definition name "
             "variables, and a variable may be named like a derived form (R7RS 4.3: a binding shadows a keyword). The expander "
             "walks expressions; in transform_procedure_application, on the path where the form was recognised as lambda / define, "
             "the element that follows the keyword is copied, not handed to Vm::transform — otherwise (lambda (or x) x) has its "
             "formals (or x) expanded as a use of `or` and becomes (lambda x x), and (let ((when 5)) when) fails to expand.")
    f = need(rep, rule, facts, TPA)
    if f is None:
        return
    kws = set()
    for bb, t in f.calls():
        if callee(t) == "marwood::cell::Cell::is_symbol_str":
            for a in t["args"]:
                c = op_const(a)
                if c is not None and "str" in c:
                    kws.add(c["str"])
    key = rule + "|transform_procedure_application|formals-untouched"
    if not {"lambda", "define"} <= kws:
        rep.fail(rule, key, "transform_procedure_application does not recognise lambda / define at all: their formals are expanded like "
                 "operands, so a parameter named like a derived form is rewritten as a use of that form", [f.span])
        return
    # transform calls whose argument is `rest.car().unwrap()` taken directly (not an element of the spliced body, not the operator)
    bad = []
    for bb, t in f.calls():
        if not (callee(t) or "").endswith("::transform") or len(t["args"]) < 2:
            continue
        o = f.origin(t["args"][1])
        if o[0] == "call" and (callee(o[1]) or "").endswith("Option::<T>::unwrap"):
            oo = f.origin(o[1]["args"][0])
            whole_form = oo[0] == "call" and oo[1]["args"] and f.origin(oo[1]["args"][0])[0] == "arg" and \
                f.origin(oo[1]["args"][0])[1] == 2 and not f.origin(oo[1]["args"][0])[2]
            if oo[0] == "call" and callee(oo[1]) == "marwood::cell::Cell::car" and not whole_form:   # car of the form itself = the operator
                # which list is it the car of?  the operand loop advances `rest`; the body branch reads it once, before the loop
                inloop = any(bb in ((f.reach_from(h) & f.reach_back(src)) | {h, src}) for src, h in f.back_edges())
                if not inloop:
                    bad.append(t["loc"])
    (rep.ok if not bad else rep.fail)(
        rule, key, "the formals of lambda / the head of a procedure definition are copied, not expanded" if not bad else
        "transform_procedure_application hands the element after the keyword — the formals of a lambda, the head of a procedure "
        "definition — to Vm::transform: a formals list that starts with the name of a derived form is expanded as a use of it", bad)


def run(ctx, rep):
    C01.r01a(ctx, rep, rule="R02a", only=("free-variable-scan",))
    r02b(ctx, rep)
    r02c(ctx, rep)
    r02d(ctx, rep)
    r02e(ctx, rep)
    from . import prelude
    prelude.r01g(ctx, rep, rule="R02f")
    r02h(ctx, rep)
    r02j(ctx, rep)
    # R02i: the collector keeps captured locations alive
    from . import C03
    rep.rule("R02i", "a binding stays usable after its creator returned: C03's trace-completeness obligations (R03c) for the "
             "cells a captured location is reached through — VCell::Closure, LexicalEnv (and the values in its slots), "
             "LexicalEnvPtr and EnvironmentPointer.")
    sub = type(rep)(rep.prop)
    C03.r03c(ctx, sub)
    n = 0
    for o in sub.obs:
        if re.search(r"\|(Closure|LexicalEnv|LexicalEnvPtr|EnvironmentPointer)\.", o.key) or "LexicalEnvironment::get" in o.key:
            o.rule = "R02i"
            o.key = o.key.replace("R03c", "R02i")
            rep.obs.append(o)
            n += 1
    rep.floor("R02i", "trace obligations on environment cells", n, 8)
    C01.r01n(ctx, rep, rule="R02g", only=("find_free_symbols_in_template",))
    r02m(ctx, rep)
    C01.r01q(ctx, rep, rule="R02k")
    rep.rules["R02k"] = "a definition in a body binds in that body, also when a begin delivers it: " + rep.rules["R02k"]
    rep.not_decided += ["a wrong slot number or capture distance", "values denoted by references in concrete programs"]
