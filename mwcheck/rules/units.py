"""R15a / R11d: dimensional analysis of usize values in the text-handling code — character indices vs byte offsets."""
from ..facts import callee, op_const, op_place, short_path
from ..flow import Labels, places_read, rv_operands
from .common import *

SCOPE = ("marwood::vm::builtin::string::", "marwood::vm::builtin::symbol::", "marwood::vm::builtin::char::",
         "marwood::lex::", "marwood::parse::", "marwood::syntax::")
CHAR, BYTE = "char-index", "byte-offset"


def _unit_of_call(t):
    c = callee(t) or ""
    fa = t.get("fnargs") or ""
    if c in ("marwood::vm::builtin::pop_index", "marwood::vm::builtin::pop_usize"):
        return {CHAR}
    if c.endswith("Iterator>::count") or c == "std::iter::Iterator::count":
        if "Chars" in fa or "char" in fa.lower():
            return {CHAR}
    if c in ("core::str::<impl str>::len", "std::string::String::len", "std::char::methods::<impl char>::len_utf8"):
        return {BYTE}
    if "CharIndices" in fa and c.endswith(("::next", "::peek", "::nth", "::last", "::find")):
        return {BYTE}
    if c.endswith(("<impl str>::find", "<impl str>::rfind")):
        return {BYTE}
    if "Enumerate<std::str::Chars" in fa and c.endswith("::next"):
        return {CHAR}
    return None


_RET = {}


def return_unit(facts, path, depth=0):
    if path in _RET:
        return _RET[path]
    _RET[path] = set()
    g = facts.fns.get(path)
    if g is None or depth > 3:
        return set()
    lab = unit_labels(facts, g, depth + 1)
    res = {l for l in lab.labels.get(0, set()) if l in (CHAR, BYTE)}
    _RET[path] = res
    return res


def unit_labels(facts, f, depth=0, params=None):
    def seed(fn, where, p):
        names = [e.get("n") for e in p["p"] if isinstance(e, dict) and "f" in e]
        if "span" in names:
            return [BYTE]
        return []

    def transfer(t, al):
        u = _unit_of_call(t)
        if u is not None:
            return u
        c = callee(t) or ""
        if c in facts.fns and c != f.path and c.startswith(SCOPE):
            r = return_unit(facts, c, depth)
            if r:
                return set(r)
            return set()
        # conversions that keep the quantity
        return None
    init = dict(params or {})
    return Labels(f, seed=seed, call_transfer=transfer, init=init,
                  keep=lambda l: any(k in f.locals[l] for k in ("usize", "u32", "u64", "i64", "Option<", "Result<", "(usize", "Range", "Peekable", "CharIndices", "Enumerate")))


def char_counter_locals(f):
    """locals that only ever hold 0 or themselves + 1, incremented inside a loop that advances a char cursor"""
    out = set()
    for l, ty in enumerate(f.locals):
        if ty not in ("usize", "i32", "u32"):
            continue
        ds = [d for d in f.defs().get(l, []) if d[2] != "partial"]
        if len(ds) < 2:
            continue
        ok = True
        inc = False
        for d in ds:
            if d[2] != "assign" or d[3]["rv"]["k"] != "use":
                ok = False
                break
            o = f.origin(d[3]["rv"]["a"])
            if o[0] == "const":
                continue
            if o[0] == "rv" and o[1]["rv"]["k"] == "bin" and "Add" in o[1]["rv"]["op"]:
                a0 = f.origin(o[1]["rv"]["a"])
                cb = op_const(o[1]["rv"]["b"])
                if a0[0] == "local" and a0[1] == l and cb is not None and cb.get("int") == 1:
                    inc = True
                    continue
            ok = False
            break
        if ok and inc:
            out.add(l)
    return out


def r15a(ctx, rep, rule="R15a", scope=SCOPE, only_files=None):
    facts = ctx["facts"]
    rep.rule(rule, "units: usize values in the text-handling code are character indices (pop_index / pop_usize results, "
             "Chars::count, enumerate over chars, per-character counters) or byte offsets (CharIndices positions, "
             "str/String::len, char::len_utf8, token span fields, results of the local offset helpers); sums and "
             "differences keep the unit of their operands. Every byte-offset sink (str/String range indexing, "
             "String::replace_range / insert_str, str::split_at, as_bytes() indexing, both components of a Token span) "
             "must receive a byte offset, and every character-count sink (Iterator::nth/skip/take over Chars or "
             "CharIndices, repeat_n) a character index. A character index used as a byte offset is invisible to "
             "ASCII-only tests.")
    n_sinks = 0
    # parameter units from call sites (two rounds): char_offset(s, idx) is called with character indices
    param_units = {}
    for _round in range(2):
        nxt = {}
        for p, f in sorted(facts.fns.items()):
            if not p.startswith(scope):
                continue
            counters = char_counter_locals(f) if ("Peekable<std::str::CharIndices" in " ".join(f.locals) or "Chars" in " ".join(f.locals)) else set()
            init = {l: {CHAR} for l in counters}
            for l, u in param_units.get(p, {}).items():
                init.setdefault(l, set()).update(u)
            lab = unit_labels(facts, f, params=init)
            for bb, t in f.calls():
                c = callee(t) or ""
                if c in facts.fns and c.startswith(scope) and c != p:
                    for i, a in enumerate(t["args"]):
                        pl = op_place(a)
                        if pl is None:
                            continue
                        u = {x for x in lab.of_place(pl) if x in (CHAR, BYTE)}
                        if u and "usize" in facts.fns[c].locals[i + 1]:
                            nxt.setdefault(c, {}).setdefault(i + 1, set()).update(u)
        param_units = nxt
    for p, f in sorted(facts.fns.items()):
        if not p.startswith(scope):
            continue
        if only_files and not any(f.file.endswith(x) for x in only_files):
            continue
        counters = char_counter_locals(f) if ("Peekable<std::str::CharIndices" in " ".join(f.locals) or "Chars" in " ".join(f.locals)) else set()
        init = {l: {CHAR} for l in counters}
        for l, u in param_units.get(p, {}).items():
            init.setdefault(l, set()).update(u)
        lab = unit_labels(facts, f, params=init)

        def units(op):
            c = op_const(op)
            if c is not None:
                return set()
            pl = op_place(op)
            if pl is None:
                return set()
            return {l for l in lab.of_place(pl) if l in (CHAR, BYTE)}

        def judge(kind, want, ops, loc, what):
            nonlocal n_sinks
            n_sinks += 1
            got = set()
            for o in ops:
                got |= units(o)
            k = "%s|%s|%s" % (rule, f.short, what)
            cnt[k] = cnt.get(k, 0) + 1
            key = k if cnt[k] == 1 else "%s#%d" % (k, cnt[k])
            bad = (CHAR in got) if want == BYTE else (BYTE in got)
            if bad:
                rep.fail(rule, key, "%s: %s receives a %s%s where a %s is required — correct for ASCII text only" % (
                    f.short, what, "mixed quantity" if len(got) > 1 else sorted(got)[0], "", want), [loc])
            else:
                rep.ok(rule, key, "%s: %s receives %s" % (f.short, what, ", ".join(sorted(got)) or "constants / unit-free values"), [loc])
        cnt = {}
        for bb, t in f.calls():
            c = callee(t) or ""
            fa = t.get("fnargs") or ""
            if fa.startswith("<str as std::ops::Index<std::ops::Range") or fa.startswith("<std::string::String as std::ops::Index<std::ops::Range"):
                o = f.origin(t["args"][1])
                ops = o[1]["rv"]["ops"] if o[0] == "rv" and o[1]["rv"]["k"] == "agg" else [t["args"][1]]
                judge("byte", BYTE, ops, t["loc"], "string slice bounds")
            elif c == "std::string::String::replace_range":
                o = f.origin(t["args"][1])
                ops = o[1]["rv"]["ops"] if o[0] == "rv" and o[1]["rv"]["k"] == "agg" else [t["args"][1]]
                judge("byte", BYTE, ops, t["loc"], "String::replace_range bounds")
            elif c in ("std::string::String::insert_str", "std::string::String::insert", "core::str::<impl str>::split_at",
                       "std::string::String::truncate", "std::string::String::remove", "std::string::String::split_off"):
                judge("byte", BYTE, [t["args"][1]], t["loc"], short_path(c).split("::")[-1] + " position")
            elif c == "marwood::lex::Token::new":
                o = f.origin(t["args"][0])
                ops = o[1]["rv"]["ops"] if o[0] == "rv" and o[1]["rv"]["k"] == "agg" else [t["args"][0]]
                judge("byte", BYTE, ops, t["loc"], "Token span")
            elif c.endswith("<impl [T]>::get") and "u8" in fa:
                judge("byte", BYTE, [t["args"][1]], t["loc"], "byte-slice index")
            elif c.endswith(("Iterator>::nth", "Iterator::nth", "Iterator::skip", "Iterator::take")) and ("Chars" in fa or "CharIndices" in fa):
                judge("char", CHAR, [t["args"][1]], t["loc"], short_path(c).split("::")[-1] + "() count over characters")
            elif c == "std::iter::repeat_n" and "char" in fa:
                judge("char", CHAR, [t["args"][1]], t["loc"], "repeat_n count of characters")
    rep.floor(rule, "unit-sensitive sinks", n_sinks, 15 if scope == SCOPE and not only_files else 5)


def r15b(ctx, rep):
    facts = ctx["facts"]
    rep.rule("R15b", "scalar validation: every integer-to-char conversion goes through char::from_u32 (no "
             "from_u32_unchecked, no transmute, no `as char` from a wide integer), its argument is not a narrowing cast of "
             "a wider integer (which would wrap an out-of-range value into range), and its None outcome reaches an error.")
    n = 0
    for p, f in sorted(facts.fns.items()):
        if f.crate != "marwood" or not (p.startswith("marwood::vm::builtin::") or p.startswith("marwood::parse::")):
            continue
        bodies = [f]
        for bb, t in f.calls():
            c = callee(t) or ""
            if c.endswith("from_u32_unchecked") or (c.endswith("::transmute") and "char" in (t.get("fnargs") or "")):
                n += 1
                rep.fail("R15b", "R15b|%s|unchecked" % f.short, "%s builds a char without validation (%s)" % (f.short, short_path(c)), [t["loc"]])
            if c == "std::char::methods::<impl char>::from_u32":
                a = t["args"][0]
                o = f.origin(a)
                if o[0] == "const":
                    continue
                n += 1
                key = "R15b|%s|from_u32-argument" % f.short
                if o[0] == "rv" and o[1]["rv"]["k"] == "cast" and o[1]["rv"]["ck"] == "IntToInt" and \
                        o[1]["rv"]["from"] in ("u64", "i64", "usize", "i128", "u128", "isize"):
                    rep.fail("R15b", key, "%s passes `%s as u32` to char::from_u32: an integer above 2^32 is truncated into "
                             "range and yields a character instead of an error" % (f.short, o[1]["rv"]["from"]), [t["loc"]])
                else:
                    rep.ok("R15b", key, "%s validates a %s with char::from_u32" % (f.short, "u32"), [t["loc"]])
        for bb, j, s in f.stmts():
            rv = s["rv"]
            if rv["k"] == "cast" and rv["to"] == "char" and rv["from"] != "u8":
                n += 1
                rep.fail("R15b", "R15b|%s|as-char" % f.short, "%s casts %s to char directly" % (f.short, rv["from"]), [s["loc"]])
    itc = facts.fn("marwood::vm::builtin::char::integer_to_char")
    if itc is None:
        rep.anchor_lost("R15b", "builtin integer->char")
    else:
        fu = [(bb, t) for g in [itc] + facts.closures_of(itc) for bb, t in g.calls() if callee(t) == "std::char::methods::<impl char>::from_u32"]
        errs = [1 for g in [itc] + facts.closures_of(itc) for bb, j, s in g.stmts() if s["rv"]["k"] == "agg" and s["rv"].get("variant") == "InvalidSyntax"]
        ok = bool(fu) and bool(errs)
        (rep.ok if ok else rep.fail)("R15b", "R15b|integer_to_char|validates", "integer->char validates with char::from_u32 and has an error outcome" if ok else
                                     "integer->char no longer validates through char::from_u32 with an error outcome", [itc.span])
    rep.floor("R15b", "integer-to-char conversion sites", n, 2)
