"""C15 — strings index by character over all of Unicode (dimensional discipline R15a, scalar validation R15b)."""
from . import units


def run(ctx, rep):
    units.r15a(ctx, rep)
    units.r15b(ctx, rep)
    rep.not_decided += ["agreement of each procedure with a Vec<char> model (value-level)",
                        "that mutators change exactly the addressed characters",
                        "panic sites of these files (C06's inventory)"]
