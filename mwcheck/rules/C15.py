"""C15 — strings index by character over all of Unicode (dimensional discipline R15a, scalar validation R15b,
absent-character discipline R15c)."""
from ..facts import callee, op_place, short_path
from ..shapes import roots, guard_shapes
from .common import *
from . import units

STRMOD = "marwood::vm::builtin::string::"
DEFAULTING = ("::unwrap_or", "::unwrap_or_else", "::unwrap_or_default", "::map_or", "::map_or_else", "::unwrap", "::expect",
              "::unwrap_unchecked")
TO_ERR = ("::ok_or", "::ok_or_else")
THROUGH = ("::map", "::and_then", "::filter", "::copied", "::cloned", "::as_ref", "::inspect", "::zip")


def _follow(fn, local, seen):
    """where does an Option value end up: list of (kind, term/stmt) with kind in err / default / match / other"""
    if local in seen:
        return []
    seen.add(local)
    out = []
    for bb, j, st in fn.stmts():
        rv = st["rv"]
        if rv["k"] == "disc" and rv["place"]["l"] == local:
            out.append(("match", st, bb))
        elif rv["k"] in ("use", "ref") and not st["lhs"]["p"]:
            pl = op_place(rv.get("a")) if rv["k"] == "use" else rv.get("place")
            if pl is not None and pl["l"] == local and not pl["p"]:
                out += _follow(fn, st["lhs"]["l"], seen)
    for bb, t in fn.calls():
        for i, a in enumerate(t["args"]):
            pl = op_place(a)
            if pl is None or pl["l"] != local or i != 0:
                continue
            c = callee(t) or ""
            if "option::Option" not in c:
                out.append(("other", t, bb))
            elif c.endswith(TO_ERR):
                out.append(("err", t, bb))
            elif c.endswith(DEFAULTING):
                out.append(("default", t, bb))
            elif c.endswith(THROUGH) and not t["dest"]["p"]:
                out += _follow(fn, t["dest"]["l"], seen)
            else:
                out.append(("other", t, bb))
    return out


def r15c(ctx, rep, rule="R15c"):
    facts = ctx["facts"]
    rep.rule(rule, "a character that is not there is an error: in the string procedures every lookup of the idx-th character "
             "(Iterator::nth over chars() / char_indices()) has its `absent` outcome turned into an Err (ok_or / ok_or_else, or "
             "a match whose None arm returns Err). An absent outcome replaced by a default (unwrap_or(s.len()), map_or ...) "
             "clamps an out-of-range index or range end instead of reporting it, unless a dominating test of the same index "
             "has already rejected it.")
    n = 0
    for p, f in sorted(facts.fns.items()):
        if not p.startswith(STRMOD) or "::{closure" in p:
            continue
        for bb, t in f.calls():
            c = callee(t) or ""
            if not c.endswith("Iterator::nth") or "str::Char" not in (t.get("fnargs") or ""):
                continue
            n += 1
            key = "%s|%s|nth#%d" % (rule, f.short.rsplit("::", 1)[-1], 1 + len([1 for b2, t2 in f.calls() if b2 < bb and (callee(t2) or "").endswith("Iterator::nth")]))
            if t["dest"]["p"]:
                rep.fail(rule, key, "%s: result of nth stored in a projected place (not followed)" % f.short, [t["loc"]])
                continue
            ends = _follow(f, t["dest"]["l"], set())
            bad = []
            good = 0
            for kind, x, b2 in ends:
                if kind == "err":
                    good += 1
                elif kind == "match":
                    # the None edge (discriminant 0) must lead to an Err construction before any return
                    sw = None
                    for b3 in range(len(f.blocks)):
                        tt = f.blocks[b3]["term"]
                        if tt["k"] == "switch" and op_place(tt["op"]) is not None and op_place(tt["op"])["l"] == x["lhs"]["l"]:
                            sw = (b3, tt)
                    if sw is None:
                        bad.append("a match on the result could not be followed")
                        continue
                    b3, tt = sw
                    none_t = [tg for v, tg in tt["targets"] if v == 0]
                    none_t = none_t[0] if none_t else tt["otherwise"]
                    region = f.reach_from(none_t, avoid=[tg for v, tg in tt["targets"] if tg != none_t])
                    errs = [1 for b4 in region for st in f.blocks[b4]["stmts"] if st["rv"]["k"] == "agg" and st["rv"].get("variant") == "Err"]
                    oks = [1 for b4 in region if f.dominates(none_t, b4) for st in f.blocks[b4]["stmts"] if st["rv"]["k"] == "agg" and st["rv"].get("variant") == "Ok"]
                    if errs and not oks:
                        good += 1
                    else:
                        bad.append("the None arm of the match on it does not return an error")
                elif kind == "default":
                    gs = guard_shapes(f, b2, roots(f, t["args"][1]) if len(t["args"]) > 1 else None)
                    if gs:
                        good += 1
                    else:
                        bad.append("its absent outcome is replaced by a default through %s" % (callee(x) or "").rsplit("::", 1)[-1])
                else:
                    bad.append("it is passed to %s (not followed)" % short_path(callee(x) or "?"))
            if bad or not good:
                rep.fail(rule, key, "%s looks up the idx-th character but %s: an index or range end past the last character is "
                         "clamped or mis-handled instead of being reported as an error" % (f.short, "; ".join(bad) or "the result is never turned into an error"), [t["loc"]])
            else:
                rep.ok(rule, key, "%s: the absent outcome of the character lookup becomes an Err" % f.short, [t["loc"]])
    rep.floor(rule, "character lookups by index (Iterator::nth over chars/char_indices) in the string procedures", n, 4)


def run(ctx, rep):
    units.r15a(ctx, rep)
    units.r15b(ctx, rep)
    r15c(ctx, rep)
    rep.not_decided += ["agreement of each procedure with a Vec<char> model (value-level)",
                        "that mutators change exactly the addressed characters",
                        "panic sites of these files (C06's inventory)"]
