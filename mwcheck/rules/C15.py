"""C15 — strings index by character over all of Unicode (dimensional discipline R15a, scalar validation R15b,
absent-character discipline R15c)."""
from ..facts import callee, op_place, short_path
from ..shapes import roots, guard_shapes
from .common import *
from . import units

STRMOD = "marwood::vm::builtin::string::"
DEFAULTING = ("::unwrap_or", "::unwrap_or_else", "::unwrap_or_default", "::map_or", "::map_or_else", "::unwrap", "::expect",
              "::unwrap_unchecked")
TO_ERR = ("::ok_or", "::ok_or_else")
THROUGH = ("::map", "::and_then", "::filter", "::copied", "::cloned", "::as_ref", "::inspect", "::zip")


def _follow(fn, local, seen):
    """where does an Option value end up: list of (kind, term/stmt) with kind in err / default / match / other"""
    if local in seen:
        return []
    seen.add(local)
    out = []
    for bb, j, st in fn.stmts():
        rv = st["rv"]
        if rv["k"] == "disc" and rv["place"]["l"] == local:
            out.append(("match", st, bb))
        elif rv["k"] in ("use", "ref") and not st["lhs"]["p"]:
            pl = op_place(rv.get("a")) if rv["k"] == "use" else rv.get("place")
            if pl is not None and pl["l"] == local and not pl["p"]:
                out += _follow(fn, st["lhs"]["l"], seen)
    for bb, t in fn.calls():
        for i, a in enumerate(t["args"]):
            pl = op_place(a)
            if pl is None or pl["l"] != local or i != 0:
                continue
            c = callee(t) or ""
            if "option::Option" not in c:
                out.append(("other", t, bb))
            elif c.endswith(TO_ERR):
                out.append(("err", t, bb))
            elif c.endswith(DEFAULTING):
                out.append(("default", t, bb))
            elif c.endswith(THROUGH) and not t["dest"]["p"]:
                out += _follow(fn, t["dest"]["l"], seen)
            else:
                out.append(("other", t, bb))
    return out


def _compared_on_every_path(h, site_bb, x):
    """every path from entry to site_bb on which the Option parameter x is Some executes an ordering comparison of its
    payload (None edges of discriminant switches on x are cut: nothing to validate there)"""
    from ..linear import Linear
    L = Linear(h)
    V = set()
    for bb, j, st in h.stmts():
        rv = st["rv"]
        if rv["k"] == "bin" and rv["op"] in ("Gt", "Ge", "Lt", "Le"):
            for a in (rv["a"], rv["b"]):
                if _payload_arg(h, a) == x or any(s_.key[0] == "arg" and s_.key[1] == x for s_ in L.of(a).symbols()):
                    V.add(bb)
    cut = set()
    for bb, b in enumerate(h.blocks):
        t = b["term"]
        if t["k"] != "switch" or b.get("cleanup"):
            continue
        o = h.origin(t["op"])
        if o[0] == "rv" and o[1]["rv"]["k"] == "disc" and _payload_arg(h, {"copy": o[1]["rv"]["place"]}) == x:
            vals = dict((v, tg) for v, tg in t["targets"])
            none_t = vals.get(0, t["otherwise"] if 0 not in vals else None)
            if none_t is not None:
                cut.add((bb, none_t))
    seen = {0}
    st_ = [0]
    while st_:
        b0 = st_.pop()
        if b0 in V:
            continue
        for y in h.succ[b0]:
            if (b0, y) in cut or y in seen:
                continue
            seen.add(y)
            st_.append(y)
    return site_bb not in seen or site_bb in V


def _callers_guard(facts, f, rts):
    """caller-side form of the range idiom: the index is a parameter of f and at every call site of f the corresponding
    argument was compared (ordering test) on every path before the call"""
    params = sorted({r[1] for r in rts if r[0] == "a"})
    if not params or any(r[0] != "a" for r in rts):
        return False
    sites = []
    for p, h in facts.fns.items():
        if h.crate != "marwood" or "::tests::" in p:
            continue
        for bb, t in h.calls():
            if callee(t) == f.path:
                sites.append((h, bb, t))
    if not sites:
        return False
    for h, bb, t in sites:
        for k in params:
            if k - 1 >= len(t["args"]):
                return False
            ar = roots(h, t["args"][k - 1])
            cmp_guards = [g for g in guard_shapes(h, bb, ar) if g.startswith(("(Gt", "(Ge", "(Lt", "(Le"))]
            if cmp_guards:
                continue
            xs = {r[1] for r in ar if r[0] == "a"}
            if len(xs) != 1 or any(r[0] != "a" for r in ar) or not _compared_on_every_path(h, bb, list(xs)[0]):
                return False
    return True


def r15c(ctx, rep, rule="R15c"):
    facts = ctx["facts"]
    rep.rule(rule, "a character that is not there is an error: in the string procedures every lookup of the idx-th character "
             "(Iterator::nth over chars() / char_indices()) has its `absent` outcome turned into an Err (ok_or / ok_or_else, or "
             "a match whose None arm returns Err). An absent outcome replaced by a default (unwrap_or(s.len()), map_or ...) "
             "clamps an out-of-range index or range end instead of reporting it, unless a dominating test of the same index "
             "has already rejected it.")
    n = 0
    for p, f in sorted(facts.fns.items()):
        if not p.startswith(STRMOD) or "::{closure" in p:
            continue
        for bb, t in f.calls():
            c = callee(t) or ""
            if not c.endswith("Iterator::nth") or "str::Char" not in (t.get("fnargs") or ""):
                continue
            n += 1
            key = "%s|%s|nth#%d" % (rule, f.short.rsplit("::", 1)[-1], 1 + len([1 for b2, t2 in f.calls() if b2 < bb and (callee(t2) or "").endswith("Iterator::nth")]))
            if t["dest"]["p"]:
                rep.fail(rule, key, "%s: result of nth stored in a projected place (not followed)" % f.short, [t["loc"]])
                continue
            ends = _follow(f, t["dest"]["l"], set())
            bad = []
            good = 0
            for kind, x, b2 in ends:
                if kind == "err":
                    good += 1
                elif kind == "match":
                    # the None edge (discriminant 0) must lead to an Err construction before any return
                    sw = None
                    for b3 in range(len(f.blocks)):
                        tt = f.blocks[b3]["term"]
                        if tt["k"] == "switch" and op_place(tt["op"]) is not None and op_place(tt["op"])["l"] == x["lhs"]["l"]:
                            sw = (b3, tt)
                    if sw is None:
                        bad.append("a match on the result could not be followed")
                        continue
                    b3, tt = sw
                    none_t = [tg for v, tg in tt["targets"] if v == 0]
                    none_t = none_t[0] if none_t else tt["otherwise"]
                    region = f.reach_from(none_t, avoid=[tg for v, tg in tt["targets"] if tg != none_t])
                    errs = [1 for b4 in region for st in f.blocks[b4]["stmts"] if st["rv"]["k"] == "agg" and st["rv"].get("variant") == "Err"]
                    oks = [1 for b4 in region if f.dominates(none_t, b4) for st in f.blocks[b4]["stmts"] if st["rv"]["k"] == "agg" and st["rv"].get("variant") == "Ok"]
                    if errs and not oks:
                        good += 1
                    else:
                        bad.append("the None arm of the match on it does not return an error")
                elif kind == "default":
                    rts = roots(f, t["args"][1]) if len(t["args"]) > 1 else set()
                    gs = guard_shapes(f, b2, rts)
                    if gs or _callers_guard(facts, f, rts):
                        good += 1
                    else:
                        bad.append("its absent outcome is replaced by a default through %s" % (callee(x) or "").rsplit("::", 1)[-1])
                else:
                    bad.append("it is passed to %s (not followed)" % short_path(callee(x) or "?"))
            if bad or not good:
                rep.fail(rule, key, "%s looks up the idx-th character but %s: an index or range end past the last character is "
                         "clamped or mis-handled instead of being reported as an error" % (f.short, "; ".join(bad) or "the result is never turned into an error"), [t["loc"]])
            else:
                rep.ok(rule, key, "%s: the absent outcome of the character lookup becomes an Err" % f.short, [t["loc"]])
    rep.floor(rule, "character lookups by index (Iterator::nth over chars/char_indices) in the string procedures", n, 4)


def _payload_root(fn, op, depth=8):
    """('arg', n) / ('local', l): the Option-typed parameter or multiply-assigned local whose Some payload `op` is
    (following copies and tuple packing), else None"""
    cur = op
    for _ in range(depth):
        o = fn.origin(cur)
        if o[0] == "arg":
            return ("arg", o[1])
        if o[0] == "local":
            return ("local", o[1])
        if o[0] == "rv" and o[1]["rv"]["k"] == "agg" and o[1]["rv"].get("adt") == "(tuple)":
            pj = [e for e in (o[2] or []) if isinstance(e, dict) and "f" in e]
            if pj:
                k = pj[0]["f"]
                if k < len(o[1]["rv"]["ops"]):
                    cur = o[1]["rv"]["ops"][k]
                    continue
        return None
    return None


def _payload_arg(fn, op, depth=8):
    r = _payload_root(fn, op, depth)
    return r[1] if r is not None and r[0] == "arg" else None


def compared_before(h, site_bb, root):
    """every path from entry to site_bb on which the Option variable `root` (('arg', n) / ('local', l)) is Some executes
    an ordering comparison of its payload; None edges of discriminant switches on it are cut"""
    V = set()
    for bb, j, st in h.stmts():
        rv = st["rv"]
        if rv["k"] == "bin" and rv["op"] in ("Gt", "Ge", "Lt", "Le"):
            for a in (rv["a"], rv["b"]):
                if _payload_root(h, a) == root:
                    V.add(bb)
    cut = set()
    for bb, b in enumerate(h.blocks):
        t = b["term"]
        if t["k"] != "switch" or b.get("cleanup"):
            continue
        o = h.origin(t["op"])
        if o[0] == "rv" and o[1]["rv"]["k"] == "disc" and _payload_root(h, {"copy": o[1]["rv"]["place"]}) == root:
            vals = dict((v, tg) for v, tg in t["targets"])
            none_t = vals.get(0, t["otherwise"] if 0 not in vals else None)
            if none_t is not None:
                cut.add((bb, none_t))
    seen = {0}
    st_ = [0]
    while st_:
        b0 = st_.pop()
        if b0 in V:
            continue
        for y in h.succ[b0]:
            if (b0, y) in cut or y in seen:
                continue
            seen.add(y)
            st_.append(y)
    return site_bb not in seen or site_bb in V


def r15d(ctx, rep, rule="R15d"):
    from ..linear import Linear
    facts = ctx["facts"]
    rep.rule(rule, "a range helper answers Ok only for validated indices: in every function of the string procedures that "
             "takes optional character indices (Option<usize> parameters: start / end), each path from entry to the "
             "construction of an Ok result passes, for each such parameter, either its None edge (nothing to validate), a "
             "comparison of its payload with the character count, or a validating lookup (char_offset / "
             "char_offset_inclusive, whose absent outcome is an Err by R15c). A shortcut return taken before an index was "
             "looked at accepts out-of-range ranges — and string-fill! then inserts characters instead of replacing them.")
    n = 0
    for p, f in sorted(facts.fns.items()):
        if not p.startswith(STRMOD) or "::{closure" in p:
            continue
        params = [i for i in range(1, f.argc + 1) if f.locals[i].replace(" ", "") == "std::option::Option<usize>"]
        if not params:
            continue
        L = Linear(f)
        oks = [bb for bb, j, st in f.stmts() if st["lhs"]["l"] == 0 and not st["lhs"]["p"] and st["rv"]["k"] == "agg"
               and st["rv"].get("variant") == "Ok"]
        counts = set()
        for bb, t in f.calls():
            if (callee(t) or "").endswith("Iterator>::count") or (callee(t) or "").endswith("Iterator::count"):
                if not t["dest"]["p"]:
                    counts.add(t["dest"]["l"])

        def is_count(op):
            o = f.origin(op)
            return o[0] == "call" and ((callee(o[1]) or "").endswith("::count"))

        for x in params:
            n += 1
            nm = f.local_name(x)
            V = set()
            for bb, j, st in f.stmts():
                rv = st["rv"]
                if rv["k"] == "bin" and rv["op"] in ("Gt", "Ge", "Lt", "Le"):
                    for a, b in ((rv["a"], rv["b"]), (rv["b"], rv["a"])):
                        if is_count(b) and any(s_.key[0] == "arg" and s_.key[1] == x for s_ in L.of(a).symbols()) or \
                                (is_count(b) and _payload_arg(f, a) == x):
                            V.add(bb)
            for bb, t in f.calls():
                c = callee(t) or ""
                if c.startswith(STRMOD) and c in facts.fns:
                    for a in t["args"]:
                        if any(s_.key[0] == "arg" and s_.key[1] == x for s_ in L.of(a).symbols()) or _payload_arg(f, a) == x:
                            V.add(t["target"] if t.get("target") is not None else bb)
            cut = set()
            for bb, b in enumerate(f.blocks):
                t = b["term"]
                if t["k"] != "switch" or b.get("cleanup"):
                    continue
                o = f.origin(t["op"])
                if o[0] == "rv" and o[1]["rv"]["k"] == "disc":
                    if _payload_arg(f, {"copy": o[1]["rv"]["place"]}) == x:
                        vals = dict((v, tg) for v, tg in t["targets"])
                        none_t = vals.get(0, t["otherwise"] if 0 not in vals else None)
                        if none_t is not None:
                            cut.add((bb, none_t))
            # paths entry -> Ok that avoid V and the None edges
            seen = {0}
            st_ = [0]
            while st_:
                b0 = st_.pop()
                if b0 in V:
                    continue
                for y in f.succ[b0]:
                    if (b0, y) in cut or y in seen:
                        continue
                    seen.add(y)
                    st_.append(y)
            bad = sorted(bb for bb in oks if bb in seen and bb not in V)
            key = "%s|%s|%s" % (rule, f.short.rsplit("::", 1)[-1], nm)
            if bad:
                rep.fail(rule, key, "%s can return Ok without having compared `%s` with the character count or looked it up: an "
                         "out-of-range %s is accepted on that path (%d Ok exit(s) reachable unvalidated)" % (f.short, nm, nm, len(bad)),
                         [f.blocks[bad[0]]["stmts"][0]["loc"]] if f.blocks[bad[0]]["stmts"] else [f.span])
            else:
                rep.ok(rule, key, "%s: every Ok exit is reached only after `%s` was validated (or was absent)" % (f.short, nm), [f.span])
    rep.floor(rule, "optional index parameters of string range helpers", n, 2)


ASCII_CASE = ("eq_ignore_ascii_case", "to_ascii_lowercase", "to_ascii_uppercase", "make_ascii_lowercase", "make_ascii_uppercase")


def r15h(ctx, rep, rule="R15h"):
    facts = ctx["facts"]
    rep.rule(rule, "case folding covers all of Unicode: in the character and string procedures an ASCII-only case operation "
             "(eq_ignore_ascii_case, to_ascii_lowercase, to_ascii_uppercase) is used only on a value already tested with "
             "is_ascii (a fast path); a case-insensitive predicate that folds with it alone compares non-ASCII letters "
             "case-sensitively, disagreeing with char-foldcase and with its string-ci sibling.")
    n = 0
    for p, f in sorted(facts.fns.items()):
        if not p.startswith((STRMOD, "marwood::vm::builtin::char::")):
            continue
        for bb, t in f.calls():
            c = callee(t) or ""
            if not c.endswith(ASCII_CASE):
                continue
            n += 1
            guarded = False
            rts = roots(f, t["args"][0]) if t["args"] else set()
            for b2, t2 in f.calls():
                if (callee(t2) or "").endswith("::is_ascii") and f.dominates(b2, bb) and b2 != bb and t2["args"] and roots(f, t2["args"][0]) & rts:
                    guarded = True
            k = len([1 for b3, t3 in f.calls() if (callee(t3) or "").endswith(ASCII_CASE) and b3 <= bb])
            key = "%s|%s|%s#%d" % (rule, f.short.replace("vm::builtin::", ""), c.rsplit("::", 1)[-1], k)
            (rep.ok if guarded else rep.fail)(rule, key, "%s uses %s on a value it has tested with is_ascii" % (f.short, c.rsplit("::", 1)[-1]) if guarded else
                                              "%s folds case with %s without an is_ascii test: letters outside ASCII are compared "
                                              "case-sensitively (e.g. (char-ci=? #\\Λ #\\λ) is #f although char-foldcase maps both to λ)" % (
                                                  f.short, c.rsplit("::", 1)[-1]), [t["loc"]])
    rep.floor(rule, "ASCII-only case operations in the character and string procedures", n, 1)


FOLDS = ("to_lowercase", "to_uppercase", "fold_case", "fold_string", "to_ascii_lowercase", "to_ascii_uppercase", "foldcase")


def r15i(ctx, rep, rule="R15i"):
    facts = ctx["facts"]
    rep.rule(rule, "a case-insensitive predicate looks only at folded text: inside the comparison closures of the -ci procedures "
             "(char-ci=? ... string-ci>=?) every comparison — a primitive ==, <, ... or a PartialEq / PartialOrd call — takes "
             "operands that come out of a case-folding call. A test on the raw operands (for instance their byte lengths, "
             "which case mapping does not preserve) answers before folding and disagrees with the folded comparison.")
    n = 0
    for p, f in sorted(facts.fns.items()):
        if not p.startswith((STRMOD, "marwood::vm::builtin::char::")) or "_ci_" not in p or "::{closure" not in p:
            continue

        def folded(op):
            o = f.origin(op)
            for _ in range(6):
                if o[0] == "call":
                    c = callee(o[1]) or ""
                    if c.rsplit("::", 1)[-1] in FOLDS or c.endswith(FOLDS):
                        return True
                    if o[1]["args"] and c.endswith(("::deref", "::as_str", "::borrow", "::as_ref", "::clone", "::next", "::unwrap")):
                        o = f.origin(o[1]["args"][0])
                        continue
                return False
            return False
        bad = []
        k = 0
        for bb, j, st in f.stmts():
            rv = st["rv"]
            if rv["k"] == "bin" and rv["op"] in ("Eq", "Ne", "Lt", "Le", "Gt", "Ge"):
                k += 1
                if not (folded(rv["a"]) and folded(rv["b"])):
                    bad.append(st["loc"])
        for bb, t in f.calls():
            fa = t.get("fnargs") or callee(t) or ""
            if ("PartialEq" in fa or "PartialOrd" in fa) and len(t["args"]) == 2:
                k += 1
                if not (folded(t["args"][0]) and folded(t["args"][1])):
                    bad.append(t["loc"])
        if not k:
            continue
        n += 1
        key = "%s|%s" % (rule, f.short.replace("vm::builtin::", ""))
        (rep.ok if not bad else rep.fail)(rule, key, "%s compares folded operands only" % f.short if not bad else
                                          "%s compares operands that did not pass through a case-folding call: the answer can be given "
                                          "before folding (e.g. on byte lengths, which case mapping changes)" % f.short, bad[:2] or [f.span])
    rep.floor(rule, "comparison closures of the -ci procedures", n, 8)


def r15g(ctx, rep, rule="R15g"):
    fresh_results(ctx, rep, rule, "String", "marwood::vm::vcell::VCell::string", "string", "string-set!", 1, 8)


# R7RS small 6.6 / 6.7 (and 6.8 for the vector conversions): (min, max) operands; None = any number
R7RS_ARITY_C15 = {
    "string": (0, None), "make-string": (1, 2), "string-append": (0, None), "string-length": (1, 1), "string-ref": (2, 2),
    "string-set!": (3, 3), "string-copy": (1, 3), "string-fill!": (2, 4), "string->list": (1, 3), "string->vector": (1, 3),
    "vector->string": (1, 3), "list->string": (1, 1), "string-upcase": (1, 1), "string-downcase": (1, 1),
    "string-foldcase": (1, 1), "char->integer": (1, 1), "integer->char": (1, 1), "char-upcase": (1, 1),
    "char-downcase": (1, 1), "char-foldcase": (1, 1), "char-alphabetic?": (1, 1), "char-numeric?": (1, 1),
    "char-whitespace?": (1, 1), "char-upper-case?": (1, 1), "char-lower-case?": (1, 1), "digit-value": (1, 1),
}


def r15j(ctx, rep, rule="R15j"):
    from .. import shapes
    facts = ctx["facts"]
    rep.rule(rule, "a character case conversion never truncates a multi-character mapping: char::to_uppercase / to_lowercase "
             "yield one to three characters (ß -> SS), and a Scheme character is one scalar value, so a function that takes the "
             "first character of the mapping with next() does so only when the mapping is exactly one character long — under "
             "a dominating `count() == 1` test, or by pulling a second next() and requiring it to be None. Otherwise it keeps "
             "the character unchanged.")
    n = 0
    for p, f in sorted(facts.fns.items()):
        if not p.startswith("marwood::") or "::tests::" in p:
            continue
        nexts = [(bb, t) for bb, t in f.calls() if re.match(r"<std::char::To(Upper|Lower)case as std::iter::Iterator>::next$", t.get("fnargs") or "")]
        if not nexts:
            continue
        n += 1
        key = "%s|%s" % (rule, f.short)
        by_count = all(any(re.match(r"\(Eq <char::To(Upper|Lower)case as iter::Iterator>::count\(.*\) c:1\)=T$", g)
                           for g in shapes.guard_shapes(f, bb, None, 3)) for bb, t in nexts)
        second_none = False
        if len(nexts) >= 2:
            for bb, t in nexts[1:]:
                d = t["dest"]
                for b2, blk in enumerate(f.blocks):
                    tt = blk["term"]
                    if tt["k"] != "switch":
                        continue
                    o = f.origin(tt["op"])
                    if o[0] == "rv" and o[1]["rv"]["k"] == "disc":
                        src = f.origin({"copy": o[1]["rv"]["place"]})
                        if src[0] == "call" and src[1] is t:
                            second_none = True
                        # (a, b) tuple idiom: the discriminant is read from a field of the tuple built from both results
                        if src[0] == "rv" and src[1]["rv"]["k"] == "agg" and any(
                                f.origin(x)[0] == "call" and f.origin(x)[1] is t for x in src[1]["rv"].get("ops", [])):
                            second_none = True
        if by_count:
            rep.ok(rule, key, "%s takes the first mapped character only under a count() == 1 test" % f.short, [nexts[0][1]["loc"]])
        elif second_none:
            rep.ok(rule, key, "%s takes the first mapped character and requires the next one to be absent" % f.short, [nexts[0][1]["loc"]])
        else:
            rep.fail(rule, key, "%s takes the first character of a case mapping without establishing that the mapping is one "
                     "character long: for ß, ŉ, the ﬁ ligature ... it returns the first character of the expansion (#\\S for "
                     "#\\ß) instead of leaving the character unchanged" % f.short, [nexts[0][1]["loc"]])
    rep.floor(rule, "functions that take a character out of a case mapping", n, 4)


def fresh_results(ctx, rep, rule, variant, ctor, what, mutator, floor_c, floor_b):
    facts, cg = ctx["facts"], ctx["cg"]
    rep.rule(rule, "%s results are newly allocated: (i) a VCell::%s value is built only by the allocating constructor %s "
             "(Rc::new) — no builtin wraps an existing reference-counted buffer, which would make two %s objects share "
             "storage; (ii) a registered builtin that returns a %s(..) result on one path returns one on every Ok path "
             "(it never hands back an operand). R7RS: these procedures return a newly allocated %s, so a later %s on the "
             "result must not change an argument." % (what, variant, short_path(ctor), what, short_path(ctor), what, mutator))
    n = 0
    for p, f in sorted(facts.fns.items()):
        if f.crate != "marwood" or f.impl_trait in DERIVE_TRAITS or "::tests::" in p:
            continue
        k = 0
        for bb, j_, st in f.stmts():
            rv = st["rv"]
            if rv["k"] == "agg" and (rv.get("adt") or "").endswith("vcell::VCell") and rv.get("variant") == variant:
                n += 1
                k += 1
                o = f.origin(rv["ops"][0])
                fresh = o[0] == "call" and (callee(o[1]) or "").startswith(("std::rc::Rc", "alloc::rc::Rc")) and (callee(o[1]) or "").endswith("::new")
                key = "%s|construct|%s#%d" % (rule, f.short, k)
                (rep.ok if fresh else rep.fail)(rule, key, "%s builds VCell::%s around a fresh Rc" % (f.short, variant) if fresh else
                                                "%s wraps an existing %s buffer in a new VCell::%s: the result shares storage with the "
                                                "object the buffer came from, so mutating one changes the other" % (f.short, what, variant), [st["loc"]])
    rep.floor(rule, "constructions of VCell::%s" % variant, n, floor_c)
    m = 0
    for b in sorted(cg.registry):
        f = facts.fns.get(b)
        if f is None:
            continue
        oks = []
        for bb, j_, st in f.stmts():
            rv = st["rv"]
            if st["lhs"]["l"] == 0 and not st["lhs"]["p"] and rv["k"] == "agg" and rv.get("variant") == "Ok" and rv["ops"]:
                o = f.origin(rv["ops"][0])
                oks.append((st, o[0] == "call" and callee(o[1]) == ctor))
        if not any(x for _, x in oks):
            continue
        m += 1
        bad = [st for st, x in oks if not x]
        key = "%s|fresh-result|%s" % (rule, f.short.rsplit("::", 1)[-1])
        if bad:
            rep.fail(rule, key, "%s returns a newly allocated %s on some paths but something else on another Ok path: on that "
                     "path the result is (or aliases) an operand" % (f.short, what), [bad[0]["loc"]])
        else:
            rep.ok(rule, key, "%s: every Ok result is %s(..)" % (f.short, short_path(ctor)), [f.span])
    rep.floor(rule, "builtins returning newly allocated %ss" % what, m, floor_b)



def r15n(ctx, rep, rule="R15n"):
    """case-insensitive comparison of strings is character by character"""
    facts, cg = ctx["facts"], ctx["cg"]
    rep.rule(rule, "a string is a vector of characters, also when case is ignored: string-ci=? and its siblings and string-foldcase "
             "agree with folding each character as char-foldcase does. str::to_lowercase / to_uppercase map a whole string and "
             "are context-sensitive (a capital sigma at the end of a word becomes the final form), so through them "
             "(string-ci=? \"aΣ\" \"aσ\") is #f although the strings are equal character by character, and the predicate is not "
             "transitive. Neither the -ci string procedures (with their closures and the local helpers they call) nor "
             "string-foldcase call the whole-string case mappings.")
    n = 0
    for p, f in sorted(facts.fns.items()):
        if not p.startswith(STRMOD):
            continue
        base = p.split("::{closure")[0].rsplit("::", 1)[-1]
        if not (base.startswith("string_ci_") or base == "string_foldcase"):
            continue
        scope = [f]
        for bb, t in f.calls():
            c = callee(t)
            if c in facts.fns and c.startswith("marwood::vm::builtin::") and c.rsplit("::", 1)[-1].startswith(("fold", "ci_")):
                scope.append(facts.fns[c])
                scope += list(facts.closures_of(facts.fns[c]))
        bad = []
        for g in scope:
            for bb, t in g.calls():
                c = callee(t) or ""
                if re.search(r"str::<impl str>::to_(lower|upper)case$", c):
                    bad.append(t["loc"])
        n += 1
        key = "%s|%s" % (rule, f.short.replace("vm::builtin::", ""))
        (rep.ok if not bad else rep.fail)(
            rule, key, "%s folds no whole string" % f.short if not bad else
            "%s maps the whole string with str::to_lowercase / to_uppercase: the result depends on where in the string a character "
            "stands (final sigma), so the comparison disagrees with the character-by-character one" % f.short, bad[:2])
    rep.floor(rule, "-ci string procedures, their closures, and string-foldcase", n, 6)

def run(ctx, rep):
    units.r15a(ctx, rep)
    units.r15b(ctx, rep)
    r15c(ctx, rep)
    r15d(ctx, rep)
    r15g(ctx, rep)
    r15h(ctx, rep)
    r15i(ctx, rep)
    r15j(ctx, rep)
    r15n(ctx, rep)
    from . import popbalance
    popbalance.r_arity_table(ctx, rep, "R15k", R7RS_ARITY_C15, "the string and character procedures C15 names")
    from . import numeric
    numeric.r_fold_adjacent(ctx, rep, "R15f", [STRMOD, "marwood::vm::builtin::char::"], 2)
    from . import C14
    C14.r14g(ctx, rep, rule="R15e", only=STRMOD, floor=1)
    from . import C06
    C06.r06a_restricted(ctx, rep, "R15p", [STRMOD, "marwood::vm::builtin::char::"], "the string and character procedures never abort", 25)
    rep.not_decided += ["agreement of each procedure with a Vec<char> model (value-level)",
                        "that mutators change exactly the addressed characters",
                        "panic sites of these files (C06's inventory)"]
