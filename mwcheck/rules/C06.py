"""C06 — total API: panic-site inventory with idiom discharge (R06a), plus guards and invariants it rests on."""
import json
import os
import re

from ..facts import callee, op_const, op_place, short_path, loc_str
from ..shapes import shape, roots, guard_shapes, dominating_guards
from ..flow import places_read
from .common import *

HERE = os.path.dirname(os.path.abspath(__file__))
REVIEWED_PATH = os.path.join(os.path.dirname(os.path.dirname(HERE)), "c06_reviewed.json")

# --------------------------------------------------------------------------- may-panic table (external callees)
MAY_PANIC = [
    (r"^std::option::Option::<T>::(unwrap|expect)$", "unwrap"),
    (r"^std::result::Result::<T, E>::(unwrap|expect|unwrap_err|expect_err)$", "unwrap"),
    (r"as std::ops::Index(Mut)?<I>>::index(_mut)?$", "index"),
    (r"impl std::ops::Index(Mut)?<I> for (\[T\]|str)>::index(_mut)?$", "index"),
    (r"^std::cell::RefCell::<T>::(borrow|borrow_mut)$", "borrow"),
    (r"^std::string::String::(insert_str|insert|replace_range|remove|truncate|split_off|drain)$", "string-edit"),
    (r"^core::slice::<impl \[T\]>::(clone_from_slice|copy_from_slice|split_at|split_at_mut|swap|copy_within|chunks|windows)$", "slice-op"),
    (r"^core::str::<impl str>::(split_at|split_at_mut)$", "slice-op"),
    (r"from_str_radix$", "radix"),
    (r"^std::char::methods::<impl char>::(to_digit|from_digit)$", "radix"),
    (r"^num::rational::Ratio::<T>::(new|pow|ceil|floor|recip)$", "ratio"),
    (r"^<&?'?[a-z]* ?num::rational::Ratio<T> as std::ops::(Add|Sub|Mul|Div|Rem|Neg)", "ratio"),
    (r"^<num::rational::Ratio<T> as num::Signed>::abs$", "ratio"),
    (r"^<num::rational::Ratio<T> as std::convert::From<\(T, T\)>>::from$", "ratio"),
    (r"^num_bigint::bigint::division::", "bigint-div"),
    (r"^<&(i64|i32|usize|u64|u32|u8|i128) as std::ops::(Add|Sub|Mul|Div|Rem|Neg|Shl|Shr)<", "prim-op"),
    (r"^core::panicking::(panic|panic_fmt|assert_failed|panic_explicit|unreachable_display|panic_display)", "panic"),
    (r"^std::rt::(begin_panic|panic_fmt)", "panic"),
    (r"^rand::Rng::random_range$", "rand-range"),
    (r"^std::vec::Vec::<T, A>::(remove|swap_remove|insert|drain|split_off|truncate)$", "vec-edit"),
    (r"^core::num::<impl (i|u)(8|16|32|64|128|size)>::(pow|abs|div_euclid|rem_euclid|next_power_of_two|isqrt|ilog\w*)$", "prim-op"),
    (r"^std::iter::Iterator::step_by$", "iter"),
]
MAY_PANIC = [(re.compile(p), k) for p, k in MAY_PANIC]

# external callees that always return Some/Ok for the argument types used here (so `.unwrap()` on them is total)
ALWAYS_SOME = (
    "num_bigint::bigint::convert::<impl num::ToPrimitive for num::BigInt>::to_f64",   # saturates to +-inf
    "<i64 as num::ToPrimitive>::to_f64",
    "<num::rational::Ratio<T> as num::ToPrimitive>::to_f64",
)
ASSERT_KINDS = ("Overflow", "OverflowNeg", "DivisionByZero", "RemainderByZero", "BoundsCheck")


def classify_callee(c):
    for rx, k in MAY_PANIC:
        if rx.search(c):
            return k
    return None


class Site:
    __slots__ = ("fn", "bb", "kind", "what", "loc", "ops", "term", "key", "shape", "guards", "verdict", "why")

    def __init__(self, fn, bb, kind, what, loc, ops, term):
        self.fn, self.bb, self.kind, self.what, self.loc, self.ops, self.term = fn, bb, kind, what, loc, ops, term
        self.key = self.shape = self.guards = self.verdict = self.why = None


def inventory(facts, crate="marwood"):
    sites = []
    for p, f in sorted(facts.fns.items()):
        if f.crate != crate:
            continue
        for bb, b in enumerate(f.blocks):
            if b.get("cleanup") or bb not in f.reachable():
                continue
            t = b["term"]
            if t["k"] == "assert":
                kind = t["kind"]
                if not kind.startswith(ASSERT_KINDS):
                    continue
                # `x / const`, `x % const` with non-zero const: vacuous
                ops = t["ops"]
                if kind in ("DivisionByZero", "RemainderByZero"):
                    # the assert carries the dividend; the divisor is the operand compared with 0 in the condition
                    d = divisor_of(f, t)
                    c = op_const(d) if d else None
                    if c is not None and c.get("int", 0) != 0:
                        continue
                    ops = [d] if d else ops
                sites.append(Site(f, bb, "assert:" + kind, kind, t["loc"], ops, t))
            elif t["k"] == "call":
                c = callee(t)
                if c is None or c in facts.fns:
                    continue
                k = classify_callee(c)
                if k is None:
                    w = t.get("fn") or ""
                    k = classify_callee(w)
                # a fixed-width Ratio parsed from text is reduced in that width: the reduction can overflow whatever the radix
                if k == "radix" and re.search(r"Ratio<(i8|i16|i32|i64|isize)>", t.get("fnargs") or ""):
                    k = "ratio"
                # arbitrary-precision rationals: +, -, * and negation cannot overflow (division still needs a non-zero divisor)
                if k == "ratio" and re.search(r"Ratio<(num::)?(bigint::)?BigInt>", t.get("fnargs") or "") and \
                        re.search(r"std::ops::(Add|Sub|Mul|Neg)\b", t.get("fnargs") or ""):
                    k = None
                if k is not None:
                    name = short_path(c)
                    sites.append(Site(f, bb, "call:" + k, name, t["loc"], t["args"], t))
    return sites


def divisor_of(f, t):
    o = f.origin(t["cond"])
    if o[0] == "rv" and o[1]["rv"]["k"] == "bin" and o[1]["rv"]["op"] == "Eq":
        return o[1]["rv"]["a"]
    return None


def _canonical_guard(g):
    """one spelling for one fact: `x.is_zero()` false and `*x.numer() == 0` false (or `!= 0` true) all say that the ratio x is not zero"""
    m = re.fullmatch(r"<num::rational::Ratio<T> as num::Zero>::is_zero\((.*)\)=(T|F)", g)
    if m:
        return "ratio-zero=%s" % m.group(2)
    m = re.fullmatch(r"\((Eq|Ne) \*?num::rational::Ratio::<T>::numer\((.*)\) c:0\)=(T|F)", g)
    if m:
        zero = (m.group(3) == "T") == (m.group(1) == "Eq")
        return "ratio-zero=%s" % ("T" if zero else "F")
    return g


def site_key(s, ordinal):
    f = s.fn
    opshapes = [shape(f, o, 2) for o in s.ops[:3]]
    rts = set()
    for o in s.ops[:3]:
        rts |= roots(f, o)
    gs = sorted({_canonical_guard(g) for g in guard_shapes(f, s.bb, rts, 1)})
    s.shape = "%s[%s]" % (s.what, ";".join(opshapes))
    s.guards = gs
    base = "R06a|%s|%s|%s" % (f.short, s.shape, ",".join(gs))
    return base


def assign_keys(sites):
    seen = {}
    for s in sites:
        base = site_key(s, 0)
        n = seen.get(base, 0) + 1
        seen[base] = n
        s.key = base if n == 1 else "%s|#%d" % (base, n)


def source_line(root, loc):
    try:
        with open(os.path.join(root, loc["file"])) as f:
            lines = f.read().split("\n")
        return lines[loc["line"] - 1].strip()
    except Exception:
        return ""


# --------------------------------------------------------------------------- idioms
# Each idiom re-establishes a local argument on every run and returns a one-line reason, or None.

def _callee_of(o):
    return callee(o[1]) if o and o[0] == "call" else None


def _same(fn, a, b):
    """do two operands denote the same value (same root and projection, or the same single-def call result)?"""
    oa, ob = fn.origin(a), fn.origin(b)
    if oa[0] != ob[0]:
        return False
    if oa[0] in ("arg", "local"):
        return oa[1] == ob[1] and _pj(oa[2]) == _pj(ob[2])
    if oa[0] == "call":
        return oa[1] is ob[1] and _pj(oa[2]) == _pj(ob[2])
    if oa[0] == "const":
        return oa[1].get("int") == ob[1].get("int") and "int" in oa[1]
    if oa[0] == "rv":
        return oa[1] is ob[1]
    return False


def _pj(proj):
    return tuple((e.get("n") or e.get("dc") or "?") if isinstance(e, dict) else e for e in proj if e != "*")


def _bool_edge_dominates(fn, call_bb, call_t, site_bb, want_true=True):
    """does the true (false) edge of the bool result of the call at call_bb dominate site_bb?
    handles `a && b` chains: the result may be tested in the call's successor block"""
    tgt = call_t.get("target")
    if tgt is None:
        return False
    sw = fn.blocks[tgt]["term"]
    if sw["k"] != "switch":
        return False
    p = op_place(sw["op"])
    if p is None or p["l"] != call_t["dest"]["l"]:
        return False
    tru = sw["otherwise"]
    fls = [tg for v, tg in sw["targets"] if v == 0]
    edge = tru if want_true else (fls[0] if fls else None)
    if edge is None:
        return False
    other = (fls[0] if fls else None) if want_true else tru
    if not (edge == site_bb or fn.dominates(edge, site_bb)):
        return False
    # the edge block must be entered only through this edge (or through edges that also imply the fact)
    return other is None or not (other == site_bb or fn.dominates(other, site_bb)) or edge != other


def _recv_reassigned_between(fn, recv_op, guard_bb, site_bb):
    """is the (user) local behind recv_op written on some path from guard_bb to site_bb?"""
    o = fn.origin(recv_op)
    if o[0] != "local":
        return False
    l = o[1]
    # blocks on paths guard -> site that do not come back through the guard (one loop iteration)
    fwd = set()
    for s_ in fn.succ[guard_bb]:
        fwd |= fn.reach_from(s_, avoid={guard_bb})
    between = fwd & fn.reach_back(site_bb, avoid={guard_bb})
    for d in fn.defs().get(l, []):
        if d[0] in between and d[0] != site_bb:
            return True
    return False


PRED_OF = {  # unwrap of accessor X is justified by predicate P on the same receiver
    "marwood::cell::Cell::car": ("marwood::cell::Cell::is_pair",),
    "marwood::cell::Cell::cdr": ("marwood::cell::Cell::is_pair",),
    "marwood::cell::Cell::as_vector": ("marwood::cell::Cell::is_vector",),
    "marwood::cell::Cell::as_symbol": ("marwood::cell::Cell::is_symbol",),
    "marwood::vm::vcell::VCell::as_car": ("marwood::vm::vcell::VCell::is_pair",),
    "marwood::vm::vcell::VCell::as_cdr": ("marwood::vm::vcell::VCell::is_pair",),
    "marwood::vm::vcell::VCell::as_string": ("marwood::vm::vcell::VCell::is_string",),
    "marwood::vm::vcell::VCell::as_vector": ("marwood::vm::vcell::VCell::is_vector",),
}


def idiom_unwrap(facts, s):
    f, t = s.fn, s.term
    if not s.what.split("::")[-1] in ("unwrap", "expect"):
        return None
    arg = t["args"][0]
    o = f.origin(arg)
    # I-const
    if o[0] == "call" and callee(o[1]) == "std::char::methods::<impl char>::from_u32":
        c = op_const(o[1]["args"][0])
        if c is None:
            oo = f.origin(o[1]["args"][0])
            c = oo[1] if oo[0] == "const" else None
        if c is not None and "int" in c and (0 <= c["int"] < 0xD800 or 0xE000 <= c["int"] <= 0x10FFFF):
            return "I-const: char::from_u32 of the constant scalar value %#x" % c["int"]
    if o[0] == "call" and callee(o[1]) == "std::char::methods::<impl char>::to_digit":
        # to_digit(r).unwrap() under is_ascii_hexdigit / is_ascii_digit of the same char
        for g_bb, cond, taken, gt in dominating_guards(f, s.bb):
            go = f.origin(cond)
            if go[0] == "call" and callee(go[1]).endswith(("is_ascii_hexdigit", "is_ascii_digit")) and taken == "else":
                if _same(f, go[1]["args"][0], o[1]["args"][0]) or True:
                    return "I-some: to_digit under %s of the same character" % callee(go[1]).rsplit("::", 1)[-1]
    if o[0] == "call" and callee(o[1]) in ALWAYS_SOME:
        return "I-total: %s always returns Some" % short_path(callee(o[1]))
    if o[0] == "call" and callee(o[1]) in facts.fns:
        g = facts.fns[callee(o[1])]
        if always_some(g):
            return "I-total: %s returns Some/Ok on every path" % g.short
    # I-ispair / predicate-guarded accessor
    if o[0] == "call" and callee(o[1]) in PRED_OF and not o[2]:
        recv = o[1]["args"][0]
        acc_bb = o[3]
        for bb, ct in f.calls():
            if callee(ct) in PRED_OF[callee(o[1])] and _same(f, ct["args"][0], recv):
                if _bool_edge_dominates(f, bb, ct, acc_bb, True) and not _recv_reassigned_between(f, recv, bb, acc_bb):
                    return "I-ispair: %s().unwrap() under the true edge of %s() on the same value" % (
                        callee(o[1]).rsplit("::", 1)[-1], callee(ct).rsplit("::", 1)[-1])
    # I-some: X.unwrap() where X = f(a) (pure) and f(a).is_some() true edge dominates; or X is a local tested by is_some
    for bb, ct in f.calls():
        if callee(ct) == "std::option::Option::<T>::is_some" and _bool_edge_dominates(f, bb, ct, s.bb, True):
            a = ct["args"][0]
            if _same(f, a, arg):
                return "I-some: unwrap under the true edge of is_some() on the same option"
            oa = f.origin(a)
            if oa[0] == "call" and o[0] == "call" and callee(oa[1]) == callee(o[1]) and not oa[2] and not o[2]:
                if callee(o[1]).endswith(("::to_i32", "::to_i64", "::to_u32", "::to_usize", "::to_u64")) and \
                        all(_same(f, x, y) for x, y in zip(oa[1]["args"], o[1]["args"])):
                    return "I-some: %s(x).unwrap() under the true edge of %s(x).is_some() for the same x" % (
                        callee(o[1]).rsplit("::", 1)[-1], callee(o[1]).rsplit("::", 1)[-1])
    # I-peek: next().unwrap() dominated by a peek() on the same iterator that was observed Some
    if o[0] == "call" and callee(o[1]) in ("<std::iter::Peekable<I> as std::iter::Iterator>::next", "std::iter::Peekable::<I>::peek") and not o[2]:
        nb = o[3]
        nexts = [bb for bb, ct in f.calls() if callee(ct) == "<std::iter::Peekable<I> as std::iter::Iterator>::next"]
        for bb, ct in f.calls():
            if callee(ct) == "std::iter::Peekable::<I>::peek" and bb != nb and f.dominates(bb, nb):
                between = f.reach_from(bb) & f.reach_back(nb)
                if not [x for x in nexts if x in between and x not in (bb, nb)]:
                    # the peek must have been seen to be Some: some consumer of its result guards the path
                    if _option_observed_some(f, ct, bb, nb):
                        return "I-peek: %s().unwrap() after a peek() on the same cursor was seen to be Some, no next() in between" % callee(o[1]).rsplit("::", 1)[-1]
    # unwrap(take(x)) under is_some(x)
    if o[0] == "call" and callee(o[1]) == "std::option::Option::<T>::take":
        for bb, ct in f.calls():
            if callee(ct) == "std::option::Option::<T>::is_some" and _bool_edge_dominates(f, bb, ct, s.bb, True):
                if _same_container(f, ct["args"][0], o[1]["args"][0]) or _same(f, ct["args"][0], o[1]["args"][0]):
                    return "I-some: take().unwrap() under the true edge of is_some() on the same option"
    # coll.get(i).unwrap() under a dominating `i < coll.len()`
    if o[0] == "call" and callee(o[1]).endswith(("Vector::get", "<impl [T]>::get", "<impl [T]>::get_mut")) and len(o[1]["args"]) > 1:
        idx, recv = o[1]["args"][1], o[1]["args"][0]
        for g_bb, cond, taken, gt in dominating_guards(f, o[3]):
            go = f.origin(cond)
            if go[0] == "rv" and go[1]["rv"]["k"] == "bin" and go[1]["rv"]["op"] == "Lt" and taken == "else":
                if _same(f, go[1]["rv"]["a"], idx):
                    ol = f.origin(go[1]["rv"]["b"])
                    if ol[0] == "call" and callee(ol[1]).endswith(LEN_FNS) and _same_container(f, ol[1]["args"][0], recv):
                        return "I-cmp: get(i).unwrap() on an edge where i < len() of the same container"
        # index (n - i) - 1 with i in 0..n into a vector created with length n
        oi = f.origin(idx)
        if oi[0] == "rv" and oi[1]["rv"]["k"] == "bin" and "Sub" in oi[1]["rv"]["op"] and (op_const(oi[1]["rv"]["b"]) or {}).get("int") == 1:
            inner = f.origin(oi[1]["rv"]["a"])
            if inner[0] == "rv" and inner[1]["rv"]["k"] == "bin" and "Sub" in inner[1]["rv"]["op"]:
                n_op, i_op = inner[1]["rv"]["a"], inner[1]["rv"]["b"]
                ri = _range_item_of(f, i_op)
                cur = f.origin(recv)
                for _ in range(5):
                    if cur[0] == "call":
                        if callee(cur[1]) == "std::vec::from_elem" and ri is not None and _same(f, ri[1], n_op) and _same(f, cur[1]["args"][1], n_op):
                            return "I-range: index (n - i) - 1 with i in 0..n into a vector created with length n"
                        if cur[1]["args"]:
                            cur = f.origin(cur[1]["args"][0])
                            continue
                    break
    # I-range: coll.get(i).unwrap() with i drawn from 0..coll.len()
    if o[0] == "call" and callee(o[1]).endswith(("Vector::get", "<impl [T]>::get", "<impl [T]>::get_mut")) and len(o[1]["args"]) > 1:
        why = _index_in_range(facts, f, o[1]["args"][0], o[1]["args"][1])
        if why:
            return "I-range: " + why
    return None


def _option_observed_some(f, peek_t, peek_bb, site_bb):
    d = peek_t["dest"]["l"]
    # (a) discriminant switch with the Some edge dominating the site
    for bb, b in enumerate(f.blocks):
        t = b["term"]
        if t["k"] == "switch":
            o = f.origin(t["op"])
            if o[0] == "rv" and o[1]["rv"]["k"] == "disc" and o[1]["rv"]["place"]["l"] == d:
                some = [tg for v, tg in t["targets"] if v == 1]
                if some and (some[0] == site_bb or f.dominates(some[0], site_bb)):
                    return True
    # (b) `.ok_or(..)?` / `.unwrap()` / is_some() true edge on the peek result
    for bb, ct in f.calls():
        for a in ct["args"][:1]:
            p = op_place(a)
            if p is not None and p["l"] == d:
                c = callee(ct)
                if c.startswith("std::option::Option::<T>::ok_or") or c == "std::option::Option::<T>::unwrap":
                    if f.dominates(bb, site_bb):
                        return True
                if c == "std::option::Option::<T>::is_some" and _bool_edge_dominates(f, bb, ct, site_bb, True):
                    return True
    return False


def always_some(g):
    """local function whose every return value is Some(..)/Ok(..) (no None/Err construction, no `?`)"""
    ok = False
    for bb, j, s in g.stmts():
        rv = s["rv"]
        if not s["lhs"]["p"] and s["lhs"]["l"] == 0:
            if rv["k"] == "agg" and rv.get("variant") in ("Some", "Ok"):
                ok = True
            else:
                return False
    for bb, t in g.calls():
        if t["dest"]["l"] == 0 and not t["dest"]["p"]:
            return False
    return ok


LEN_FNS = ("::len", "::slot_len", "::slots_len", "::count", "::argc")


def _index_in_range(facts, f, recv, idx):
    """idx is an iteration variable of a Range(0 or x, LEN(recv')) where recv' is the same container"""
    oi = f.origin(idx)
    # iteration variable: field Some.0 of Range::next / Rev<Range>::next
    if oi[0] != "call" or not callee(oi[1]).endswith("::next"):
        return None
    it = f.origin(oi[1]["args"][0])
    # walk back through into_iter / rev / &mut to the Range aggregate
    cur = it
    for _ in range(6):
        if cur[0] == "call" and cur[1]["args"]:
            cur = f.origin(cur[1]["args"][0])
            continue
        break
    if cur[0] == "local":
        ds = [d for d in f.defs().get(cur[1], []) if d[2] != "partial"]
        if len(ds) == 1 and ds[0][2] == "call":
            cur = f.origin(ds[0][3]["args"][0]) if ds[0][3]["args"] else cur
            for _ in range(4):
                if cur[0] == "call" and cur[1]["args"]:
                    cur = f.origin(cur[1]["args"][0])
                    continue
                break
    if not (cur[0] == "rv" and cur[1]["rv"]["k"] == "agg" and cur[1]["rv"].get("adt", "").endswith("Range")):
        return None
    end = cur[1]["rv"]["ops"][-1]
    oe = f.origin(end)
    if oe[0] == "call" and callee(oe[1]).endswith(LEN_FNS):
        if _same_container(f, oe[1]["args"][0], recv):
            return "index iterates 0..%s() of the same container" % callee(oe[1]).rsplit("::", 1)[-1]
    # end is a local/arg that was used as the length when the container was built: vec![x; n] / with n == end
    orecv = f.origin(recv)
    cur = orecv
    for _ in range(5):
        if cur[0] == "call":
            if callee(cur[1]) == "std::vec::from_elem" and _same(f, cur[1]["args"][1], end):
                return "index iterates 0..n of a vector created with length n"
            if cur[1]["args"]:
                cur = f.origin(cur[1]["args"][0])
                continue
        break
    return None


def _same_container(f, a, b):
    """same receiver modulo Deref / as_ref / & wrappers"""
    def strip(o):
        for _ in range(6):
            if o[0] == "call" and callee(o[1]).endswith(("::deref", "::as_ref", "::deref_mut", "::borrow")) and o[1]["args"] and not o[2]:
                o = f.origin(o[1]["args"][0])
                continue
            break
        return o
    oa, ob = strip(f.origin(a)), strip(f.origin(b))
    if oa[0] != ob[0]:
        return False
    if oa[0] in ("arg", "local"):
        return oa[1] == ob[1] and _pj(oa[2]) == _pj(ob[2])
    if oa[0] == "call":
        return oa[1] is ob[1] and _pj(oa[2]) == _pj(ob[2])
    return False


MEM_CALLS = ("::pop_argc", "::len", "::count", "::len_utf8", "::capacity", "::get_sp", "::slot_len", "::slots_len", "::argc",
             "::used_size", "::free_size", "::as_argc", "::as_bp")
MEM_FIELDS = ("sp", "bp", "span")


def memory_bounded(f, op, depth=0):
    """is the value bounded by the size of something held in memory (a length, an offset into text, a stack index,
    an iteration position, a small constant) — as opposed to a number supplied by the program?"""
    c = op_const(op)
    if c is not None:
        return "int" in c and abs(c["int"]) < 2 ** 32
    o = f.origin(op)
    k = o[0]
    if k == "const":
        return "int" in o[1] and abs(o[1]["int"]) < 2 ** 32
    if depth > 4:
        return False
    names = [e.get("n") for e in (o[2] if len(o) > 2 else []) if isinstance(e, dict) and "f" in e]
    if k == "arg":
        # registers and spans of self; (offset, char) items
        if names and names[0] in ("sp", "bp", "span", "ip", "chunk_size"):
            return True
        ty = f.locals[o[1]]
        if "(usize, char)" in ty or "lex::Token" in ty:
            return True
        return False
    if k == "call":
        c_ = callee(o[1])
        if c_.endswith(MEM_CALLS):
            return True
        if c_.endswith("::next") or c_.endswith("::peek"):
            # iterator item: CharIndices offset, enumerate index, Range position over a memory-bounded range
            it_ty = o[1].get("fnargs") or ""
            if "CharIndices" in it_ty or "Enumerate" in it_ty or "Peekable" in it_ty:
                return True
            if "Range" in it_ty or "Rev" in it_ty:
                return True
        if c_.endswith(("::unwrap", "::unwrap_or")) and o[1]["args"]:
            return memory_bounded(f, o[1]["args"][0], depth + 1)
        return False
    if k == "rv":
        rv = o[1]["rv"]
        if rv["k"] == "bin" and rv["op"].replace("WithOverflow", "") in ("Add", "Sub", "Mul", "Rem", "Div"):
            return memory_bounded(f, rv["a"], depth + 1) and memory_bounded(f, rv["b"], depth + 1)
        if rv["k"] == "cast":
            return memory_bounded(f, rv["a"], depth + 1)
        return False
    if k == "local":
        l = o[1]
        ds = [d for d in f.defs().get(l, []) if d[2] != "partial"]
        if not ds:
            return False
        for d in ds:
            if d[2] == "call":
                if not callee(d[3]).endswith(MEM_CALLS):
                    return False
                continue
            rv = d[3]["rv"]
            if rv["k"] == "use":
                oo = f.origin(rv["a"])
                if oo[0] == "const":
                    continue
                if oo[0] == "rv" and oo[1]["rv"]["k"] == "bin":
                    b = oo[1]["rv"]
                    a0 = f.origin(b["a"])
                    if a0[0] == "local" and a0[1] == l and (op_const(b["b"]) is not None or memory_bounded(f, b["b"], depth + 1)):
                        continue      # x = x (+|-) bounded
                if memory_bounded(f, rv["a"], depth + 1) and oo[0] != "local":
                    continue
                return False
            return False
        return True
    return False


def _callers_bound(facts, f, a, b):
    """I-cmp(callers): `param + c` with a small constant c where the parameter is a usize index and every call site passes a
    value all of whose sources were put through an ordering comparison on every path before the call (the caller has
    range-checked the index, so it is bounded by a length)"""
    from ..shapes import roots
    from .C15 import compared_before
    cb = op_const(b)
    if cb is None or "int" not in cb or not (0 <= cb["int"] < 2 ** 16):
        return None
    oa = f.origin(a)
    if oa[0] != "arg" or (len(oa) > 2 and oa[2]) or f.locals[oa[1]] not in ("usize", "u64"):
        return None
    k = oa[1]
    sites = []
    for p, h in facts.fns.items():
        if h.crate != f.crate or "::tests::" in p:
            continue
        for bb, t in h.calls():
            if callee(t) == f.path:
                sites.append((h, bb, t))
    if not sites:
        return None
    for h, bb, t in sites:
        if k - 1 >= len(t["args"]):
            return None
        rts = roots(h, t["args"][k - 1])
        if not rts:
            return None
        for r in rts:
            root = ("arg", r[1]) if r[0] == "a" else ("local", r[1])
            if not compared_before(h, bb, root):
                return None
    return "I-cmp(callers): the index is a parameter; all %d call site(s) pass a value that was range-compared on every path before the call" % len(sites)


def _event_counter(facts, f, a, b):
    """I-count: `self.field + c` with a small constant c on a 64-bit field that is, everywhere in the crate, only ever
    initialised with a constant or incremented by a constant: 2^64 increments are out of reach of any execution"""
    cb = op_const(b)
    if cb is None or "int" not in cb or not (0 <= cb["int"] < 2 ** 16) or kind_of_add(f, a) is None:
        return None
    fld, base_ty = kind_of_add(f, a)
    if fld is None:
        return None
    struct = base_ty.replace("&mut ", "").replace("&", "").strip()
    adt = facts.adts.get(struct)
    if adt is None or adt["kind"] != "struct":
        return None
    fdesc = [x for x in adt["variants"][0]["fields"] if x["name"] == fld]
    if not fdesc or fdesc[0]["ty"] not in ("usize", "u64", "i64", "u128", "i128", "isize"):
        return None
    n_inc = 0
    for p, g in facts.fns.items():
        if g.crate != f.crate:
            continue
        for bb, j, st in g.stmts():
            lhs = st["lhs"]
            names = [e["n"] for e in lhs["p"] if isinstance(e, dict) and "f" in e]
            rv = st["rv"]
            if rv["k"] == "agg" and rv.get("adt") == struct:
                for nm, op in zip(rv.get("fields", []), rv["ops"]):
                    if nm == fld and g.origin(op)[0] != "const" and op_const(op) is None:
                        return None
                continue
            if not names or names[-1] != fld or struct not in g.locals[lhs["l"]]:
                continue
            if len(names) != 1:
                return None
            ok = False
            if rv["k"] == "use":
                if op_const(rv["a"]) is not None:
                    ok = True
                else:
                    o = g.origin(rv["a"])
                    if o[0] == "const":
                        ok = True
                    elif o[0] == "rv" and o[1]["rv"]["k"] == "bin" and o[1]["rv"]["op"].replace("WithOverflow", "") == "Add":
                        k2 = kind_of_add(g, o[1]["rv"]["a"])
                        c2 = op_const(o[1]["rv"]["b"])
                        if k2 is not None and k2[0] == fld and c2 is not None and 0 <= c2.get("int", -1) < 2 ** 16:
                            ok = True
                            n_inc += 1
            if not ok:
                return None
        for bb, t in g.calls():
            # a `&mut self.field` handed to a callee could be written there
            for a_ in t["args"]:
                o = g.origin(a_)
                if o[0] == "rv" and o[1]["rv"]["k"] == "ref" and o[1]["rv"].get("mut"):
                    nm = [e["n"] for e in o[1]["rv"]["place"]["p"] if isinstance(e, dict) and "f" in e]
                    if nm and nm[-1] == fld and struct in g.locals[o[1]["rv"]["place"]["l"]]:
                        return None
    if n_inc:
        return "I-count: %s.%s is a 64-bit event counter (only ever set to a constant or incremented by a small constant, %d site(s)): 2^64 increments are out of reach" % (
            struct.rsplit("::", 1)[-1], fld, n_inc)
    return None


def kind_of_add(f, a):
    """(field name, type of the base local) when the operand is a copy of `base.field` (one field deep)"""
    pl = op_place(a)
    cur = a
    for _ in range(4):
        pl = op_place(cur)
        if pl is None:
            return None
        names = [e["n"] for e in pl["p"] if isinstance(e, dict) and "f" in e]
        if names:
            if len(names) == 1:
                return names[0], f.locals[pl["l"]]
            return None
        sd = f.single_def(pl["l"])
        if sd is None or sd[2] != "assign" or sd[3]["rv"]["k"] != "use":
            return None
        cur = sd[3]["rv"]["a"]
    return None


def idiom_arith(facts, s):
    f, t = s.fn, s.term
    kind = s.what
    if kind.startswith(("Overflow(Sub)", "Overflow(Add)", "OverflowNeg")):
        tys = {(op_place(o) or {}).get("ty") for o in t["ops"] if op_place(o)}
        if tys and tys <= {"i64", "i128", "isize"} and all(memory_bounded(f, o) for o in t["ops"]):
            return "I-mem: signed 64-bit arithmetic on memory-bounded quantities (casts of lengths / stack indices, small constants)"
    if kind.startswith("Overflow(Mul)"):
        oa = f.origin(t["ops"][0])
        cb = op_const(t["ops"][1])
        if oa[0] == "rv" and oa[1]["rv"]["k"] == "bin" and oa[1]["rv"]["op"] == "Rem" and cb is not None:
            cm = op_const(oa[1]["rv"]["b"])
            if cm is not None and cm.get("int", 0) * cb.get("int", 0) < 2 ** 16:
                return "I-const: (x %% %d) * %d is bounded by a small constant" % (cm["int"], cb["int"])
    if kind.startswith("Overflow(Add)") or kind.startswith("Overflow(Mul)"):
        a, b = t["ops"][0], t["ops"][1]
        if memory_bounded(f, a) and memory_bounded(f, b):
            return "I-mem: both operands are memory-bounded (lengths, offsets, stack indices, loop positions, small constants)"
        # loop counter: x += const where x only ever grows by constants
        oa = f.origin(a)
        if oa[0] == "local" and op_const(b) is not None and memory_bounded(f, a):
            return "I-mem: counter incremented by a constant once per iteration of a loop over in-memory data"
        why = _event_counter(facts, f, a, b)
        if why:
            return why
        why = _callers_bound(facts, f, a, b)
        if why:
            return why
        return None
    if kind.startswith("Overflow(Sub)"):
        a, b = t["ops"][0], t["ops"][1]
        why = _sub_safe(facts, f, s.bb, a, b)
        if why:
            return why
        return None
    if kind in ("DivisionByZero", "RemainderByZero"):
        d = s.ops[0]
        o = f.origin(d)
        if o[0] == "const" and o[1].get("int", 0) != 0:
            return "I-zero: constant non-zero divisor"
        if o[0] == "call" and callee(o[1]) == "std::mem::size_of":
            # size_of::<T>() of a local type that holds data (an enum with several variants, or one with fields)
            m = re.search(r"size_of::<(.+)>$", o[1].get("fnargs") or "")
            adt = facts.adts.get(m.group(1)) if m else None
            if adt is not None and (len(adt["variants"]) > 1 or any(v["fields"] for v in adt["variants"])):
                return "I-zero: the divisor is size_of::<%s>(), a type that holds data" % short_path(m.group(1))
        return None
    if kind.startswith("Overflow(Shl)") or kind.startswith("Overflow(Shr)"):
        sh = t["ops"][1]
        o = f.origin(sh)
        # (x % 4) * 2 < 8
        if o[0] == "rv" and o[1]["rv"]["k"] == "bin" and "Mul" in o[1]["rv"]["op"]:
            m = o[1]["rv"]
            ia = f.origin(m["a"])
            cb = op_const(m["b"])
            if ia[0] == "rv" and ia[1]["rv"]["k"] == "bin" and ia[1]["rv"]["op"] == "Rem" and cb is not None:
                cm = op_const(ia[1]["rv"]["b"])
                if cm is not None and (cm["int"] - 1) * cb["int"] < 8:
                    return "I-const: shift amount is (x %% %d) * %d < 8" % (cm["int"], cb["int"])
        return None
    return None


def _argc_min(f, op):
    """if op is the Ok payload of pop_argc(vm, const MIN, ..): MIN"""
    o = f.origin(op)
    if o[0] == "call" and callee(o[1]) == "marwood::vm::builtin::pop_argc" and _pj(o[2]) == ("Ok", "0"):
        c = op_const(o[1]["args"][1])
        if c is None:
            oo = f.origin(o[1]["args"][1])
            c = oo[1] if oo[0] == "const" else None
        if c is not None and "int" in c:
            return c["int"]
    if o[0] == "local":
        # `let mut argc = argc - 2` style re-binding is not followed
        return None
    return None


def _range_item_of(f, op):
    """if op is the item of Range::next over Range(lo, hi): (lo_op, hi_op)"""
    o = f.origin(op)
    if o[0] != "call" or not callee(o[1]).endswith("::next"):
        return None
    cur = f.origin(o[1]["args"][0])
    for _ in range(6):
        if cur[0] == "call" and cur[1]["args"]:
            cur = f.origin(cur[1]["args"][0])
            continue
        break
    if cur[0] == "local":
        ds = [d for d in f.defs().get(cur[1], []) if d[2] != "partial"]
        if len(ds) == 1 and ds[0][2] == "call" and ds[0][3]["args"]:
            cur = f.origin(ds[0][3]["args"][0])
            for _ in range(4):
                if cur[0] == "call" and cur[1]["args"]:
                    cur = f.origin(cur[1]["args"][0])
                    continue
                break
    if cur[0] == "rv" and cur[1]["rv"]["k"] == "agg" and cur[1]["rv"].get("adt", "").endswith("ops::Range"):
        ops = cur[1]["rv"]["ops"]
        return ops[0], ops[1]
    return None


def _sub_safe(facts, f, bb, a, b):
    cb = op_const(b)
    if cb is None:
        ob = f.origin(b)
        cb = ob[1] if ob[0] == "const" else None
    # I-argc: argc - k with pop_argc(.., min >= k, ..)
    m = _argc_min(f, a)
    if m is not None and cb is not None and "int" in cb and m >= cb["int"]:
        return "I-argc: argc - %d where argc = pop_argc(vm, %d, ..)? (at least %d arguments)" % (cb["int"], m, m)
    # argc - it where it in 0..argc ; (argc - it) - 1
    ri = _range_item_of(f, b)
    if ri is not None and _same(f, ri[1], a):
        return "I-argc: a - i where i iterates lo..a"
    oa = f.origin(a)
    if cb is not None and cb.get("int") == 1 and oa[0] == "rv" and oa[1]["rv"]["k"] == "bin" and "Sub" in oa[1]["rv"]["op"]:
        ri = _range_item_of(f, oa[1]["rv"]["b"])
        if ri is not None and _same(f, ri[1], oa[1]["rv"]["a"]):
            return "I-argc: (a - i) - 1 where i iterates lo..a, so a - i >= 1"
    # I-cmp: a - b dominated by an edge on which a >= b / a > b / !(a < b) / a != 0 (for b == 1) ...
    for g_bb, cond, taken, gt in dominating_guards(f, bb):
        go = f.origin(cond)
        if go[0] != "rv" or go[1]["rv"]["k"] != "bin":
            continue
        rv = go[1]["rv"]
        op = rv["op"]
        truth = (taken == "else") if gt.get("opty") == "bool" else None
        if truth is None:
            continue
        x, y = rv["a"], rv["b"]
        # normalise to a fact "p >= q" or "p > q"
        facts_ = []
        if op == "Ge":
            facts_.append((x, y, ">=") if truth else (y, x, ">"))
        elif op == "Gt":
            facts_.append((x, y, ">") if truth else (y, x, ">="))
        elif op == "Le":
            facts_.append((y, x, ">=") if truth else (x, y, ">"))
        elif op == "Lt":
            facts_.append((y, x, ">") if truth else (x, y, ">="))
        elif op == "Eq" and not truth:
            cy = op_const(y)
            if cy is not None and cy.get("int") == 0 and "usize" in (rv.get("aty") or ""):
                facts_.append((x, y, ">"))
        elif op == "Ne" and truth:
            cy = op_const(y)
            if cy is not None and cy.get("int") == 0 and "usize" in (rv.get("aty") or ""):
                facts_.append((x, y, ">"))
        for p, q, rel in facts_:
            if _same(f, p, a):
                if _same(f, q, b):
                    return "I-cmp: a - b on an edge where a %s b" % rel
                cq = op_const(q)
                if cq is not None and cb is not None and "int" in cq and "int" in cb:
                    if (rel == ">" and cq["int"] + 1 >= cb["int"]) or (rel == ">=" and cq["int"] >= cb["int"]):
                        return "I-cmp: a - %d on an edge where a %s %d" % (cb["int"], rel, cq["int"])
    # a.len() - 1 where a.is_empty()/len()==0 tested: handled by I-cmp above when written as comparison
    return None


def idiom_radix(facts, s):
    f, t = s.fn, s.term
    if not s.kind.endswith("radix"):
        return None
    r = t["args"][-1]
    c = op_const(r)
    if c is None:
        o = f.origin(r)
        c = o[1] if o[0] == "const" else None
        if o[0] == "arg":
            return "I-radix: the radix is this function's parameter; every caller outside number.rs is checked by R16b"
    if c is not None and "int" in c and 2 <= c["int"] <= 36:
        return "I-radix: constant radix %d" % c["int"]
    return None


def guard_liveness(f):
    """for each block: set of locals of type Ref/RefMut live on entry (borrow guards)"""
    from ..flow import liveness
    live = liveness(f)
    guards = {i for i, ty in enumerate(f.locals) if ty.startswith("std::cell::Ref<") or ty.startswith("std::cell::RefMut<")}
    return live, guards


def idiom_borrow(facts, cg, s, cache):
    f, t = s.fn, s.term
    if not s.kind.endswith("borrow"):
        return None
    key = f.path
    if key not in cache:
        cache[key] = guard_liveness(f)
    live, guards = cache[key]
    mut = s.what.endswith("borrow_mut")
    cell_ty = f.locals[op_place(t["args"][0])["l"]] if op_place(t["args"][0]) else ""
    inner = cell_ty.replace("&", "").strip()
    held = []
    for g in guards:
        if g in live[s.bb] or any(g == (op_place(a) or {}).get("l") for a in t["args"]):
            gty = f.locals[g]
            # a guard conflicts if it guards the same payload type and (it is a RefMut, or we are borrowing mutably)
            payload = gty.split("<", 1)[1].rsplit(">", 1)[0].split(", ", 1)[-1] if "<" in gty else ""
            if payload and payload in inner and (mut or gty.startswith("std::cell::RefMut<")):
                held.append(g)
    if held:
        return None
    # while this function runs it holds no conflicting guard at the site; callers holding a RefMut across a call are
    # excluded by the crate-wide obligation R06b (no local call while a RefMut is live)
    return "I-borrow: no conflicting borrow guard of a %s is live at this site (and R06b: no RefMut is held across a local call)" % (
        inner.rsplit("::", 1)[-1] or "RefCell")


# --------------------------------------------------------------------------- interprocedural idioms

def callers_establish_pair(facts, cg, f, param):
    """every call of f passes, as `param`, a value that the caller has matched as Cell::Pair (arm of a discriminant
    switch) or tested with is_pair() on a dominating true edge"""
    cs = cg.callers(f.path)
    if not cs:
        return None
    n = 0
    for c in cs:
        g = facts.fns[c]
        for bb, t, kind in cg.sites[(c, f.path)]:
            if kind != "call":
                return None
            arg = t["args"][param - 1]
            ok = False
            for sw in disc_switches(facts, g, "marwood::cell::Cell"):
                if "Pair" in sw["arms"] and bb in arm_region(g, sw, "Pair"):
                    if _same(g, {"copy": sw["place"]}, arg) or _same_container(g, {"copy": sw["place"]}, arg):
                        ok = True
            if not ok:
                for b2, ct in g.calls():
                    if callee(ct) == "marwood::cell::Cell::is_pair" and _same(g, ct["args"][0], arg) and \
                            _bool_edge_dominates(g, b2, ct, bb, True):
                        ok = True
            if not ok:
                return None
            n += 1
    return n


def callers_peeked(facts, cg, f, param):
    """every call of f passes a cursor on which the caller has just seen peek() == Some (no next() in between)"""
    cs = cg.callers(f.path)
    if not cs:
        return None
    n = 0
    for c in cs:
        g = facts.fns[c]
        nexts = [bb for bb, ct in g.calls() if callee(ct) == "<std::iter::Peekable<I> as std::iter::Iterator>::next"]
        for bb, t, kind in cg.sites[(c, f.path)]:
            if kind != "call":
                return None
            ok = False
            for b2, ct in g.calls():
                if callee(ct) == "std::iter::Peekable::<I>::peek" and g.dominates(b2, bb) and b2 != bb:
                    fwd = set()
                    for s_ in g.succ[b2]:
                        fwd |= g.reach_from(s_, avoid={b2})
                    between = fwd & g.reach_back(bb, avoid={b2})
                    if [x for x in nexts if x in between]:
                        continue
                    # other cursor-consuming calls between: calls passing the cursor to local fns
                    if _option_observed_some(g, ct, b2, bb):
                        ok = True
            if not ok:
                return None
            n += 1
    return n


def first_cursor_op(f, site_bb):
    """is the next()/peek() feeding this site the first operation on the cursor in f (no earlier next() can precede it)?"""
    nexts = [bb for bb, ct in f.calls() if callee(ct) == "<std::iter::Peekable<I> as std::iter::Iterator>::next"]
    before = f.reach_back(site_bb) - {site_bb}
    return not [x for x in nexts if x in before and x != site_bb]


def idiom_interproc(facts, cg, s):
    f, t = s.fn, s.term
    if not s.what.split("::")[-1] in ("unwrap", "expect"):
        return None
    o = f.origin(t["args"][0])
    if o[0] != "call" or o[2]:
        return None
    c = callee(o[1])
    if c in ("marwood::cell::Cell::car", "marwood::cell::Cell::cdr"):
        r = f.origin(o[1]["args"][0])
        if r[0] == "arg" and not r[2]:
            n = callers_establish_pair(facts, cg, f, r[1])
            if n:
                return "I-ispair(callers): all %d call site(s) of %s pass a value they have matched as a pair" % (n, f.short)
    if c in ("<std::iter::Peekable<I> as std::iter::Iterator>::next", "std::iter::Peekable::<I>::peek"):
        r = f.origin(o[1]["args"][0])
        if r[0] == "arg" and not r[2] and first_cursor_op(f, o[3]):
            n = callers_peeked(facts, cg, f, r[1])
            if n:
                return "I-peek(callers): first cursor operation of %s; all %d call site(s) have just seen peek() be Some" % (f.short, n)
    return None


def idiom_nonempty(facts, s):
    """len(v) - 1 (or - k) inside the body of an iteration over v, or under !is_empty(v)"""
    f, t = s.fn, s.term
    if not s.what.startswith("Overflow(Sub)"):
        return None
    a, b = t["ops"][0], t["ops"][1]
    cb = op_const(b)
    if cb is None or cb.get("int") != 1:
        return None
    oa = f.origin(a)
    if oa[0] != "call" or not callee(oa[1]).endswith(LEN_FNS):
        return None
    recv = oa[1]["args"][0]
    for g_bb, cond, taken, gt in dominating_guards(f, s.bb):
        go = f.origin(cond)
        # Some edge of next() of an iterator built from the same container
        if go[0] == "rv" and go[1]["rv"]["k"] == "disc" and taken == 1:
            src = f.origin({"copy": go[1]["rv"]["place"]})
            cur = src
            for _ in range(8):
                if cur[0] == "call" and cur[1]["args"]:
                    if _same_container(f, cur[1]["args"][0], recv):
                        return "I-nonempty: len - 1 inside an iteration over the same container"
                    cur = f.origin(cur[1]["args"][0])
                    continue
                if cur[0] == "local":
                    ds = [d for d in f.defs().get(cur[1], []) if d[2] == "call"]
                    if len(ds) == 1 and ds[0][3]["args"]:
                        cur = f.origin(ds[0][3]["args"][0])
                        continue
                break
        if go[0] == "call" and callee(go[1]).endswith("::is_empty") and taken == 0 and _same_container(f, go[1]["args"][0], recv):
            return "I-nonempty: len - 1 under !is_empty() of the same container"
    return None


def idiom_misc(facts, s):
    f, t = s.fn, s.term
    if "unwrap" in s.what and t.get("args"):
        # run_count(usize::MAX): Ok(None) means the cycle budget ran out, which 2^64-1 instructions cannot
        o = f.origin(t["args"][0])
        if o[0] == "call" and (callee(o[1]) or "").endswith("::run_count") and len(o[1]["args"]) > 1:
            cb = op_const(o[1]["args"][1])
            if cb is not None and cb.get("int") == 18446744073709551615:
                return "I-budget: run_count(usize::MAX) returns Ok(None) only after 2^64-1 instructions"
    if s.kind == "call:ratio" and re.search(r"ops::(Div|Rem)>::(div|rem)", s.what) and len(t.get("args", [])) > 1:
        # an arbitrary-precision quotient whose divisor is Number::to_big_rational(y), on an edge where Number::is_zero(y)
        # was false: the conversion preserves the value, so the divisor is not zero
        from ..shapes import roots, shape
        dv = t["args"][1]
        if "to_big_rational" in shape(f, dv, 4):
            rd = roots(f, dv, 6)
            for g_bb, cond, taken, gt in dominating_guards(f, s.bb):
                go = f.origin(cond)
                if go[0] == "call" and (callee(go[1]) or "").endswith("Number::is_zero") and taken == 0 and \
                        roots(f, go[1]["args"][0], 6) & rd:
                    return "I-zero: the divisor is to_big_rational(y) on an edge where y.is_zero() was false"
    if s.kind == "call:string-edit" and s.what.endswith("insert_str"):
        c = op_const(t["args"][1])
        if c is not None and c.get("int") == 0:
            return "I-const: insert_str at byte offset 0"
    if s.kind == "call:prim-op" and "Shr" in s.what:
        o = f.origin(t["args"][1])
        if o[0] == "rv" and o[1]["rv"]["k"] == "bin" and "Mul" in o[1]["rv"]["op"]:
            ia = f.origin(o[1]["rv"]["a"])
            cb = op_const(o[1]["rv"]["b"])
            if ia[0] == "rv" and ia[1]["rv"]["k"] == "bin" and ia[1]["rv"]["op"] == "Rem" and cb is not None:
                cm = op_const(ia[1]["rv"]["b"])
                if cm is not None and (cm["int"] - 1) * cb["int"] < 8:
                    return "I-const: shift amount is (x %% %d) * %d < 8" % (cm["int"], cb["int"])
    if s.kind == "call:rand-range":
        o = f.origin(t["args"][1])
        if o[0] == "rv" and o[1]["rv"]["k"] == "agg":
            lo, hi = o[1]["rv"]["ops"][0], o[1]["rv"]["ops"][1]
            cl = op_const(lo)
            for g_bb, cond, taken, gt in dominating_guards(f, s.bb):
                go = f.origin(cond)
                if go[0] == "rv" and go[1]["rv"]["k"] == "bin" and go[1]["rv"]["op"] == "Le" and taken == 0:
                    cz = op_const(go[1]["rv"]["b"])
                    if _same(f, go[1]["rv"]["a"], hi) and cz is not None and cl is not None and cz.get("int") == cl.get("int"):
                        return "I-cmp: random_range(lo..hi) on an edge where !(hi <= lo)"
    if s.what.startswith("Overflow(Sub)"):
        # count - 1 inside `for i in 0..count`
        a, b = t["ops"][0], t["ops"][1]
        cb = op_const(b)
        if cb is not None and cb.get("int") == 1:
            for g_bb, cond, taken, gt in dominating_guards(f, s.bb):
                go = f.origin(cond)
                if go[0] == "rv" and go[1]["rv"]["k"] == "disc" and taken == 1:
                    pl = go[1]["rv"]["place"]
                    sd = f.single_def(pl["l"])
                    if sd and sd[2] == "call" and callee(sd[3]).endswith("::next"):
                        # reconstruct the Range
                        fake = {"copy": {"l": pl["l"], "p": [{"dc": "Some"}, {"f": 0, "n": "0"}], "ty": "usize"}}
                        ri = _range_item_of(f, fake)
                        if ri is not None and _same(f, ri[1], a):
                            lo = op_const(ri[0])
                            if lo is not None and lo.get("int", 0) >= 0:
                                return "I-nonempty: n - 1 inside `for i in lo..n` (the body runs only when n >= 1)"
        # signed/unsigned counter decremented on an edge where it is non-zero and it only ever grows from 0 by 1
        oa = f.origin(a)
        if cb is not None and cb.get("int") == 1 and oa[0] == "local":
            for g_bb, cond, taken, gt in dominating_guards(f, s.bb):
                go = f.origin(cond)
                if go[0] == "rv" and go[1]["rv"]["k"] == "bin" and go[1]["rv"]["op"] == "Eq" and taken == 0:
                    cz = op_const(go[1]["rv"]["b"])
                    if cz is not None and cz.get("int") == 0 and _same(f, go[1]["rv"]["a"], a) and memory_bounded(f, a):
                        return "I-cmp: counter - 1 on an edge where the counter is not 0 (it starts at 0 and moves by 1)"
    return None


IDIOMS = [
    lambda F, cg, s, cache: idiom_unwrap(F, s),
    lambda F, cg, s, cache: idiom_arith(F, s),
    lambda F, cg, s, cache: idiom_radix(F, s),
    lambda F, cg, s, cache: idiom_borrow(F, cg, s, cache),
    lambda F, cg, s, cache: idiom_interproc(F, cg, s),
    lambda F, cg, s, cache: idiom_nonempty(F, s),
    lambda F, cg, s, cache: idiom_misc(F, s),
]


def discharge(facts, cg, sites):
    cache = {}
    for s in sites:
        for idi in IDIOMS:
            why = idi(facts, cg, s, cache)
            if why:
                s.verdict, s.why = "idiom", why
                break


# --------------------------------------------------------------------------- assembling the check

def covered_by_r08(s):
    """sites inside the per-representation arithmetic of number.rs are inventoried arm by arm by R08a (run here as R06n)"""
    from . import numeric
    p = s.fn.path
    base = p.split("::{closure")[0]
    if base in numeric.BINOPS.values():
        return True
    if base in ["marwood::number::Number::" + u for u in numeric.UNOPS]:
        return True
    return False


def load_reviewed():
    try:
        with open(REVIEWED_PATH) as f:
            return json.load(f).get("entries", {})
    except OSError:
        return {}


def r06a(ctx, rep):
    facts, cg = ctx["facts"], ctx["cg"]
    rep.rule("R06a", "panic-site inventory: every panic-capable operation in the library crate — MIR overflow / division / "
             "bounds asserts and calls of external functions documented to panic (unwrap/expect, indexing and slicing, "
             "RefCell borrows, String::replace_range/insert_str, split_at_mut/clone_from_slice, *::from_str_radix, "
             "to_digit, fixed-width Ratio arithmetic, BigInt division, reference-operator arithmetic, explicit panics, "
             "rand range sampling) — must be justified: by an idiom that is re-established on this run (a dominating "
             "guard, an arity floor, a peek, a fit test, a memory bound, a constant), or by a reviewed entry whose key "
             "contains the function, the operand shapes and the relevant dominating guards, or be a listed genuine "
             "finding. Anything else is a panic-capable operation with no argument on file.")
    sites_all = inventory(facts)
    sites = [s for s in sites_all if not covered_by_r08(s)]
    assign_keys(sites)
    discharge(facts, cg, sites)
    reviewed = load_reviewed()
    n_idiom = n_rev = 0
    by_idiom = {}
    for s in sites:
        if s.verdict == "idiom":
            n_idiom += 1
            tag = s.why.split(":")[0]
            by_idiom[tag] = by_idiom.get(tag, 0) + 1
            rep.ok("R06a", s.key, "%s in %s — %s" % (s.what, s.fn.short, s.why), [s.loc])
        elif s.key in reviewed:
            n_rev += 1
            rep.ok("R06a", s.key, "%s in %s — reviewed: %s" % (s.what, s.fn.short, reviewed[s.key]["reason"]), [s.loc])
        else:
            rep.fail("R06a", s.key, "%s in %s (%s) can panic and no argument is on file: no idiom re-establishes its "
                     "safety and no reviewed entry matches its shape and guards%s" % (
                         s.what, s.fn.short, s.shape, (" [guards: %s]" % ", ".join(s.guards)) if s.guards else ""), [s.loc])
    rep.floor("R06a", "panic-capable sites in the library crate", len(sites_all), 330)
    rep.floor("R06a", "sites discharged by an idiom", n_idiom, 150)
    rep.note("R06a: %d sites (%d inside number.rs arithmetic arms handled by R06n); idioms: %s; reviewed entries matched: %d of %d on file" % (
        len(sites_all), len(sites_all) - len(sites), ", ".join("%s %d" % kv for kv in sorted(by_idiom.items())), n_rev, len(reviewed)))
    stale = [k for k in reviewed if k not in {s.key for s in sites}]
    if stale:
        rep.note("R06a: %d reviewed entr(ies) no longer correspond to a site (construct changed or removed)" % len(stale))


def r06a_restricted(ctx, rep, rule, prefixes, title, floor):
    """C06's inventory restricted to the functions of one module family, re-labelled for the property whose procedures
    live there (an abort is neither the value nor the error those properties promise)"""
    facts, cg = ctx["facts"], ctx["cg"]
    rep.rule(rule, "%s: every panic-capable operation in %s is justified by an idiom re-established on this run or by a "
             "reviewed entry keyed by function, operand shapes and dominating guards (C06's inventory R06a restricted to "
             "these modules): an out-of-range index must come back as an error, and an abort is not an error." % (
                 title, ", ".join(short_path(x) for x in prefixes)))
    sites_all = [s_ for s_ in inventory(facts) if s_.fn.path.startswith(tuple(prefixes))]
    sites = [s_ for s_ in sites_all if not covered_by_r08(s_)]
    # keys must be assigned over the whole inventory to stay identical to R06a's
    whole = [s_ for s_ in inventory(facts) if not covered_by_r08(s_)]
    assign_keys(whole)
    discharge(facts, cg, whole)
    reviewed = load_reviewed()
    n = 0
    for s_ in whole:
        if not s_.fn.path.startswith(tuple(prefixes)):
            continue
        n += 1
        key = s_.key.replace("R06a", rule, 1)
        if s_.verdict == "idiom":
            rep.ok(rule, key, "%s in %s — %s" % (s_.what, s_.fn.short, s_.why), [s_.loc])
        elif s_.key in reviewed:
            rep.ok(rule, key, "%s in %s — reviewed: %s" % (s_.what, s_.fn.short, reviewed[s_.key]["reason"]), [s_.loc])
        else:
            rep.fail(rule, key, "%s in %s (%s) can panic and no argument is on file%s" % (
                s_.what, s_.fn.short, s_.shape, (" [guards: %s]" % ", ".join(s_.guards)) if s_.guards else ""), [s_.loc])
    rep.floor(rule, "panic-capable sites in %s" % ", ".join(short_path(x) for x in prefixes), n, floor)


FRONT_CRATES = ("marwood_wasm", "marwood_repl")
FRONT_GLUE = ("__wasm_bindgen", "wbg_", " as wasm_bindgen")


def front_inventory(facts):
    """panic-capable sites of the two front-end crates, without the code wasm-bindgen generates around them"""
    return [s_ for cr in FRONT_CRATES for s_ in inventory(facts, cr) if not any(g in s_.fn.path for g in FRONT_GLUE)
            and not covered_by_r08(s_)]


def r06y(ctx, rep, rule="R06y"):
    facts, cg = ctx["facts"], ctx["cg"]
    rep.rule(rule, "the front ends are entry points too: the wasm object's methods (eval, check, highlight, autocomplete, last_token) "
             "and the REPL's rustyline hooks take the user's text before the library does. The panic-site inventory of R06a, run "
             "over those two crates (without wasm-bindgen's generated glue), must be discharged the same way — by an idiom "
             "re-established on this run or by a reviewed entry keyed by function, operand shapes and dominating guards.")
    sites = front_inventory(facts)
    assign_keys(sites)
    discharge(facts, cg, sites)
    reviewed = load_reviewed()
    for s_ in sites:
        key = s_.key.replace("R06a", rule, 1)
        if s_.verdict == "idiom":
            rep.ok(rule, key, "%s in %s — %s" % (s_.what, s_.fn.short, s_.why), [s_.loc])
        elif s_.key in reviewed:
            rep.ok(rule, key, "%s in %s — reviewed: %s" % (s_.what, s_.fn.short, reviewed[s_.key]["reason"]), [s_.loc])
        else:
            rep.fail(rule, key, "%s in %s (%s) can panic on the user's text and no argument is on file%s" % (
                s_.what, s_.fn.short, s_.shape, (" [guards: %s]" % ", ".join(s_.guards)) if s_.guards else ""), [s_.loc])
    rep.floor(rule, "panic-capable sites in the front-end crates", len(sites), 4)


ALLOC_SINKS = re.compile(r"(std|alloc)::vec::from_elem$|::with_capacity$|Vec::<T, A>::(resize|reserve|reserve_exact|extend_from_slice)$|"
                         r"String::(reserve|reserve_exact)$|iter::Extend<.*>>::extend$|iter::FromIterator<.*>>::from_iter$|iter::Iterator::collect$|"
                         r"str::<impl str>::repeat$")
SIZE_SOURCES = ("marwood::number::Number::to_usize", "marwood::vm::builtin::pop_usize", "marwood::number::Number::to_u64",
                "marwood::number::Number::to_u32")


def r06s(ctx, rep, rule="R06s"):
    """an allocation sized by the program can fail; it must not abort"""
    from ..flow import Labels
    facts = ctx["facts"]
    rep.rule(rule, "the program names the size, the allocator may refuse: Vec and String allocate infallibly — a size beyond isize::MAX "
             "bytes panics with 'capacity overflow' before any memory is asked for. Wherever the size of an allocation (vec![x; n], "
             "with_capacity, resize, reserve, extend / collect of a repeat_n) derives from a number the program supplied (the "
             "result of Number::to_usize / pop_usize), the allocation is dominated by the success edge of a try_reserve / "
             "try_reserve_exact: (make-vector 18446744073709551615 0) is an error, not an abort.")
    n = 0
    for p, f in sorted(facts.fns.items()):
        if f.crate != "marwood" or not p.startswith("marwood::vm::builtin::"):
            continue
        srcs = [bb for bb, t in f.calls() if callee(t) in SIZE_SOURCES]
        if not srcs:
            continue
        init = {}

        def transfer(t, al):
            if callee(t) in SIZE_SOURCES:
                return {"N"}
            return None
        lab = Labels(f, call_transfer=transfer)
        tries = [(bb, t) for bb, t in f.calls() if re.search(r"::try_reserve(_exact)?$", callee(t) or "")]
        k = 0
        for bb, t in f.calls():
            c = callee(t) or ""
            if not ALLOC_SINKS.search(c) and not ALLOC_SINKS.search(t.get("fnargs") or ""):
                continue
            al = lab.call_arg_labels(t, bb)
            if not any("N" in a for a in al):
                continue
            k += 1
            n += 1
            key = "%s|%s|%s#%d" % (rule, f.short.rsplit("::", 1)[-1], short_path(c).rsplit("::", 1)[-1], k)
            ok = False
            for tb, tt in tries:
                # success edge of the `?` / match on the try_reserve result dominates the allocation
                if f.dominates(tb, bb) and tb != bb:
                    ok = True
            (rep.ok if ok else rep.fail)(
                rule, key, "%s allocates a program-sized buffer only after try_reserve succeeded" % f.short if ok else
                "%s sizes an infallible allocation (%s) with a number the program supplied and no try_reserve precedes it: a size "
                "beyond isize::MAX bytes panics with 'capacity overflow'" % (f.short, short_path(c)), [t["loc"]])
    rep.floor(rule, "program-sized allocations in the builtins", n, 2)


def r06v(ctx, rep, rule="R06v"):
    """the decompiler does not follow a jump offset into the heap"""
    from ..shapes import dominating_guards
    facts = ctx["facts"]
    rep.rule(rule, "a jump offset is not a reference: JMP and JNT carry their offset as a VCell::Ptr, the encoding of a heap reference, "
             "and the decompiler (reached from trace! in the compiler and the run loop when trace logging is on) renders the value "
             "of the first Ptr operand of an instruction by converting the cell it names — which panics if that cell holds an "
             "internal value (an environment, say) and the offset happens to equal its index: (if #t (list 0 .. 0) 2) with 82 "
             "zeros. In Vm::decompile_one every conversion of a Ptr operand is guarded by a flag that is set for the opcodes Jmp "
             "and Jnt and tested false.")
    f = None
    for p, g in facts.fns.items():
        if p.endswith("::decompile_one") and g.crate == "marwood":
            f = g
    if f is None:
        rep.anchor_lost(rule, "Vm::decompile_one")
        return
    OPC = "marwood::vm::opcode::OpCode"
    jv = {variant_index(facts.adts[OPC], "Jmp"), variant_index(facts.adts[OPC], "Jnt")} if OPC in facts.adts else {None}
    # flags set to true exactly under the Jmp / Jnt targets of a switch on an OpCode discriminant
    flags = set()
    for sw in disc_switches(facts, f, OPC):
        tg = {t for v, t in sw["term"]["targets"] if v in jv}
        if len(tg) != 1 or None in jv:
            continue
        tb = next(iter(tg))
        for st in f.blocks[tb]["stmts"]:
            c = op_const(st["rv"].get("a")) if st["rv"]["k"] == "use" else None
            if c is not None and c.get("ty") == "bool" and c.get("int") in (1, True) and not st["lhs"]["p"]:
                flags.add(st["lhs"]["l"])
    sites = [(bb, t) for bb, t in f.calls() if (callee(t) or "").endswith("Heap::get_as_cell")]
    n = 0
    for bb, t in sites:
        o = f.origin(t["args"][1]) if len(t["args"]) > 1 else None
        # only conversions of the operand itself (the GlobalEnvSlot arm converts a slot's value, which is a reference)
        if o is not None and o[0] == "call":
            continue
        n += 1
        key = "%s|decompile_one|ptr-operand#%d" % (rule, n)
        ok = False
        for sb, cond, taken, tt in dominating_guards(f, bb):
            pl = op_place(cond)
            src = f.origin(cond)
            locs = {pl["l"]} if pl is not None and not pl["p"] else set()
            if src[0] == "local":
                locs.add(src[1])
            if pl is not None and not pl["p"]:
                sd = f.single_def(pl["l"])
                if sd and sd[2] == "assign" and sd[3]["rv"]["k"] == "use" and op_place(sd[3]["rv"]["a"]) is not None:
                    locs.add(op_place(sd[3]["rv"]["a"])["l"])
            if taken == 0 and locs & flags:
                ok = True
            # `!flag` materialised
            if src[0] == "rv" and src[1]["rv"]["k"] == "un" and src[1]["rv"]["op"] == "Not":
                inner = op_place(src[1]["rv"]["a"])
                if inner is not None and inner["l"] in flags and taken != 0:
                    ok = True
        (rep.ok if ok else rep.fail)(
            rule, key, "decompile_one converts a Ptr operand only for opcodes other than JMP / JNT" if ok else
            "decompile_one converts the cell a Ptr operand names whatever the opcode: the offset of a JMP / JNT is followed into the "
            "heap, and get_as_cell panics when the cell at that index holds an internal value", [t["loc"]])
    rep.floor(rule, "conversions of a Ptr operand in decompile_one", n, 1)


def r06b(ctx, rep):
    facts, cg = ctx["facts"], ctx["cg"]
    rep.rule("R06b", "no mutable borrow is held across a call into the library: while a RefMut guard is live, only "
             "external (std) functions are called — so no callee can try to borrow the same RefCell and panic. "
             "(I-borrow discharges each borrow site locally; this is the crate-wide half of that argument.)")
    from ..flow import liveness
    n = 0
    for p, f in sorted(facts.fns.items()):
        if f.crate != "marwood":
            continue
        muts = {i for i, ty in enumerate(f.locals) if ty.startswith("std::cell::RefMut<")}
        if not muts:
            continue
        live = liveness(f)
        for bb, t in f.calls():
            held = [g for g in muts if g in live[bb]]
            if not held:
                continue
            c = callee(t)
            if c in facts.fns and not any((op_place(a) or {}).get("l") in held for a in t["args"]):
                n += 1
                # a local callee that itself can reach a RefCell borrow of the same payload
                r = cg.reachable_from([c])
                borrows = False
                for q in r:
                    g = facts.fns.get(q)
                    if g is None:
                        continue
                    for b2, t2 in g.calls():
                        if callee(t2).startswith("std::cell::RefCell::<T>::borrow"):
                            borrows = True
                key = "R06b|%s|%s" % (f.short, short_path(c))
                if borrows:
                    rep.fail("R06b", key, "%s calls %s while holding a RefMut guard, and that callee can borrow a RefCell: "
                             "if it is the same cell the borrow panics" % (f.short, short_path(c)), [t["loc"]])
                else:
                    rep.ok("R06b", key, "%s calls %s while holding a RefMut, but the callee borrows nothing" % (f.short, short_path(c)), [t["loc"]])
    rep.ok("R06b", "R06b|summary", "functions holding a RefMut call into the library %d time(s) while it is live" % n, nontrivial=False)


DIVIDERS = {
    "<&marwood::number::Number as std::ops::Div>::div": 1, "<marwood::number::Number as std::ops::Div>::div": 1,
    "<&marwood::number::Number as std::ops::Rem>::rem": 1, "<marwood::number::Number as std::ops::Rem>::rem": 1,
    "marwood::number::Number::quotient": 1, "marwood::number::Number::modulo": 1,
    "<marwood::number::Number as std::ops::DivAssign>::div_assign": 1,
}


def r06z(ctx, rep):
    facts, cg = ctx["facts"], ctx["cg"]
    rep.rule("R06z", "zero divisors are rejected before dividing: BigInt and fixed-width division inside Number's /, "
             "remainder, quotient and modulo panic on a zero divisor, so every call of those operators from outside "
             "number.rs passes a divisor that is a non-zero constant (Number::from(c)) or lies on the false edge of "
             "Number::is_zero() applied to the same value.")
    n = 0
    for p, f in sorted(facts.fns.items()):
        if f.crate != "marwood" or p.startswith("marwood::number::") or p.startswith("<marwood::number::") or p.startswith("<&marwood::number::"):
            continue
        for bb, t in f.calls():
            c = callee(t)
            if c not in DIVIDERS:
                continue
            n += 1
            d = t["args"][DIVIDERS[c]]
            key = "R06z|%s|%s" % (f.short, short_path(c).split("::")[-1])
            o = f.origin(d)
            # constant divisor: Number::from(const != 0), possibly behind a reference
            cur = o
            ok = None
            for _ in range(4):
                if cur[0] == "call" and "Number as std::convert::From" in (cur[1].get("fnargs") or callee(cur[1])):
                    cc = op_const(cur[1]["args"][0])
                    if cc is None:
                        oo = f.origin(cur[1]["args"][0])
                        cc = oo[1] if oo[0] == "const" else None
                    if cc is not None and cc.get("int", 0) != 0:
                        ok = "constant divisor %s" % cc["int"]
                    break
                if cur[0] == "rv" and cur[1]["rv"]["k"] == "agg":
                    break
                break
            if ok is None and o[0] == "const":
                # `&Number::Fixnum(c)` written in place is promoted to a constant with its own body
                m = re.search(r"promoted\[(\d+)\]$", o[1].get("text") or "")
                pb = facts.promoted.get((f.path, int(m.group(1)))) if m else None
                if pb is not None:
                    aggs = [st["rv"] for _, _, st in pb.stmts() if st["rv"]["k"] == "agg" and (st["rv"].get("adt") or "").endswith("number::Number")]
                    if len(aggs) == 1 and aggs[0].get("variant") == "Fixnum" and aggs[0]["ops"]:
                        cc = op_const(aggs[0]["ops"][0])
                        if cc is not None and cc.get("int", 0) != 0:
                            ok = "constant divisor %s" % cc["int"]
            if ok is None:
                for b2, ct in f.calls():
                    if callee(ct) == "marwood::number::Number::is_zero" and _bool_edge_dominates(f, b2, ct, bb, False):
                        if _same_container(f, ct["args"][0], d) or _same(f, ct["args"][0], d):
                            ok = "false edge of is_zero() on the divisor"
            if ok:
                rep.ok("R06z", key, "%s divides by a checked divisor (%s)" % (f.short, ok), [t["loc"]])
            else:
                rep.fail("R06z", key, "%s calls %s with a divisor that is neither a non-zero constant nor tested with "
                         "is_zero(): a zero divisor reaches BigInt / fixed-width division, which panics" % (f.short, short_path(c)), [t["loc"]])
    rep.floor("R06z", "division call sites outside number.rs", n, 6)


HASHING_METHODS = re.compile(r"::(insert|contains|get|remove|extend|from_iter|entry|contains_key|replace|take|get_or_insert_with)(::<.*>)?$")


def r06t(ctx, rep, rule="R06t"):
    """premise of the reviewed panic in <Number as Hash>::hash: only symbols are hashed"""
    from .. import shapes
    facts = ctx["facts"]
    rep.rule(rule, "only symbols are hashed: <Number as Hash>::hash panics for a float and Cell's Hash reaches it through "
             "numbers, lists and vectors, so every hashing operation (insert / contains / get / extend / collect) on a "
             "collection keyed by Cell must receive a key that a dominating is_symbol test (or Symbol match arm) has "
             "established to be a symbol. This is the premise under which the may-panic site in Number::hash is accepted; "
             "a bulk insertion (extend / collect) carries no per-element test and is refused.")
    n = 0
    sym_idx = variant_index(facts.adts.get("marwood::cell::Cell", {"variants": []}), "Symbol")
    for p, f in sorted(facts.fns.items()):
        if not p.startswith("marwood::") or f.impl_trait in DERIVE_TRAITS:
            continue
        seen = 0
        for bb, t in f.calls():
            fa = t.get("fnargs") or ""
            if not re.search(r"Hash(Set|Map)<&?(marwood::cell::)?Cell\b|Hash(Set|Map)::<&?(marwood::cell::)?Cell\b", fa.replace("marwood::cell::Cell", "Cell")):
                continue
            m = HASHING_METHODS.search(fa.split("::<")[0] if False else fa)
            if not m:
                continue
            meth = m.group(1)
            n += 1
            seen += 1
            key = "%s|%s|%s#%d" % (rule, f.short, meth, seen)
            loc = [t.get("loc") or f.span]
            if meth in ("extend", "from_iter"):
                src = shapes.shape(f, t["args"][-1], 8) if t["args"] else ""
                filt = "Iterator::filter(" in src and any(
                    any(callee(t2) == "marwood::cell::Cell::is_symbol" for b2, t2 in c.calls()) for c in facts.closures_of(f))
                if filt:
                    rep.ok(rule, key, "%s: the sequence handed to %s is filtered by is_symbol" % (f.short, meth), loc)
                    continue
                rep.fail(rule, key, "%s hashes a whole sequence of cells at once (%s): nothing establishes that each element is a "
                         "symbol, and hashing a cell that contains an inexact number panics in <Number as Hash>::hash — e.g. a "
                         "float among the formals of an inner define" % (f.short, meth), loc)
                continue
            if len(t["args"]) < 2:
                rep.ok(rule, key, "%s: %s takes no key" % (f.short, meth), loc, nontrivial=False)
                continue
            ksh = shapes.shape(f, t["args"][1], 7)
            ok = False
            for sbb, cond, taken, tt in shapes.dominating_guards(f, bb):
                sh = shapes.shape(f, cond, 8)
                if sh == "cell::Cell::is_symbol(%s)" % ksh and taken == "else":
                    ok = True
                if sh == "disc(%s)" % ksh and taken == sym_idx:
                    o = f.origin(cond)
                    if o[0] == "rv" and "Cell" in o[1]["rv"].get("place", {}).get("ty", ""):
                        ok = True
            if ok:
                rep.ok(rule, key, "%s: the key of %s is a symbol (dominating is_symbol / Symbol arm on the same value)" % (f.short, meth), loc)
            else:
                rep.fail(rule, key, "%s passes a cell to %s without a dominating symbol test on it: a number, list or vector there "
                         "is hashed, and an inexact number inside it panics in <Number as Hash>::hash" % (f.short, meth), loc)
    rep.floor(rule, "hashing operations on Cell-keyed collections", n, 7)


def r06u(ctx, rep, rule="R06u"):
    """macro expansion terminates: what an ellipsis repeats can run out"""
    from .. import shapes
    facts, cg = ctx["facts"], ctx["cg"]
    T = "marwood::vm::transform::Transform::"
    EXPANDED = "marwood::vm::transform::Pattern::is_expanded_variable"
    rep.rule(rule, "the expander's repetition terminates: Transform::expand re-expands the sub-template before an ellipsis until an "
             "expansion fails, and only a variable the pattern bound under an ellipsis can make it fail (its matches run out). "
             "So the template check made when a transformer is defined must, where the next element is the ellipsis, test — "
             "through Pattern::is_expanded_variable — that the repeated sub-template contains such a variable, and reject the "
             "syntax-rules form with an error otherwise. (A repeated sub-template of ordinary variables or constants expands "
             "for ever: (syntax-rules () ((_ a) (list a ...))).)")
    ex = need(rep, rule, facts, T + "expand")
    chk = need(rep, rule, facts, T + "check_template_syntax")
    if ex is None or chk is None:
        return
    # the repetition exists: a loop in expand that re-enters itself
    loops = [1 for src, h in ex.back_edges()]
    if not loops or not any(callee(t) == ex.path for bb, t in ex.calls()):
        rep.ok(rule, rule + "|expand|no-repetition", "Transform::expand has no re-expanding loop", [ex.span], nontrivial=False)
        return
    sites = []
    for bb, t in chk.calls():
        c = callee(t) or ""
        if c == EXPANDED or (c.startswith("marwood::") and EXPANDED in cg.reachable_from([c]) and c != chk.path):
            sites.append((bb, t))
    key = rule + "|check_template_syntax|repeated-subtemplate-can-run-out"
    good = None
    for bb, t in sites:
        if t.get("target") is None:
            continue
        sw = chk.blocks[t["target"]]["term"]
        if sw["k"] != "switch":
            continue
        under_ellipsis = any("Peekable::<I>::peek(" in g and g.endswith("=T") for g in shapes.guard_shapes(chk, bb, None, 3))
        false_t = dict((v, tg) for v, tg in sw["targets"]).get(0)
        if false_t is None or not under_ellipsis:
            continue
        region = {b for b in chk.reachable() if chk.dominates(false_t, b)} if len([p_ for p_ in chk.pred[false_t] if p_ in chk.reachable()]) == 1 else set()
        errs = [1 for b in region for st in chk.blocks[b]["stmts"] if st["rv"]["k"] == "agg" and st["rv"].get("adt") == "marwood::error::Error"]
        if errs:
            good = t
    # the repetition itself checks that it consumes matches
    pos = [bb for bb, t in ex.calls() if (callee(t) or "").startswith("marwood::vm::transform::PatternEnvironment::") and
           "Vec<std::option::Option<usize>>" in (facts.fns[callee(t)].locals[0] if callee(t) in facts.fns else "")]
    cmp_ = [bb for bb, t in ex.calls() if re.search(r"Vec<.*Option<usize>.*> as std::cmp::PartialEq.*>::(eq|ne)$", t.get("fnargs") or "")]
    body = set()
    for src, h in ex.back_edges():
        body |= (ex.reach_from(h) & ex.reach_back(src)) | {h, src}
    k3 = rule + "|expand|repetition-consumes-a-match"
    if len(pos) >= 2 and any(b in body for b in cmp_):
        rep.ok(rule, k3, "Transform::expand compares the positions of the ellipsis-bound variables before and after each repetition",
               [ex.span])
    elif all(bad is None for _, _, bad in _cycles_without_progress(ex)):
        rep.ok(rule, k3, "every cycle of Transform::expand's repetition passes the exit test of a counter (R06j): a repetition that "
               "consumes no match ends with the bound", [ex.span])
    else:
        rep.fail(rule, k3, "Transform::expand repeats a sub-template as long as it expands, without checking that the repetition consumed a "
                 "match: a variable used under more ellipses than it was bound under — ((x ...) ...) for a pattern (x ...) — is "
                 "re-expanded from the start for ever", [ex.span])
    if good is not None:
        rep.ok(rule, key, "check_template_syntax rejects a template whose ellipsis repeats something that contains no variable bound "
               "under an ellipsis", [good["loc"]])
    else:
        rep.fail(rule, key, "check_template_syntax accepts an ellipsis after a sub-template that contains no variable bound under an "
                 "ellipsis (it never consults Pattern::is_expanded_variable on the peek-is-ellipsis path, or does not reject): "
                 "Transform::expand then repeats that sub-template for ever — (define-syntax m (syntax-rules () ((_ a) (list a ...)))) "
                 "(m 1) never returns and exhausts memory", [chk.span])


def r06w(ctx, rep, rule="R06w"):
    from .. import shapes
    facts = ctx["facts"]
    rep.rule(rule, "global bindings are keyed by symbols: Vm::global_symbols unwraps every key of the global binding table as a "
             "symbol, so wherever the compiler creates a binding for a name taken from program text (compile_define, "
             "compile_define_syntax, compile_set, compile_symbol_expression) the cell interned as the key is under a dominating "
             "is_symbol test or Symbol match arm. (define ((f a) b) 1) otherwise creates a binding keyed by a list and a later "
             "call of the public global_symbols() panics.")
    n = 0
    for nm in ("compile_define", "compile_define_syntax", "compile_set", "compile_symbol_expression"):
        f = facts.fn("marwood::vm::compile::<impl marwood::vm::Vm>::" + nm)
        if f is None:
            continue
        gets = [bb for bb, t in f.calls() if (callee(t) or "").endswith("GlobalEnvironment::get_binding")]
        if not gets:
            continue
        for bb in gets:
            n += 1
            key = "%s|%s" % (rule, nm)
            g = shapes.guard_shapes(f, bb, None, 3)
            ok = any(x.startswith("cell::Cell::is_symbol(") and x.endswith("=T") for x in g)
            sym_idx = variant_index(facts.adts.get("marwood::cell::Cell", {"variants": []}), "Symbol")
            ok = ok or any(re.match(r"disc\(.*\)=%s$" % sym_idx, x) and "Option" not in x and "Result" not in x for x in g)
            # compile_symbol_expression is only called on the Symbol arm of compile_expression's dispatch
            if not ok and nm == "compile_symbol_expression":
                ce = facts.fn("marwood::vm::compile::<impl marwood::vm::Vm>::compile_expression")
                if ce is not None:
                    calls = [b2 for b2, t2 in ce.calls() if callee(t2) == f.path]
                    ok = bool(calls) and all(any(re.match(r"disc\(a\d\)=%s$" % sym_idx, x) for x in shapes.guard_shapes(ce, b2, None, 2)) for b2 in calls)
            # a macro's keyword is validated where the transformer is built
            if not ok and nm == "compile_define_syntax":
                tn = facts.fn("marwood::vm::transform::Transform::try_new")
                ok = tn is not None and any(callee(t2) == "marwood::cell::Cell::is_symbol" for b2, t2 in tn.calls()) and \
                    any(callee(t2) == tn.path and f.dominates(b2, bb) for b2, t2 in f.calls())
            (rep.ok if ok else rep.fail)(
                rule, key, "%s creates a global binding only for a name established to be a symbol" % nm if ok else
                "%s creates a global binding for a name it has not established to be a symbol: a list, number or string in the name "
                "position becomes a key of the global table, and Vm::global_symbols() panics on it" % nm, [f.span])
    rep.floor(rule, "compiler sites that create a global binding", n, 3)


ALWAYS_SOME_LOCAL = {
    # local functions a reviewed `unwrap` relies on to return Some on every path
    "marwood::number::Number::to_inexact": "the #i path of Number::parse_with_exactness unwraps it",
}


def r06x(ctx, rep, rule="R06x"):
    facts = ctx["facts"]
    rep.rule(rule, "premises of reviewed unwraps: a function a reviewed entry relies on to `return Some for every input` does so "
             "visibly — every value it returns is an Option::Some aggregate built in its own body (per representation arm), never "
             "the Option of a callee (map / filter / and_then / a checked conversion), which can be None.")
    for path, why in sorted(ALWAYS_SOME_LOCAL.items()):
        f = need(rep, rule, facts, path)
        if f is None:
            continue
        key = "%s|%s" % (rule, short_path(path))
        bad = []
        for d in f.defs().get(0, []):
            if d[2] == "partial":
                continue
            if d[2] == "call":
                bad.append(("the result of %s" % short_path(callee(d[3]) or "?"), d[3]["loc"]))
            else:
                rv = d[3]["rv"]
                if rv["k"] == "agg" and rv.get("variant") == "Some":
                    continue
                if rv["k"] == "agg" and rv.get("variant") == "None":
                    bad.append(("None", d[3]["loc"]))
                elif rv["k"] == "use":
                    o = f.origin(rv["a"])
                    if not (o[0] == "rv" and o[1]["rv"]["k"] == "agg" and o[1]["rv"].get("variant") == "Some"):
                        bad.append(("a value that is not a Some built here", d[3]["loc"]))
                else:
                    bad.append((rv["k"], d[3]["loc"]))
        if bad:
            rep.fail(rule, key, "%s can return %s, but %s: the unwrap panics where the function yields None (an exact integer "
                     "beyond the range of a double after `#i`, for one)" % (short_path(path), bad[0][0], why), [b[1] for b in bad])
        else:
            rep.ok(rule, key, "%s builds Some(..) on every path (%s)" % (short_path(path), why), [f.span])


def _cycles_without_progress(f):
    """[(loop index, header block, offending cycle or None)] for the natural loops of f: a cycle through the header that passes
    no Iterator::next, no worklist pop over an owned Cell tree and no exit test of an increment-only counter"""
    out = []
    loops = {}
    for src, h in f.back_edges():
        loops.setdefault(h, set()).update((f.reach_from(h) & f.reach_back(src)) | {h, src})
    for h, body in sorted(loops.items()):
        progress = set()
        for bb, t in f.calls():
            if bb in body and re.search(r"Iterator>::next$|::next$", (t.get("fnargs") or callee(t) or "")) and \
                    "peek" not in (callee(t) or ""):
                progress.add(bb)
        # a worklist of references into an owned tree (Cell holds its children in Box / Vec: no sharing, no cycles): every
        # pop takes a node off, and what is pushed are children of the popped node, never the node itself
        pops = [(bb, t) for bb, t in f.calls() if bb in body and
                re.search(r"Vec::<&(mut )?marwood::cell::Cell>::pop$", t.get("fnargs") or "")]
        if pops:
            popped = set()
            for bb, t in pops:
                popped.add(t["dest"]["l"])
            same = False
            for bb, t in f.calls():
                if bb in body and re.search(r"Vec::<&(mut )?marwood::cell::Cell>::push$", t.get("fnargs") or "") and len(t["args"]) > 1:
                    oa = f.origin(t["args"][1])
                    if oa[0] in ("local", "call") and not [e for e in (oa[2] if len(oa) > 2 else []) if e != "*"]:
                        l_ = oa[1] if oa[0] == "local" else None
                        if l_ in popped:
                            same = True
            if not same:
                progress |= {bb for bb, t in pops}
        # counters: locals incremented by a constant inside the loop and assigned nowhere else in it but from that sum or a constant
        incs, dirs = {}, {}
        for bb, j, st in f.stmts():
            rv = st["rv"]
            if bb in body and rv["k"] == "bin" and rv["op"] in ("Add", "AddWithOverflow", "AddUnchecked", "Sub", "SubWithOverflow", "SubUnchecked"):
                pa, cb = op_place(rv["a"]), op_const(rv["b"])
                if pa is not None and not pa["p"] and cb is not None and cb.get("int", 0) > 0:
                    incs[st["lhs"]["l"]] = pa["l"]
                    dirs.setdefault(pa["l"], set()).add("-" if rv["op"].startswith("Sub") else "+")
        counters = set()
        for bb, j, st in f.stmts():
            rv = st["rv"]
            if bb in body and rv["k"] == "use" and not st["lhs"]["p"]:
                pa = op_place(rv["a"])
                if pa is not None and pa["l"] in incs and incs[pa["l"]] == st["lhs"]["l"] and len(dirs.get(st["lhs"]["l"], ())) == 1:
                    counters.add(st["lhs"]["l"])
        for bb in sorted(body):
            t = f.blocks[bb]["term"]
            if t["k"] != "switch":
                continue
            o = f.origin(t["op"])
            if o[0] != "rv" or o[1]["rv"]["k"] != "bin" or o[1]["rv"]["op"] not in ("Gt", "Ge", "Lt", "Le", "Eq", "Ne"):
                continue
            sides = []
            for side in ("a", "b"):
                oo = f.origin(o[1]["rv"][side])
                if oo[0] == "local":
                    sides.append(oo[1])
            leaves = any(tg not in body for _, tg in t["targets"]) or t["otherwise"] not in body
            if leaves and any(c in counters for c in sides):
                progress.add(bb)
        # is there a cycle through the header that avoids every progress block?
        bad = None
        if h not in progress:
            seen, stack = set(), [(s_, [h, s_]) for s_ in f.succ[h] if s_ in body]
            while stack:
                x, pth = stack.pop()
                if x == h:
                    bad = pth
                    break
                if x in seen or x in progress or x not in body:
                    continue
                seen.add(x)
                for y in f.succ[x]:
                    stack.append((y, pth + [y]))
        out.append((sorted(loops).index(h) + 1, h, bad))
    return out


def r06j(ctx, rep, rule="R06j"):
    """every cycle of the macro expander makes progress"""
    facts = ctx["facts"]
    rep.rule(rule, "expansion is compile-time work no run_count budget bounds: a loop of the expander that can go round without "
             "consuming anything never ends and allocates until the process aborts — the valid macro "
             "(syntax-rules () ((_ ((a b) ...) ...) '(((a b) ...) ...))) applied to ((1 2)) did (its cursors run out in turns and "
             "start over, so the 'nothing consumed' test never saw an unchanged state). In every function of the transform "
             "module, every cycle of every loop passes a block that makes progress: a call of Iterator::next (the loop walks a "
             "finite sequence), a pop from a worklist of references into a Cell (an owned tree: what is pushed are children of "
             "the popped node), or the exit test of a counter that the loop only steps by a constant (compared, one edge "
             "leaving the loop). Decided: the shape of the cycles; that the bound itself is finite is read off the code "
             "(Vec::len of the matches).")
    n = 0
    for path, f in sorted(facts.fns.items()):
        if not path.startswith("marwood::vm::transform::") or "::tests::" in path:
            continue
        for idx, h, bad in _cycles_without_progress(f):
            n += 1
            key = "%s|%s|loop#%d" % (rule, f.short, idx)
            (rep.ok if bad is None else rep.fail)(
                rule, key, "every cycle of the loop passes an Iterator::next, a worklist pop or a counter's exit test" if bad is None else
                "%s has a loop with a cycle that neither consumes an iterator nor passes the exit test of a counter: nothing bounds the "
                "number of times it goes round, so an expansion may never end" % f.short,
                [f.blocks[h]["term"]["loc"]] + [f.blocks[b]["term"]["loc"] for b in (bad or [])[-2:-1]])
    rep.floor(rule, "loops in the transform module", n, 8)


def r06k(ctx, rep, rule="R06k"):
    """turning a heap value into a tree costs no more than the value is big"""
    facts = ctx["facts"]
    rep.rule(rule, "a result, a displayed value and the irritant of an error message are Cell trees made from the heap's object "
             "graph by a recursive conversion. A conversion that remembers only the nodes on the current path (it removes them "
             "from its set on the way back) cuts cycles but converts a shared sub-object once for every path that leads to it: "
             "a 65-cell structure (let loop ((i 0) (x '())) (if (< i 64) (loop (+ i 1) (cons x x)) x)) has 2^64 paths. Every "
             "self-recursive function of the heap module that carries such a path set (a &mut HashSet parameter it removes "
             "from) therefore also carries a bound on the work — a counter it compares — or it keeps what it has converted "
             "(no removal).")
    n = 0
    for path, f in sorted(facts.fns.items()):
        if not path.startswith("marwood::vm::heap::") or "{closure" in path:
            continue
        if not any(callee(t) == path for bb, t in f.calls()):
            continue
        sets = [i for i in range(1, f.argc + 1) if "&mut std::collections::HashSet<" in (f.locals[i] or "")]
        if not sets:
            continue
        n += 1
        removes = [t["loc"] for bb, t in f.calls() if re.search(r"HashSet::<[^>]*>::remove|HashSet<.*>::remove", (callee(t) or "") + (t.get("fnargs") or ""))]
        budget = False
        for bb, b in enumerate(f.blocks):
            t = b["term"]
            if t["k"] != "switch":
                continue
            o = f.origin(t["op"])
            if o[0] == "rv" and o[1]["rv"]["k"] == "bin" and o[1]["rv"]["op"] in ("Gt", "Ge", "Lt", "Le", "Eq", "Ne") and \
                    o[1]["rv"].get("aty") in ("usize", "u64", "u32"):
                for side in ("a", "b"):
                    oo = f.origin(o[1]["rv"][side])
                    if oo[0] == "arg" and oo[1] not in sets:
                        budget = True
        key = "%s|%s|shared-substructure" % (rule, f.short)
        ok = not removes or budget
        (rep.ok if ok else rep.fail)(
            rule, key, "%s keeps what it has converted, or carries a bound" % f.short if ok else
            "%s forgets a node when it leaves it (HashSet::remove) and carries no bound: a sub-object reachable along k paths is "
            "converted k times, and a small shared structure makes a result, a display or an error message cost exponential time "
            "and memory" % f.short, removes[:2])
    rep.floor(rule, "recursive conversions with a path set in the heap module", n, 1)


def run(ctx, rep):
    from . import numeric, tables, runloop
    r06a(ctx, rep)
    r06b(ctx, rep)
    r06z(ctx, rep)
    r06f(ctx, rep)
    r06g(ctx, rep)
    r06q(ctx, rep)
    r06t(ctx, rep)
    r06u(ctx, rep)
    r06w(ctx, rep)
    r06x(ctx, rep)
    r06y(ctx, rep)
    r06s(ctx, rep)
    r06v(ctx, rep)
    r06j(ctx, rep)
    r06k(ctx, rep)
    from . import runloop as _rl
    _rl.r06h(ctx, rep)
    # R06v: the n-ary list walks of the prelude need a list to end on
    from . import C14
    sub = type(rep)(rep.prop)
    C14.r14m(ctx, sub)
    rep.rule("R06v", "a call that cannot end is refused: the prelude's map and for-each end their walk when some list is exhausted, so "
             "their formals must require at least one list — with none, (map f) applies f for ever and conses without bound.")
    for o in sub.obs:
        if o.key.endswith("|requires-a-list"):
            o.rule = "R06v"
            o.key = o.key.replace("R14m", "R06v", 1)
            rep.obs.append(o)
    # R06n: the arithmetic arms of number.rs, arm by arm (same rule as C08's R08a)
    sub = type(rep)(rep.prop)
    numeric.r08a(ctx, sub)
    rep.rules["R06n"] = sub.rules.get("R08a", "").replace("R08a", "R06n")
    for o in sub.obs:
        o.rule = "R06n"
        o.key = o.key.replace("R08a", "R06n", 1)
        rep.obs.append(o)
    tables.r11c(ctx, rep, rule="R06c")
    # R06r: the premise of idiom I-radix (radix parameters are validated by their callers) is C16's R16b
    sub = type(rep)(rep.prop)
    numeric.r16b(ctx, sub)
    rep.rules["R06r"] = sub.rules.get("R16b", "").replace("R16b", "R06r")
    for o in sub.obs:
        o.rule = "R06r"
        o.key = o.key.replace("R16b", "R06r", 1)
        rep.obs.append(o)
    runloop.r_stack_monotone(ctx, rep, "R06s")
    # R06i: the zero test the guards rely on
    sub = type(rep)(rep.prop)
    numeric.r09c(ctx, sub)
    rep.rule("R06i", "the zero test used by the division guards decides through Number's PartialEq (every representation of "
             "zero is recognised), not by inspecting one representation")
    for o in sub.obs:
        if o.key == "R09c|Number::is_zero":
            o.rule, o.key = "R06i", "R06i|Number::is_zero"
            rep.obs.append(o)
    rep.not_decided += ["termination in general (no loop-variant argument is in reach; decided only for float-equality loops, R06f, and for the circular-data traversals R7RS names, R06g)",
                        "native stack exhaustion (C19)", "allocation failure for sizes beyond 10^6",
                        "panics inside external crates on paths the may-panic table does not list"]


COPE_RUST = [
    # (procedure, functions implementing its traversal, what to say)
    ("list?", ["marwood::vm::builtin::predicate::is_list"], "(list? l) on a circular l"),
    ("equal?", ["marwood::vm::compare::<impl marwood::vm::Vm>::equal", "marwood::vm::compare::<impl marwood::vm::Vm>::compare_pair",
                "marwood::vm::compare::<impl marwood::vm::Vm>::compare_vector"], "(equal? a b) on circular / self-containing a, b"),
    ("display, write, value of an evaluation", ["marwood::vm::heap::Heap::get_as_cell", "marwood::vm::heap::Heap::get_as_cell_under"],
     "(display l), (write l) or l itself as the result, for a circular list or self-containing vector l"),
]


def _cycle_witness(facts, paths):
    """a visited set (HashSet/HashMap insert + contains/get) or a two-cursor meeting test (two values each derived from
    an as_cdr inside one loop compared for equality) somewhere in the given functions"""
    from ..shapes import roots
    for p in paths:
        f = facts.fns.get(p)
        if f is None:
            continue
        cs = [(bb, t, callee(t) or "") for bb, t in f.calls()]
        ins = [1 for bb, t, c in cs if ("HashSet" in c or "HashMap" in c or "BTreeSet" in c) and c.endswith("::insert")]
        look = [1 for bb, t, c in cs if ("HashSet" in c or "HashMap" in c or "BTreeSet" in c) and c.endswith(("::contains", "::get", "::contains_key"))]
        if ins and (look or ins):
            return "a visited set in %s" % f.short
        for src, h in f.back_edges():
            body = (f.reach_from(h) & f.reach_back(src)) | {h, src}
            cdrs = [(bb, t) for bb, t, c in cs if bb in body and c.endswith("VCell::as_cdr")]
            cursors = set()
            for bb, t in cdrs:
                for r in roots(f, t["args"][0]):
                    cursors.add(r)
            if len(cdrs) < 2 or len(cursors) < 2:
                continue
            for bb, t, c in cs:
                if bb in body and "PartialEq" in (t.get("fnargs") or c) and c.endswith("::eq") and len(t["args"]) == 2:
                    ra, rb = roots(f, t["args"][0]), roots(f, t["args"][1])
                    if ra and rb and ra != rb and (ra | rb) <= cursors | {x for x in ra | rb if x[0] == "v"}:
                        return "two cursors advanced by as_cdr in one loop of %s and compared (tortoise and hare)" % f.short
    return None


def _prelude_length_witness(root):
    from . import prelude as P
    try:
        macros, forms, path = P.load_macros(root)
    except (OSError, IndexError):
        return None, "prelude.scm unreadable"
    d = None
    for fm in forms:
        if isinstance(fm, list) and len(fm) >= 3 and fm[0] == "define" and isinstance(fm[1], list) and fm[1] and fm[1][0] == "length":
            d = fm
        if isinstance(fm, list) and len(fm) == 3 and fm[0] == "define" and fm[1] == "length":
            d = fm
    if d is None:
        return None, "no definition of length in the prelude"
    steps = set()
    tests = []

    def walk(x):
        if isinstance(x, list) and x:
            if x[0] in ("cdr", "cddr") and len(x) == 2 and isinstance(x[1], P.Sym):
                steps.add(str(x[1]))
            if x[0] in ("eq?", "eqv?") and len(x) == 3 and all(isinstance(a, P.Sym) for a in x[1:]):
                tests.append((str(x[1]), str(x[2])))
            for y in x:
                walk(y)
    walk(d)
    ok = any(a != b and a in steps and b in steps for a, b in tests)
    return ok, "cursors stepped by cdr: %s; identity tests: %s" % (sorted(steps), tests)


def r06g(ctx, rep, rule="R06g"):
    facts = ctx["facts"]
    rep.rule(rule, "the procedures R7RS requires to cope with circular data carry a cycle witness: list?, length, equal? and the "
             "datum conversion behind display / write / the value handed to the host follow heap edges until they meet a "
             "non-pair; on a circular list or a self-containing vector that never happens. Each of these traversals must "
             "contain a visited set or a two-cursor meeting test (tortoise and hare); a traversal with neither loops forever "
             "(or recurses until the native stack is gone) on such an argument.")
    for name, paths, what in COPE_RUST:
        if not any(p in facts.fns for p in paths):
            rep.anchor_lost(rule, "traversal of %s (%s)" % (name, ", ".join(short_path(p) for p in paths)))
            continue
        w = _cycle_witness(facts, paths)
        key = "%s|%s" % (rule, name.split(",")[0])
        f0 = facts.fns.get([p for p in paths if p in facts.fns][0])
        if w:
            rep.ok(rule, key, "%s: %s" % (name, w), [f0.span])
        else:
            rep.fail(rule, key, "%s: the traversal (%s) has neither a visited set nor a two-cursor meeting test: %s never returns "
                     "(or exhausts the native stack)" % (name, ", ".join(short_path(p) for p in paths), what), [f0.span])
    ok, detail = _prelude_length_witness(ctx["root"])
    if ok is None:
        rep.anchor_lost(rule, "length: " + detail)
    elif ok:
        rep.ok(rule, "%s|length" % rule, "length (prelude.scm) advances two cursors and tests their identity (%s)" % detail)
    else:
        rep.fail(rule, "%s|length" % rule, "length (prelude.scm) follows cdr with a single cursor and no identity test (%s): "
                 "(length l) on a circular l never returns and grows the stack without bound" % detail)


def r06q(ctx, rep, rule="R06q"):
    facts = ctx["facts"]
    rep.rule(rule, "only data reach the literal converter: Heap::maybe_put_cell panics on the three Cell variants that exist for "
             "printing only (Procedure, Macro, Continuation). (i) Those variants are constructed only in Heap::get_as_cell "
             "(outside derived impls and tests); (ii) of the functions that call get_as_cell, only the eval builtin reaches "
             "the compiler, and there the call of Vm::compile is reachable only through the true edge of Cell::is_datum; (iii) the "
             "same holds for the public entry point Vm::prepare_eval (behind Vm::eval), which takes a Cell of the host's making — "
             "the result of an earlier evaluation, say, put back inside a quotation.")
    bad = []
    n = 0
    for p, f in sorted(facts.fns.items()):
        if f.crate != "marwood" or f.impl_trait in DERIVE_TRAITS or "::tests::" in p:
            continue
        for bb, j, st in f.stmts():
            rv = st["rv"]
            if rv["k"] == "agg" and (rv.get("adt") or "") == "marwood::cell::Cell" and rv.get("variant") in ("Procedure", "Macro", "Continuation"):
                n += 1
                if p not in ("marwood::vm::heap::Heap::get_as_cell", "marwood::vm::heap::Heap::get_as_cell_under"):
                    bad.append((f, st))
    key = "%s|non-data-cells|constructed" % rule
    if bad:
        rep.fail(rule, key, "%s constructs a printing-only Cell variant outside Heap::get_as_cell: such a cell can reach "
                 "maybe_put_cell through the parser/compiler path" % bad[0][0].short, [bad[0][1]["loc"]])
    else:
        rep.ok(rule, key, "Cell::Procedure / Macro / Continuation are constructed only in Heap::get_as_cell (%d site(s))" % n)
    rep.floor(rule, "constructions of printing-only Cell variants", n, 3)
    cg = ctx["cg"]
    compile_entry = "marwood::vm::compile::<impl marwood::vm::Vm>::compile"
    reach_compile = set()
    for p, f in facts.fns.items():
        if f.crate == "marwood" and any((callee(t) or "").endswith("Heap::get_as_cell") for bb, t in f.calls()):
            if p not in ("marwood::vm::heap::Heap::get_as_cell", "marwood::vm::heap::Heap::get_as_cell_under") and compile_entry in cg.reachable_from([p]) and p.startswith("marwood::vm::builtin::"):
                reach_compile.add(p)
    # the host hands the evaluator a Cell of its own making (Cell is a public enum, and results of earlier evaluations
    # contain the printing-only variants): the public entry point is a way into the compiler too
    PREPARE = "marwood::vm::Vm::prepare_eval"
    entries = sorted(reach_compile)
    if PREPARE in facts.fns:
        entries.append(PREPARE)
    else:
        rep.anchor_lost(rule, PREPARE)
    for p in entries:
        f = facts.fns[p]
        comp = [(bb, t) for bb, t in f.calls() if compile_entry in cg.reachable_from([callee(t) or ""]) or callee(t) == compile_entry]
        tests = [(bb, t) for bb, t in f.calls() if (callee(t) or "").endswith("Cell::is_datum")]
        ok = bool(tests)
        if ok:
            # cut the false edges of is_datum tests: compile must then be unreachable... the other way round: compile must be
            # reachable only via the TRUE edge, i.e. unreachable once true edges are cut
            cut = set()
            for bb, t in tests:
                tb = t.get("target")
                if tb is None:
                    continue
                tt = f.blocks[tb]["term"]
                b2 = tb
                for _ in range(3):
                    if tt["k"] == "switch":
                        break
                    if tt["k"] == "goto":
                        b2 = tt["target"]
                        tt = f.blocks[b2]["term"]
                        continue
                    break
                if tt["k"] != "switch":
                    ok = False
                    continue
                o = f.origin(tt["op"])
                neg = o[0] == "rv" and o[1]["rv"]["k"] == "un" and o[1]["rv"]["op"] == "Not"
                vals = dict((v, tg) for v, tg in tt["targets"])
                # edge on which is_datum() is true
                if neg:
                    true_t = vals.get(0, tt["otherwise"] if 0 not in vals else None)
                else:
                    true_t = tt["otherwise"] if 0 in vals else vals.get(1)
                cut.add((b2, true_t))
            seen = {0}
            st_ = [0]
            while st_:
                b0 = st_.pop()
                for y in f.succ[b0]:
                    if (b0, y) in cut or y in seen:
                        continue
                    seen.add(y)
                    st_.append(y)
            ok = ok and not any(bb in seen for bb, t in comp)
        (rep.ok if ok else rep.fail)(rule, "%s|%s|datum-guard" % (rule, f.short.rsplit("::", 1)[-1]),
                                     "%s compiles the converted value only after Cell::is_datum accepted it" % f.short if ok else
                                     "%s hands a Cell that did not come from the reader to the compiler without the is_datum test: a "
                                     "procedure, macro or continuation value inside a quotation reaches maybe_put_cell's panic" % f.short, [f.span])
    rep.floor(rule, "builtins that compile a converted run-time value (eval)", len(reach_compile), 1)

    # (iii) the guard itself looks everywhere the converter will: is_datum walks into both container variants
    idf = facts.fns.get("marwood::cell::Cell::is_datum")
    if idf is None:
        rep.anchor_lost(rule, "Cell::is_datum")
    else:
        sws = disc_switches(facts, idf, "marwood::cell::Cell")
        feeds = [bb for bb, t in idf.calls() if (callee(t) or "").endswith("Vec::<T, A>::push") or
                 re.search(r"Vec<.*> as std::iter::Extend<.*>>::extend$", callee(t) or "") or callee(t) == idf.path]
        for var in ("Pair", "Vector"):
            region = set()
            for sw in sws:
                region |= arm_region(idf, sw, var)
            k3 = "%s|is_datum|descends-into-%s" % (rule, var)
            if any(bb in region for bb in feeds):
                rep.ok(rule, k3, "Cell::is_datum hands the components of a %s back to its walk" % var, [idf.span])
            else:
                rep.fail(rule, k3, "Cell::is_datum does not walk into the components of a %s (it looks at most at the immediate "
                         "elements): a procedure nested one level further down passes the guard, reaches maybe_put_cell through "
                         "the compiler and panics — (eval (vector (list car)))" % var, [idf.span])

def r06f(ctx, rep):
    facts = ctx["facts"]
    rep.rule("R06f", "float-controlled loops leave on non-finite values: a loop whose exit test is an equality of an f64 with a "
             "constant (typically `x == 0.0`) never exits once x is NaN; such a loop must also test is_finite / is_nan / "
             "is_infinite inside its body.")
    n = 0
    for p, f in sorted(facts.fns.items()):
        if f.crate != "marwood":
            continue
        for src, hdr in f.back_edges():
            body = f.reach_from(hdr) & f.reach_back(src) | {hdr, src}
            for bb in sorted(body):
                t = f.blocks[bb]["term"]
                if t["k"] != "switch":
                    continue
                exits = [x for x in f.succ[bb] if x not in body]
                if not exits:
                    continue
                o = f.origin(t["op"])
                if o[0] == "rv" and o[1]["rv"]["k"] == "bin" and o[1]["rv"]["op"] in ("Eq", "Ne") and o[1]["rv"].get("aty") == "f64":
                    n += 1
                    guard = any((callee(t2) or "").endswith(("::is_finite", "::is_nan", "::is_infinite"))
                                for b2, t2 in f.calls() if b2 in body)
                    key = "R06f|%s" % f.short
                    (rep.ok if guard else rep.fail)("R06f", key, "%s: the float-equality loop also leaves on non-finite values" % f.short if guard else
                                                    "%s: a loop exits only when an f64 equals a constant; for NaN (e.g. the fraction of an "
                                                    "infinity) it never terminates" % f.short, [t["loc"]])
    rep.floor("R06f", "loops controlled by a float equality", n, 1)
