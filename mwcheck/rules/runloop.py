"""Rules over Vm::run_count / run_gc / prepare_eval shared by C07, C12, C13."""
import re
from ..facts import callee, op_place, op_const, short_path
from ..flow import liveness, field_writes, places_read
from .common import *

RUN_ONE_RES = "std::result::Result<bool, marwood::error::Error>"


def _ok_none_blocks(fn):
    """blocks that build the `Ok(None)` return value"""
    out = []
    for bb, j, s in fn.stmts():
        rv = s["rv"]
        if not s["lhs"]["p"] and s["lhs"]["l"] == 0 and rv["k"] == "agg" and rv.get("variant") == "Ok":
            o = fn.origin(rv["ops"][0]) if rv["ops"] else None
            if o and o[0] == "rv" and o[1]["rv"]["k"] == "agg" and o[1]["rv"].get("variant") == "None":
                out.append(bb)
    return out


def _ok_some_blocks(fn):
    out = []
    for bb, j, s in fn.stmts():
        rv = s["rv"]
        if not s["lhs"]["p"] and s["lhs"]["l"] == 0 and rv["k"] == "agg" and rv.get("variant") == "Ok":
            o = fn.origin(rv["ops"][0]) if rv["ops"] else None
            if o and o[0] == "rv" and o[1]["rv"]["k"] == "agg" and o[1]["rv"].get("variant") == "Some":
                out.append(bb)
    return out


def _err_arm(fn):
    """(switch bb, Err-target) for the match on run_one's result"""
    for bb, b in enumerate(fn.blocks):
        t = b["term"]
        if t["k"] == "switch" and not b.get("cleanup"):
            o = fn.origin(t["op"])
            if o[0] == "rv" and o[1]["rv"]["k"] == "disc" and o[1]["rv"]["place"]["ty"] == RUN_ONE_RES:
                # the discriminated local must be the destination of the run_one call
                src = fn.single_def(o[1]["rv"]["place"]["l"])
                if src and src[2] == "call" and callee(src[3]) == RUN_ONE:
                    for v, tg in t["targets"]:
                        if v == 1:
                            return bb, tg
    return None



def _gate_fns(facts):
    """the Heap queries in front of run_gc's early return"""
    gc = facts.fns.get(RUN_GC)
    if gc is None:
        return set()
    marks = [bb for bb, t in gc.calls() if (callee(t) or "").startswith(HEAP + "mark") or callee(t) == HEAP + "sweep"]
    # queries only: a method that returns nothing (say, one that resets the marker's bookkeeping) decides nothing
    return {callee(t) for bb, t in gc.calls() if (callee(t) or "").startswith(HEAP) and callee(t) in facts.fns
            and not any(gc.dominates(m, bb) for m in marks) and not (callee(t) or "").startswith(HEAP + "mark")
            and facts.fns[callee(t)].locals and facts.fns[callee(t)].locals[0] != "()"}


def _gate_leaves_false(facts):
    """(ok, why): once past its gate, run_gc ends with the gate false — the growth decision after the sweep is the gate's own
    occupancy test (same shape, or the same sub-predicate), and every other field the gate reads is reset to a constant by the
    sweep"""
    from .. import shapes
    from ..flow import fields_read_of_self
    gc = facts.fns.get(RUN_GC)
    gate = sorted(_gate_fns(facts))
    if gc is None or len(gate) != 1:
        return False, "run_gc's gate is not a single predicate of the heap (%s)" % ", ".join(short_path(g) for g in gate)
    gf = facts.fns[gate[0]]
    norm = lambda sh: re.sub(r"\ba1\.heap\b", "a1", sh)
    gate_conds = set()
    for bb, b in enumerate(gf.blocks):
        t = b["term"]
        if t["k"] == "switch" and not b.get("cleanup"):
            gate_conds.add(norm(shapes.shape(gf, t["op"], 5)))
    # the last clause of an `a || b` is not branched on: it is the value returned
    for bb, j, st in gf.stmts():
        if st["rv"]["k"] == "bin" and st["rv"]["op"] in ("Ge", "Gt", "Le", "Lt", "Eq", "Ne"):
            gate_conds.add(norm("(%s %s %s)" % (st["rv"]["op"], shapes.shape(gf, st["rv"]["a"], 4), shapes.shape(gf, st["rv"]["b"], 4))))
    gate_subs = {callee(t) for bb, t in gf.calls() if callee(t) in facts.fns}
    grows = [(bb, t) for bb, t in gc.calls() if callee(t) == HEAP + "grow"]
    if not grows:
        return False, "run_gc never grows the heap"
    def occupancy_ratio(sh):
        """capacity coefficient / used coefficient of a comparison `used * A >= capacity * B` (either factor may be absent)"""
        from fractions import Fraction
        m = re.fullmatch(r"\((Ge|Gt) (?:\(Mul )?[A-Za-z0-9_:<>]*used_size\(a1\)(?: c:(\d+)\)\.0)? (?:\(Mul )?[A-Za-z0-9_:<>]*capacity\(a1\)(?: c:(\d+)\)\.0)?\)", sh)
        if not m:
            return None
        a = int(m.group(2) or 1)
        b = int(m.group(3) or 1)
        return Fraction(b, a)
    def pred_ratios(path):
        """occupancy comparisons inside a Heap predicate such as crowded() / half_full()"""
        h = facts.fns.get(path)
        out = []
        if h is not None:
            for b2, j2, st2 in h.stmts():
                if st2["rv"]["k"] == "bin" and st2["rv"]["op"] in ("Ge", "Gt"):
                    r2 = occupancy_ratio(norm("(%s %s %s)" % (st2["rv"]["op"], shapes.shape(h, st2["rv"]["a"], 4), shapes.shape(h, st2["rv"]["b"], 4))))
                    if r2 is not None:
                        out.append(r2)
        return out
    gate_ratios = [r for r in (occupancy_ratio(c) for c in gate_conds) if r is not None]
    for sub in gate_subs:
        if sub.startswith(HEAP):
            gate_ratios += pred_ratios(sub)
    agree = False
    for bb, t in grows:
        for g in shapes.guard_shapes(gc, bb, None, 5):
            if not g.endswith("=T"):
                continue
            body = norm(g[:-2])
            if body in gate_conds:
                agree = True
            # a growth test that is true at every occupancy the gate accepts (a lower threshold) settles it as well
            r = occupancy_ratio(body)
            if r is not None and gate_ratios and all(r <= g for g in gate_ratios):
                agree = True
            m = re.match(r"([A-Za-z0-9_:<>]+)\(a1\)$", body)
            if m and any(short_path(x) == m.group(1) for x in gate_subs):
                agree = True
            if m and gate_ratios:
                for x in facts.fns:
                    if short_path(x) == m.group(1) and x.startswith(HEAP) and x != gate[0]:
                        rs = pred_ratios(x)
                        if rs and all(rr <= g for rr in rs for g in gate_ratios):
                            agree = True
    if not agree:
        return False, "the growth decision after the sweep is not the gate's occupancy test: at an occupancy the gate accepts and the growth test refuses, a collection that frees nothing leaves the gate true"
    # the non-occupancy fields the gate reads are reset by the sweep
    occ = {"heap", "free_list", "heap_map", "chunk_size"}
    read = _self_fields_read(facts, gate[0]) - occ
    sw = facts.fns.get(HEAP + "sweep")
    reset = set()
    if sw is not None:
        for bb, j, st in sw.stmts():
            lp = st["lhs"]
            if lp["l"] == 1 and len(lp["p"]) >= 2 and lp["p"][0] == "*" and isinstance(lp["p"][1], dict) and "n" in lp["p"][1]:
                if st["rv"]["k"] == "use" and op_const(st["rv"]["a"]) is not None:
                    reset.add(lp["p"][1]["n"])
    if read - reset:
        return False, "the gate reads Heap.%s, which the sweep does not reset to a constant" % ", ".join(sorted(read - reset))
    return True, "growth test = gate's occupancy test; %s reset by the sweep" % (", ".join(sorted(read)) or "no other field")


def _collect_and_hand_back(facts, fn, b, ones):
    """every instruction-free path to the Ok(None) block `b` passes run_gc under the true edge of the collector's gate"""
    from ..shapes import dominating_guards
    gate = _gate_fns(facts)
    gcs = [bb for bb, t in fn.calls() if callee(t) == RUN_GC]
    if not gate or not gcs:
        return False
    if b in fn.reach_from(0, avoid=set(ones) | set(gcs)):
        return False
    for g in gcs:
        if b not in fn.reach_from(g, avoid=set(ones)):
            continue
        under = False
        for sb, cond, taken, tt in dominating_guards(fn, g):
            o = fn.origin(cond)
            if o[0] == "call" and callee(o[1]) in gate and taken != 0:
                under = True
        if not under:
            return False
    return _gate_leaves_false(facts)[0]


def r13g(ctx, rep, rule="R13g"):
    facts = ctx["facts"]
    rep.rule(rule, "a collection settles the question it was run for: once past its gate, run_gc ends with the gate false — the test "
             "that decides growth after the sweep is the gate's own occupancy test (the same comparison, the same "
             "sub-predicate, or the same comparison at a lower threshold), and every other quantity the gate reads is reset by "
             "the sweep. A gate that accepts an occupancy "
             "the growth test refuses (>= 75% against > 75%) collects again and again at that occupancy, and any caller that "
             "hands a slice back while a collection is due never gets out.")
    ok, why = _gate_leaves_false(facts)
    gc = facts.fns.get(RUN_GC)
    (rep.ok if ok else rep.fail)(rule, rule + "|run_gc|gate-false-afterwards",
                                 "run_gc leaves no collection due (%s)" % why if ok else
                                 "run_gc can return with a collection still due: %s" % why, [gc.span] if gc else [])

def r13a(ctx, rep, rule="R13a"):
    facts = ctx["facts"]
    rep.rule(rule, "every slice makes progress (must-pass-through): every path from the entry of Vm::run_count to a "
             "return of Ok(None) (budget exhausted) contains a call of run_one — or is a collect-and-hand-back path: it runs "
             "run_gc under the true edge of the collector's own gate, which run_gc leaves false (R13g), so that it cannot be "
             "taken twice in a row.")
    fn = need(rep, rule, facts, RUN_COUNT)
    if fn is None:
        return
    nb = _ok_none_blocks(fn)
    ones = [bb for bb, t in fn.calls() if callee(t) == RUN_ONE]
    if not nb or not ones:
        rep.anchor_lost(rule, "Ok(None) return / run_one call in run_count")
        return
    free = fn.reach_from(0, avoid=ones)
    for i, b in enumerate(nb):
        key = "%s|run_count|ok-none#%d" % (rule, i + 1)
        if b in free and _collect_and_hand_back(facts, fn, b, ones):
            rep.ok(rule, key, "an instruction-free path to the budget-exhausted return exists, but only through run_gc under the "
                   "collector's own gate, and run_gc leaves the gate false (R13g): the slice is handed back once after "
                   "collecting and the next resume executes", [fn.span])
        elif b in free:
            rep.fail(rule, key, "run_count can return Ok(None) without executing any instruction (entry reaches the "
                     "budget-exhausted return avoiding run_one): a caller resuming with that budget never makes progress",
                     [fn.blocks[b]["stmts"][0]["loc"] if fn.blocks[b]["stmts"] else fn.span])
        else:
            rep.ok(rule, key, "every path to the budget-exhausted return executes at least one instruction", [fn.span])


def r13d(ctx, rep, rule="R13d"):
    facts = ctx["facts"]
    rep.rule(rule, "a halted machine is reported as completion: from the edge on which run_one returned Ok(true) "
             "(HALT executed) the budget-exhausted return Ok(None) is unreachable without executing another "
             "instruction; otherwise a slice ending exactly on HALT reports 'not finished' and the next resume runs past "
             "the end of the program.")
    fn = need(rep, rule, facts, RUN_COUNT)
    if fn is None:
        return
    nb = _ok_none_blocks(fn)
    ones = [bb for bb, t in fn.calls() if callee(t) == RUN_ONE]
    # switches on run_one's Ok payload (bool), directly or through a local copy: false target = "not halted"
    not_halted = []
    for bb, b in enumerate(fn.blocks):
        t = b["term"]
        if t["k"] != "switch" or b.get("cleanup") or t.get("opty") != "bool":
            continue
        o = fn.origin(t["op"])
        src = o[0] == "call" and callee(o[1]) == RUN_ONE
        if not src and o[0] == "local":
            for d in fn.defs().get(o[1], []):
                if d[2] == "assign" and d[3]["rv"]["k"] == "use":
                    oo = fn.origin(d[3]["rv"]["a"])
                    if oo[0] == "call" and callee(oo[1]) == RUN_ONE:
                        src = True
        if src:
            not_halted += [tg for v, tg in t["targets"] if v == 0]
    if not not_halted or not nb or not ones:
        rep.anchor_lost(rule, "test of run_one's Ok payload / Ok(None) return in run_count")
        return
    for i, b in enumerate(nb):
        bad = False
        for o_ in ones:
            for s_ in fn.succ[o_]:
                if b in fn.reach_from(s_, avoid=set(not_halted) | set(ones)):
                    bad = True
        key = "%s|run_count|ok-none#%d-implies-not-halted" % (rule, i + 1)
        if bad:
            rep.fail(rule, key, "run_count can take the budget-exhausted return Ok(None) after an instruction without "
                     "having established that the machine did not halt: a slice that ends exactly on HALT is reported "
                     "unfinished and the next resume executes past the end of the entry procedure",
                     [fn.blocks[b]["stmts"][0]["loc"] if fn.blocks[b]["stmts"] else fn.span])
        else:
            rep.ok(rule, key, "every path from an executed instruction to the budget-exhausted return crosses the "
                   "'not halted' edge of run_one's result", [fn.span])


def r13b(ctx, rep, rule="R13b"):
    facts, cg = ctx["facts"], ctx["cg"]
    rep.rule(rule, "one interpreter loop: run_one is called only by run_count, so Vm::run / eval / eval_text are sliced "
             "execution with a single (maximal) slice.")
    cs = cg.callers(RUN_ONE)
    if cs == {RUN_COUNT}:
        rep.ok(rule, "%s|callers(run_one)" % rule, "run_one is called only from run_count", [facts.fns[RUN_COUNT].span])
    else:
        rep.fail(rule, "%s|callers(run_one)" % rule, "run_one is called from %s: there is a second interpreter loop whose "
                 "behaviour sliced execution does not share" % ", ".join(short_path(c) for c in sorted(cs - {RUN_COUNT}) or ["nobody"]))
    run = facts.fn(RUN + "run")
    if run is not None:
        direct = {callee(t) for bb, t in run.calls() if callee(t) in facts.fns}
        ok = RUN_COUNT in direct
        (rep.ok if ok else rep.fail)(rule, "%s|run-delegates" % rule, "Vm::run %s to run_count" % (
            "delegates" if ok else "does NOT delegate"), [run.span])


def r13c(ctx, rep, rule="R13c"):
    facts = ctx["facts"]
    rep.rule(rule, "nothing but the machine crosses a slice: the locals of run_count live across the loop back edge "
             "are arguments, the cycle counter (a local only ever set to a constant or to itself plus a constant) or "
             "compiler drop flags; on the budget-exhausted path no Vm field is written except through run_gc.")
    fn = need(rep, rule, facts, RUN_COUNT)
    if fn is None:
        return
    be = fn.back_edges()
    if not be:
        rep.anchor_lost(rule, "loop in run_count")
        return
    live = liveness(fn)
    for src, hdr in be:
        for l in sorted(live[hdr]):
            if 1 <= l <= fn.argc:
                continue
            ds = [d for d in fn.defs().get(l, []) if d[2] != "partial"]
            counter = True
            for d in ds:
                if d[2] != "assign":
                    counter = False
                    break
                rv = d[3]["rv"]
                if rv["k"] == "use":
                    o = fn.origin(rv["a"])
                    if o[0] == "const":
                        continue
                    if o[0] == "rv" and o[1]["rv"]["k"] == "bin" and "Add" in o[1]["rv"]["op"]:
                        a = fn.origin(o[1]["rv"]["a"])
                        if (a[0] == "local" and a[1] == l) and op_const(o[1]["rv"]["b"]) is not None:
                            continue
                    counter = False
                else:
                    counter = False
            key = "%s|run_count|live:%s" % (rule, fn.local_name(l) if l in fn.names else fn.locals[l])
            if counter and fn.locals[l] in ("usize", "bool", "u64"):
                rep.ok(rule, key, "local %s (%s) live across the loop is a counter/flag" % (fn.local_name(l), fn.locals[l]))
            else:
                rep.fail(rule, key, "local %s of type %s is live across the interpreter loop's back edge: state kept "
                         "there is lost at a slice boundary, so sliced and uninterrupted execution differ" % (
                             fn.local_name(l), fn.locals[l]), [fn.span])
    # budget-exhausted path
    nb = _ok_none_blocks(fn)
    hdrs = {h for _, h in be}
    for b in nb:
        # region: blocks dominating-chain from the loop header to b, exclusive of blocks that also lead back into the loop
        region = set()
        for x in fn.reachable():
            if b in fn.reach_from(x) and any(fn.dominates(h, x) for h in hdrs) and not any(
                    h in fn.reach_from(x) for h in hdrs if x != h):
                region.add(x)
        bad = []
        for x in region:
            blk = fn.blocks[x]
            for s in blk["stmts"]:
                if s["lhs"]["l"] == 1 and s["lhs"]["p"]:
                    bad.append("write to self.%s" % ".".join(e["n"] for e in s["lhs"]["p"] if isinstance(e, dict) and "f" in e))
            t = blk["term"]
            if t["k"] == "call" and callee(t) != RUN_GC:
                for a in t["args"]:
                    p = op_place(a)
                    if p is not None and fn.locals[p["l"]].startswith("&mut marwood::vm"):
                        bad.append("call " + short_path(callee(t)))
        key = "%s|run_count|exhausted-path-effects" % rule
        if bad:
            rep.fail(rule, key, "on the budget-exhausted path run_count does more than collect: %s" % ", ".join(sorted(set(bad))), [fn.span])
        else:
            rep.ok(rule, key, "the budget-exhausted path (%d block(s) after the last loop exit) only collects and returns" % len(region), [fn.span])


def _prepare_resets(facts, cg):
    """does prepare_eval reset the stack pointer on every path from a successful compilation to the write of ip? (R12l's clause)"""
    f = facts.fns.get("marwood::vm::Vm::prepare_eval")
    if f is None:
        return False
    resetting = set()
    for bb, t in f.calls():
        c = callee(t)
        if c in facts.fns and "Stack.sp" in field_writes(facts, cg, c):
            resetting.add(bb)
        if c == STACK + "get_sp_mut":
            dest = t["dest"]["l"]
            for b2, j, s_ in f.stmts():
                if s_["lhs"]["l"] == dest and s_["lhs"]["p"] and s_["lhs"]["p"][0] == "*":
                    resetting.add(b2)
    ipw = [bb for bb, j, s_ in f.stmts() if s_["lhs"]["l"] == 1 and [e.get("n") for e in s_["lhs"]["p"] if isinstance(e, dict)][:1] == ["ip"]]
    comp = [t for bb, t in f.calls() if (callee(t) or "").endswith("compile_runnable")]
    if not ipw or not comp or comp[0].get("target") is None:
        return False
    reach = f.reach_from(comp[0]["target"], avoid=resetting)
    return not any(b in reach for b in ipw)


def r07a(ctx, rep, rule="R07a"):
    facts, cg = ctx["facts"], ctx["cg"]
    rep.rule(rule, "error exits reset the machine (must-pass-through): every path in run_count from the Err edge of "
             "run_one's result to the return passes a write of the stack pointer (directly or through a callee whose "
             "effect summary writes Stack.sp), after the stack trace is captured; otherwise each failed evaluation "
             "leaves its frames on the stack, later traces contain them and the stack only grows.")
    fn = need(rep, rule, facts, RUN_COUNT)
    if fn is None:
        return
    ea = _err_arm(fn)
    if ea is None:
        rep.anchor_lost(rule, "match on run_one's result in run_count")
        return
    swb, tgt = ea
    rets = fn.return_blocks()
    resetting = set()
    for bb in fn.reachable():
        b = fn.blocks[bb]
        w = set()
        for s in b["stmts"]:
            l = s["lhs"]
            if l["l"] == 1 and l["p"]:
                names = [e["n"] for e in l["p"] if isinstance(e, dict) and "f" in e]
                if names[:2] == ["stack", "sp"] or names == ["stack"]:
                    w.add("Stack.sp")   # direct write of sp, or the whole stack replaced (fresh sp)
        t = b["term"]
        if t["k"] == "call" and callee(t) in facts.fns:
            w |= field_writes(facts, cg, callee(t))
            # `*self.stack.get_sp_mut() = ..` in run_count itself
        if "Stack.sp" in w:
            resetting.add(bb)
    # also: deref-assign through get_sp_mut's result in this function
    for bb, t in fn.calls():
        if callee(t) == STACK + "get_sp_mut":
            dest = t["dest"]["l"]
            for b2, j, s in fn.stmts():
                if s["lhs"]["l"] == dest and s["lhs"]["p"] and s["lhs"]["p"][0] == "*":
                    resetting.add(b2)
    region = fn.reach_from(tgt, avoid=resetting)
    escaping = [r for r in rets if r in region]
    key = "%s|run_count|err-exit-resets-sp" % rule
    if escaping and _prepare_resets(facts, cg):
        rep.ok(rule, key, "run_count's error arm does not reset the stack pointer itself, but prepare_eval starts every evaluation "
               "on an empty stack (R12l): the failed evaluation's frames are gone before anything else runs", [fn.span])
    elif escaping:
        rep.fail(rule, key, "run_count returns from the error arm without resetting the stack pointer: the failed "
                 "evaluation's frames stay on the stack (later stack traces include them; depth grows with every "
                 "failure; everything they reference stays rooted)", [fn.blocks[tgt]["term"]["loc"]])
    else:
        rep.ok(rule, key, "every path from the error arm to the return resets the stack pointer", [fn.span])
        # and the trace is captured before the reset
        tr = [bb for bb, t in fn.calls() if callee(t) == "marwood::vm::trace::StackTrace::new"]
        if tr:
            ok = all(not (t_ in fn.reach_from(r)) for r in resetting if fn.dominates(tgt, r) for t_ in tr)
            (rep.ok if ok else rep.fail)(rule, "%s|run_count|trace-before-reset" % rule,
                                         "the stack trace is captured %s the reset" % ("before" if ok else "AFTER"), [fn.span])


def r07h(ctx, rep, rule="R07h"):
    """the error exit is a collection point"""
    facts = ctx["facts"]
    rep.rule(rule, "a failed evaluation is a collection point (must-pass-through): every path in run_count from the Err edge of "
             "run_one's result to the return passes a call of run_gc, after the reset of the stack pointer. The loop collects "
             "every 8192 instructions, at a slice end and after a result; short failing evaluations reach none of these, so "
             "without a collection on the error exit a run of failures fills the free list and Heap::alloc grows the heap "
             "without bound.")
    fn = need(rep, rule, facts, RUN_COUNT)
    if fn is None:
        return
    ea = _err_arm(fn)
    if ea is None:
        rep.anchor_lost(rule, "match on run_one's result in run_count")
        return
    swb, tgt = ea
    gcs = {bb for bb, t in fn.calls() if callee(t) == RUN_GC}
    region = fn.reach_from(tgt, avoid=gcs)
    escaping = [r for r in fn.return_blocks() if r in region]
    key = "%s|run_count|err-exit-collects" % rule
    if escaping:
        rep.fail(rule, key, "run_count returns from the error arm without calling run_gc: failing evaluations never reach a "
                 "collection point, their garbage accumulates until the free list is empty and the heap grows instead of being "
                 "collected — repeated failures accumulate memory", [fn.blocks[tgt]["term"]["loc"]])
    else:
        rep.ok(rule, key, "every path from the error arm to the return passes run_gc", [fn.span])


PREPARE = "marwood::vm::Vm::prepare_eval"


def r07i(ctx, rep, rule="R07i"):
    """who may collect, and where"""
    from ..shapes import dominating_guards
    facts, cg = ctx["facts"], ctx["cg"]
    rep.rule(rule, "collections happen only where everything live is rooted: run_gc is called by run_count (between instructions: "
             "all live data hang off the registers and the stack) and by prepare_eval: on the Err edge of compile_runnable "
             "(nothing of a failed compilation is needed any more; without that collection point a run of compile errors only "
             "grows the heap) and after the entry procedure was installed in %ip. A collection after a *successful* compilation and before the entry procedure is installed in "
             "%ip sweeps the program just compiled, which is referenced from a Rust local only.")
    if need(rep, rule, facts, RUN_GC) is None:
        return
    cs = cg.callers(RUN_GC)
    extra = cs - {RUN_COUNT, PREPARE}
    key = rule + "|callers(run_gc)"
    if extra:
        rep.fail(rule, key, "run_gc is also called by %s: outside the interpreter loop not everything live is reachable from the "
                 "machine's roots" % ", ".join(short_path(c) for c in sorted(extra)))
    else:
        rep.ok(rule, key, "run_gc is called only by %s" % ", ".join(short_path(c) for c in sorted(cs)))
    f = facts.fns.get(PREPARE)
    if f is None:
        return
    gcs = [(bb, t) for bb, t in f.calls() if callee(t) == RUN_GC]
    comp = [bb for bb, t in f.calls() if (callee(t) or "").endswith("compile_runnable")]
    key = rule + "|prepare_eval|collects-on-compile-error"
    if not gcs:
        rep.fail(rule, key, "prepare_eval reports a compile error without a collection point: what the failed compilation put on "
                 "the heap is never reclaimed, and repeated compile errors accumulate memory", [f.span])
        return
    bad = []
    for bb, t in gcs:
        on_err = False
        for sbb, cond, taken, tt in dominating_guards(f, bb):
            o = f.origin(cond)
            if o[0] == "rv" and o[1]["rv"]["k"] == "disc" and "Result" in o[1]["rv"]["place"]["ty"] and taken == 1:
                src = f.origin({"copy": o[1]["rv"]["place"]})
                if src[0] == "call" and (callee(src[1]) or "").endswith("compile_runnable"):
                    on_err = True
        if not on_err:
            # after a successful compilation: harmless once the entry procedure hangs off %ip (a root of run_gc)
            ipw = [b2 for b2, j, s_ in f.stmts() if s_["lhs"]["l"] == 1 and
                   [e.get("n") for e in s_["lhs"]["p"] if isinstance(e, dict)][:2] == ["ip", "0"]]
            if not any(f.dominates(b2, bb) for b2 in ipw):
                bad.append(t)
    if bad:
        rep.fail(rule, key, "prepare_eval calls run_gc on a path where compilation succeeded and %ip does not yet name the new entry "
                 "procedure: the freshly compiled program and its constants are referenced from a Rust local only, so the "
                 "collection frees the program it is about to run",
                 [bad[0]["loc"]])
    else:
        rep.ok(rule, key, "prepare_eval collects on the Err edge of compile_runnable, and after a successful compilation only once "
               "the entry procedure is installed in %ip", [gcs[0][1]["loc"]])


def r12l(ctx, rep, rule="R12l"):
    """a new evaluation starts on an empty stack"""
    facts, cg = ctx["facts"], ctx["cg"]
    rep.rule(rule, "an abandoned evaluation is cleared away (must-pass-through): every path in prepare_eval from the successful "
             "compilation to the installation of the entry procedure in %ip passes a reset of the stack pointer (a write of "
             "Stack.sp, directly or through a callee). An embedder that stops resuming a sliced evaluation and prepares another "
             "would otherwise run it on top of the abandoned frames, which stay roots for the rest of the VM's life.")
    f = need(rep, rule, facts, PREPARE)
    if f is None:
        return
    resetting = set()
    for bb, t in f.calls():
        c = callee(t)
        if c in facts.fns and "Stack.sp" in field_writes(facts, cg, c):
            resetting.add(bb)
        if c == STACK + "get_sp_mut":
            dest = t["dest"]["l"]
            for b2, j, s_ in f.stmts():
                if s_["lhs"]["l"] == dest and s_["lhs"]["p"] and s_["lhs"]["p"][0] == "*":
                    resetting.add(b2)
    ipw = [bb for bb, j, s_ in f.stmts() if s_["lhs"]["l"] == 1 and [e.get("n") for e in s_["lhs"]["p"] if isinstance(e, dict)][:1] == ["ip"]]
    comp = [t for bb, t in f.calls() if (callee(t) or "").endswith("compile_runnable")]
    if not ipw or not comp or comp[0].get("target") is None:
        rep.anchor_lost(rule, "compile_runnable call / write of ip in prepare_eval")
        return
    reach = f.reach_from(comp[0]["target"], avoid=resetting)
    key = rule + "|prepare_eval|resets-sp"
    if any(b in reach for b in ipw):
        rep.fail(rule, key, "prepare_eval installs the new entry procedure without resetting the stack pointer: the frames of an "
                 "evaluation that was abandoned between two slices stay below the new one and are roots for good — memory grows "
                 "with every abandoned evaluation", [f.span])
    else:
        rep.ok(rule, key, "prepare_eval resets the stack pointer before it installs the entry procedure", [f.span])


def r07b(ctx, rep, rule="R07b"):
    facts = ctx["facts"]
    rep.rule(rule, "compile failures do not move the machine: in Vm::prepare_eval every write of the instruction "
             "pointer lies on the success edge of compile_runnable's result; run_count clears last_stacktrace before "
             "the first instruction.")
    fn = need(rep, rule, facts, "marwood::vm::Vm::prepare_eval")
    if fn is None:
        return
    comp = [(bb, t) for bb, t in fn.calls() if callee(t) == COMPILE + "compile_runnable"]
    if not comp:
        rep.anchor_lost(rule, "compile_runnable call in prepare_eval")
        return
    cont = None
    for bb, b in enumerate(fn.blocks):
        t = b["term"]
        if t["k"] == "switch" and not b.get("cleanup"):
            o = fn.origin(t["op"])
            # `compile_runnable(..)?` (ControlFlow::Continue) or an explicit match on its Result (Ok): variant 0 either way
            if o[0] == "rv" and o[1]["rv"]["k"] == "disc" and "lambda::Lambda" in o[1]["rv"]["place"]["ty"] and \
                    ("ControlFlow" in o[1]["rv"]["place"]["ty"] or "result::Result" in o[1]["rv"]["place"]["ty"]):
                vals = dict((v, tg) for v, tg in t["targets"])
                if 0 in vals:
                    cont = vals[0]
                elif 1 in vals:
                    cont = t["otherwise"]
    writes = []
    for bb, j, s in fn.stmts():
        l = s["lhs"]
        if l["l"] == 1 and l["p"] and [e["n"] for e in l["p"] if isinstance(e, dict) and "f" in e][:1] == ["ip"]:
            writes.append((bb, s))
    rep.floor(rule, "instruction pointer writes in prepare_eval", len(writes), 2)
    if cont is None:
        rep.anchor_lost(rule, "branch on compile_runnable's result in prepare_eval")
        return
    for i, (bb, s) in enumerate(writes):
        ok = fn.dominates(cont, bb)
        (rep.ok if ok else rep.fail)(rule, "%s|prepare_eval|ip-write#%d" % (rule, i + 1),
                                     "write of %s %s dominated by the success edge of compile_runnable" % (
                                         "self.ip", "is" if ok else "is NOT (a failed compilation moves the machine)"),
                                     [s["loc"]])
    rc = facts.fn(RUN_COUNT)
    if rc is not None:
        clears = []
        for bb, j, s in rc.stmts():
            l = s["lhs"]
            if l["l"] == 1 and [e["n"] for e in l["p"] if isinstance(e, dict) and "f" in e] == ["last_stacktrace"]:
                o = rc.origin(s["rv"].get("a")) if s["rv"]["k"] == "use" else None
                if o and o[0] == "rv" and o[1]["rv"].get("variant") == "None":
                    clears.append(bb)
        ones = [bb for bb, t in rc.calls() if callee(t) == RUN_ONE]
        ok = bool(clears) and all(any(rc.dominates(c, o_) for c in clears) for o_ in ones)
        (rep.ok if ok else rep.fail)(rule, "%s|run_count|clears-trace-first" % rule,
                                     "run_count %s last_stacktrace before executing" % ("clears" if ok else "does NOT clear"),
                                     [rc.span])


def r12a(ctx, rep, rule="R12a"):
    facts = ctx["facts"]
    rep.rule(rule, "success path wipes before collecting: on the path to Ok(Some(..)) in run_count, a run_gc call that "
             "dominates the return is itself dominated by Stack::clear — dead frames must not be roots of the final "
             "collection.")
    fn = need(rep, rule, facts, RUN_COUNT)
    if fn is None:
        return
    somes = _ok_some_blocks(fn)
    clears = [bb for bb, t in fn.calls() if callee(t) == STACK + "clear"]
    gcs = [bb for bb, t in fn.calls() if callee(t) == RUN_GC]
    if not somes:
        rep.anchor_lost(rule, "Ok(Some(..)) return in run_count")
        return
    for i, sb in enumerate(somes):
        final = [g for g in gcs if fn.dominates(g, sb)]
        key = "%s|run_count|clear-before-final-gc#%d" % (rule, i + 1)
        if not final:
            rep.fail(rule, key, "no collection dominates the successful return of run_count", [fn.span])
        elif any(any(fn.dominates(c, g) and c != g for c in clears) for g in final):
            rep.ok(rule, key, "Stack::clear dominates the final run_gc of a successful evaluation", [fn.span])
        else:
            rep.fail(rule, key, "the final run_gc of a successful evaluation is not preceded by Stack::clear: every dead "
                     "frame (and all it references) is treated as a root, so garbage survives each evaluation", [fn.span])


def r12e(ctx, rep, rule="R12e"):
    facts, cg = ctx["facts"], ctx["cg"]
    rep.rule(rule, "growth only after collection: Heap::grow is called only by Heap::alloc (free list empty) and by "
             "run_gc, where it is dominated by Heap::sweep.")
    GROW = HEAP + "grow"
    if need(rep, rule, facts, GROW) is None:
        return
    cs = cg.callers(GROW)
    extra = cs - {HEAP + "alloc", RUN_GC}
    if extra:
        rep.fail(rule, "%s|callers(grow)" % rule, "Heap::grow is also called by %s" % ", ".join(short_path(c) for c in sorted(extra)))
    else:
        rep.ok(rule, "%s|callers(grow)" % rule, "Heap::grow is called only by %s" % ", ".join(short_path(c) for c in sorted(cs)))
    gc = facts.fn(RUN_GC)
    if gc is not None and RUN_GC in cs:
        sw = [bb for bb, t in gc.calls() if callee(t) == HEAP + "sweep"]
        gr = [bb for bb, t in gc.calls() if callee(t) == GROW]
        ok = bool(sw) and all(any(gc.dominates(s_, g) for s_ in sw) for g in gr)
        (rep.ok if ok else rep.fail)(rule, "%s|run_gc|grow-after-sweep" % rule,
                                     "in run_gc the heap grows only after a sweep" if ok else
                                     "run_gc can grow the heap without having swept", [gc.span])
        # the growth decision looks at the heap as the sweep left it
        from ..shapes import dominating_guards

        def calls_in(fn, op, depth=6, out=None):
            out = out if out is not None else []
            if op is None or depth < 0:
                return out
            o = fn.origin(op)
            if o[0] == "call":
                out.append((o[3], o[1]))
                for a in o[1]["args"]:
                    calls_in(fn, a, depth - 1, out)
            elif o[0] == "rv":
                rv = o[1]["rv"]
                for k in ("a", "b"):
                    if k in rv:
                        calls_in(fn, rv[k], depth - 1, out)
                for a in rv.get("ops", []):
                    calls_in(fn, a, depth - 1, out)
                if "place" in rv:
                    calls_in(fn, {"copy": rv["place"]}, depth - 1, out)
            return out
        for g in gr:
            readings = []
            for sbb, cond, taken, t in dominating_guards(gc, g):
                if not any(gc.dominates(s_, sbb) for s_ in sw):
                    continue        # the early return before marking
                readings += [(b2, t2) for b2, t2 in calls_in(gc, cond) if (callee(t2) or "").startswith(HEAP) or (
                    (callee(t2) or "").startswith("marwood::") and any(x.startswith(HEAP) for x in cg.reachable_from([callee(t2)])))]
            key = "%s|run_gc|grow-decision-after-sweep" % rule
            if not readings:
                rep.fail(rule, key, "run_gc decides to grow the heap without reading the heap's occupancy after the sweep (a "
                         "value computed before marking is stale: it is at or above the collection threshold by construction, so "
                         "every collection would be followed by a growth)", [gc.span])
            else:
                stale = [(b2, t2) for b2, t2 in readings if not any(gc.dominates(s_, b2) and s_ != b2 for s_ in sw)]
                (rep.fail if stale else rep.ok)(
                    rule, key, "run_gc's decision to grow reads %s before the sweep: the value is stale (at or above the collection "
                    "threshold by construction), so the heap grows after every collection no matter how much was freed" % (
                        ", ".join(sorted({short_path(callee(t2)) for b2, t2 in stale}))) if stale else
                    "the decision to grow reads the heap (%s) after the sweep" % ", ".join(sorted({short_path(callee(t2)) for b2, t2 in readings})),
                    [gc.span])
    al = facts.fn(HEAP + "alloc")
    if al is not None:
        # grow in alloc only on the None edge of free_list.pop()
        gr = [bb for bb, t in al.calls() if callee(t) == GROW]
        pops = [bb for bb, t in al.calls() if callee(t).endswith("Vec::<T, A>::pop")]
        ok = bool(pops) and all(any(al.dominates(p, g) for p in pops) for g in gr)
        (rep.ok if ok else rep.fail)(rule, "%s|alloc|grow-after-empty-free-list" % rule,
                                     "Heap::alloc grows only after looking at the free list" if ok else
                                     "Heap::alloc grows without consulting the free list", [al.span])


def r12i(ctx, rep, rule="R12i"):
    """global bindings are created only for names that code refers to"""
    from .. import shapes
    facts, cg = ctx["facts"], ctx["cg"]
    rep.rule(rule, "a global binding is created only where it is used: the keys of GlobalEnvironment.bindings are collection "
             "roots and a binding is never removed, so the creating lookup (the function that inserts into `bindings`) may be "
             "called only where the slot it returns becomes an operand of emitted code (VCell::env_slot) or is stored into "
             "(put_slot). A mere query — is this symbol bound to a macro? — must use the non-creating lookup, or every symbol "
             "that passes by is pinned together with a slot for the rest of the VM's life.")
    creators = []
    for p, f in sorted(facts.fns.items()):
        if not p.startswith("marwood::vm::environment::GlobalEnvironment::") or "{closure" in p:
            continue
        for bb, t in f.calls():
            if (callee(t) or "").endswith("HashMap::<K, V, S, A>::insert") and "bindings" in shapes.shape(f, t["args"][0], 3):
                creators.append(p)
    creators = sorted(set(creators))
    if not creators:
        rep.anchor_lost(rule, "no function of GlobalEnvironment inserts into `bindings`")
        return
    n = 0
    for cr in creators:
        for c in sorted(cg.callers(cr)):
            f = facts.fns.get(c)
            if f is None:
                continue
            sites = [(bb, t) for bb, t in f.calls() if callee(t) == cr]
            sinks = [shapes.shape(f, a, 4) for bb, t in f.calls() if (callee(t) or "").endswith(("VCell::env_slot", "GlobalEnvironment::put_slot"))
                     for a in t["args"]]
            used = any(short_path(cr) + "(" in sh for sh in sinks)
            n += 1
            key = "%s|%s|%s" % (rule, short_path(cr).rsplit("::", 1)[-1], f.short)
            if used:
                rep.ok(rule, key, "%s creates a binding and emits / stores into its slot" % f.short, [sites[0][1]["loc"]])
            else:
                rep.fail(rule, key, "%s calls the creating lookup %s but neither emits the slot as an operand nor stores into it: a "
                         "binding (collection root + slot) is created for every symbol looked up, and never released" % (
                             f.short, short_path(cr)), [sites[0][1]["loc"]])
    rep.floor(rule, "callers of the creating global lookup", n, 5)


def r12j(ctx, rep, rule="R12j"):
    """Stack::clear wipes the whole stack"""
    from .. import shapes
    facts, cg = ctx["facts"], ctx["cg"]
    rep.rule(rule, "the stack wipe is total: every slot up to %sp is a collection root (Stack::iter_to_sp), and an embedder may "
             "abandon a sliced evaluation and prepare another on top of its frames, so Stack::clear — called when an evaluation "
             "ends — must reset every slot of the vector: a whole-vector replacement of the same length, or a fill over the "
             "full range. Wiping only a sub-range (say, above %sp) leaves abandoned frames alive for the rest of the VM's life.")
    f = need(rep, rule, facts, STACK + "clear")
    if f is None:
        return
    callers = cg.callers(f.path)
    rep.floor(rule, "callers of Stack::clear", len(callers), 1)
    whole, partial = [], []
    for bb, j, s_ in f.stmts():
        l = s_["lhs"]
        if l["l"] == 1 and [e.get("n") for e in l["p"] if isinstance(e, dict)] == ["stack"] and s_["rv"]["k"] == "use":
            sh = shapes.shape(f, s_["rv"]["a"], 4)
            (whole if re.match(r"vec::from_elem\(.*vec::Vec::<T, A>::len\(a1\.stack\)\)$", sh) else partial).append((sh, s_["loc"]))
    for bb, t in f.calls():
        c = callee(t) or ""
        if c.endswith(("<impl [T]>::fill", "<impl [T]>::fill_with")):
            sh = shapes.shape(f, t["args"][0], 4)
            full = re.fullmatch(r"<vec::Vec<T, A> as ops::DerefMut>::deref_mut\(a1\.stack\)", sh) or "RangeFull" in sh \
                or re.search(r"Range(From)?::Range(From)?\(c:0[,)]", sh) and "RangeFrom" in sh
            (whole if full else partial).append((sh, t["loc"]))
    key = rule + "|Stack::clear"
    if partial:
        rep.fail(rule, key, "Stack::clear resets only part of the stack (%s): slots outside that range keep their old values, "
                 "and those at or below %%sp are treated as roots by every later collection" % partial[0][0][:140], [partial[0][1]])
    elif whole:
        rep.ok(rule, key, "Stack::clear resets every slot (%s)" % whole[0][0][:100], [whole[0][1]])
    else:
        rep.anchor_lost(rule, "Stack::clear neither replaces nor fills the stack vector in a recognised form")


SHRINKING = ("truncate", "clear", "pop", "drain", "shrink_to_fit", "shrink_to", "split_off", "remove", "swap_remove",
             "retain", "retain_mut", "dedup", "dedup_by", "dedup_by_key", "set_len")
GROWING_OR_NEUTRAL = ("push", "extend", "extend_from_slice", "insert", "append", "reserve", "reserve_exact")
STACK_ADT = "marwood::vm::stack::Stack"


def r_stack_monotone(ctx, rep, rule):
    """The machine stack's backing vector never shrinks (restore_continuation relies on it)."""
    facts = ctx["facts"]
    rep.rule(rule, "the machine stack never shrinks: Stack::restore_continuation copies a saved stack into the live one "
             "with split_at_mut(saved.len()), which panics if the live vector is shorter; so every write of "
             "Stack.stack must keep or grow its length (a same-length refill, a resize to a multiple/sum of the current "
             "length, push/extend), no length-reducing Vec method may be applied to it, and Vm.stack is never replaced "
             "wholesale outside the constructor.")
    n = 0
    for p, f in sorted(facts.fns.items()):
        if f.crate != "marwood" or f.impl_trait in DERIVE_TRAITS:
            continue
        selfty = f.locals[1] if len(f.locals) > 1 else ""
        # (A) inside Stack methods
        if selfty in ("&mut " + STACK_ADT,):
            for bb, j, s in f.stmts():
                l = s["lhs"]
                if l["l"] == 1 and l["p"] == ["*"]:
                    n += 1
                    rep.fail(rule, "%s|%s|replace-self" % (rule, f.short), "%s replaces the whole Stack (`*self = ..`): the new vector "
                             "has its initial length, shorter than a continuation saved earlier, whose restoration then panics in "
                             "split_at_mut" % f.short, [s["loc"]])
                    continue
                if l["l"] == 1 and [e.get("n") for e in l["p"] if isinstance(e, dict)] == ["stack"]:
                    n += 1
                    key = "%s|%s|assign-stack" % (rule, f.short)
                    o = f.origin(s["rv"].get("a")) if s["rv"]["k"] == "use" else None
                    ok = False
                    if o and o[0] == "call" and callee(o[1]) == "std::vec::from_elem" and len(o[1]["args"]) > 1:
                        n_o = f.origin(o[1]["args"][1])
                        if n_o[0] == "call" and callee(n_o[1]).endswith("::len"):
                            r = f.origin(n_o[1]["args"][0])
                            ok = r[0] == "arg" and r[1] == 1 and r[2] and r[2][0].get("n") == "stack"
                    (rep.ok if ok else rep.fail)(rule, key, "%s refills the stack vector at its current length" % f.short if ok else
                                                 "%s replaces the stack vector with one whose length is not derived from the "
                                                 "current length: a saved continuation deeper than the new vector can no "
                                                 "longer be restored (split_at_mut panics)" % f.short, [s["loc"]])
            for bb, t in f.calls():
                c = callee(t)
                if not c.startswith("std::vec::Vec::<T, A>::") or not t["args"]:
                    continue
                r = f.origin(t["args"][0])
                if not (r[0] == "arg" and r[1] == 1 and r[2] and isinstance(r[2][0], dict) and r[2][0].get("n") == "stack"):
                    continue
                m = c.rsplit("::", 1)[-1]
                if m in SHRINKING:
                    n += 1
                    rep.fail(rule, "%s|%s|Vec::%s" % (rule, f.short, m), "%s applies Vec::%s to the stack vector: the live "
                             "stack can become shorter than a saved continuation" % (f.short, m), [t["loc"]])
                elif m == "resize":
                    n += 1
                    o = f.origin(t["args"][1])
                    ok = False
                    if o[0] == "rv" and o[1]["rv"]["k"] == "bin" and ("Mul" in o[1]["rv"]["op"] or "Add" in o[1]["rv"]["op"]):
                        a = f.origin(o[1]["rv"]["a"])
                        b = op_const(o[1]["rv"]["b"])
                        if a[0] == "call" and callee(a[1]).endswith("::len"):
                            ok = "Add" in o[1]["rv"]["op"] or (b is not None and b.get("int", 0) >= 1)
                    (rep.ok if ok else rep.fail)(rule, "%s|%s|Vec::resize" % (rule, f.short),
                                                 "%s resizes the stack vector to a multiple/sum of its current length" % f.short if ok
                                                 else "%s resizes the stack vector to a length not bounded below by the "
                                                 "current one" % f.short, [t["loc"]])
        # (B) wholesale replacement of Vm.stack
        if selfty == "&mut marwood::vm::Vm" or any(t == "&mut marwood::vm::Vm" for t in f.locals[1:f.argc + 1]):
            vml = {i for i, t in enumerate(f.locals) if t == "&mut marwood::vm::Vm"}
            for bb, j, s in f.stmts():
                l = s["lhs"]
                if l["l"] in vml and [e.get("n") for e in l["p"] if isinstance(e, dict)] == ["stack"]:
                    n += 1
                    rep.fail(rule, "%s|%s|replace-vm-stack" % (rule, f.short), "%s replaces Vm.stack wholesale: the new "
                             "stack can be shorter than a saved continuation, whose restoration then panics" % f.short,
                             [s["loc"]])
            for bb, t in f.calls():
                c = callee(t)
                if c in ("std::mem::replace", "std::mem::swap", "std::mem::take"):
                    for a in t["args"]:
                        r = f.origin(a)
                        if r[0] == "arg" and r[1] in vml and r[2] and isinstance(r[2][0], dict) and r[2][0].get("n") == "stack":
                            n += 1
                            rep.fail(rule, "%s|%s|%s-vm-stack" % (rule, f.short, c.rsplit("::", 1)[-1]),
                                     "%s swaps out Vm.stack" % f.short, [t["loc"]])
    rep.floor(rule, "length-relevant writes of the stack vector", n, 1)
    rc = facts.fn(STACK + "restore_continuation")
    if rc is not None:
        uses = [callee(t).rsplit("::", 1)[-1] for bb, t in rc.calls()]
        rep.ok(rule, "%s|restore_continuation|depends" % rule, "Stack::restore_continuation (%s) depends on this invariant" % (
            ", ".join(u for u in uses if u in ("split_at_mut", "clone_from_slice", "copy_from_slice")) or "-"),
            [rc.span], nontrivial=False)


def r12f(ctx, rep, rule="R12f"):
    facts = ctx["facts"]
    rep.rule(rule, "a continuation snapshot holds only live slots: Stack::to_continuation builds the saved vector from "
             "an sp-bounded slice of the live stack; the collector marks every element of a saved stack "
             "(mark_continuation iterates the whole snapshot), so a full-length copy would turn dead slots above sp "
             "into roots and chain every earlier dead frame to each stored continuation.")
    f = need(rep, rule, facts, STACK + "to_continuation")
    if f is None:
        return
    ok = False
    for bb, j, s in f.stmts():
        rv = s["rv"]
        if rv["k"] == "agg" and rv.get("adt") == STACK_ADT:
            for fname, op in zip(rv.get("fields", []), rv["ops"]):
                if fname != "stack":
                    continue
                o = f.origin(op)
                # to_vec / to_owned / Vec::from of a Range-indexed slice of self.stack
                cur = o
                for _ in range(4):
                    if cur[0] == "call" and cur[1]["args"]:
                        fa = cur[1].get("fnargs") or ""
                        if "as std::ops::Index<std::ops::Range" in fa:
                            ok = True
                            break
                        cur = f.origin(cur[1]["args"][0])
                    else:
                        break
    key = "%s|to_continuation|sp-bounded-snapshot" % rule
    (rep.ok if ok else rep.fail)(rule, key, "the continuation snapshot is a range-bounded slice of the live stack" if ok else
                                 "Stack::to_continuation no longer copies an sp-bounded slice: dead slots above sp are saved "
                                 "and later marked as roots, so garbage reachable from dead frames survives as long as the "
                                 "continuation (and chains through earlier continuations)", [f.span])
    mc = facts.fn(HEAP + "mark_continuation")
    if mc is not None:
        whole = any(callee(t).endswith("Stack::iter") for bb, t in mc.calls())
        rep.ok(rule, "%s|mark_continuation|iterates" % rule, "mark_continuation marks %s of the snapshot" % (
            "every element" if whole else "a bounded part"), [mc.span], nontrivial=False)


def r12g(ctx, rep, rule="R12g"):
    facts = ctx["facts"]
    rep.rule(rule, "every slice collects when a collection is due: a collection driven by a counter local to one call of run_count "
             "is never reached by an embedder resuming with budgets below the period; therefore either the dispatch loop "
             "consults the collector's gate before every instruction (R12q), or every path to the budget-exhausted return "
             "Ok(None) itself passes a call of run_gc.")
    fn = need(rep, rule, facts, RUN_COUNT)
    if fn is None:
        return
    nb = _ok_none_blocks(fn)
    gcs = [bb for bb, t in fn.calls() if callee(t) == RUN_GC]
    if not nb:
        rep.anchor_lost(rule, "Ok(None) return in run_count")
        return
    # unconditional collection: a run_gc block that dominates the return block and lies after the last loop exit
    every = _gate_every_instruction(facts)
    for i, b in enumerate(nb):
        ok = any(fn.dominates(g, b) and not any(h in fn.reach_from(g) for _, h in fn.back_edges()) for g in gcs)
        key = "%s|run_count|ok-none#%d-collects" % (rule, i + 1)
        if not ok and every:
            rep.ok(rule, key, "the budget-exhausted return does not collect itself, but the dispatch loop consults the collector's "
                   "gate before every instruction (R12q): no budget, however small, gets past a collection that is due", [fn.span])
            continue
        (rep.ok if ok else rep.fail)(rule, key, "the budget-exhausted return is dominated by a run_gc call outside the loop" if ok
                                     else "run_count can return Ok(None) without calling run_gc: with budgets below the "
                                     "collection period no collection ever runs during a sliced evaluation and the heap "
                                     "grows with the work done", [fn.span])


GLOBENV = "marwood::vm::environment::GlobalEnvironment"


def _slot_definers(facts):
    """functions that can change the value of an existing global slot: they take a mutable borrow of a `slots` field of a
    GlobalEnvironment and use it for anything but Vec::push(VCell::undefined()) (reserving a fresh, unbound slot)"""
    out = {}
    for p, f in facts.fns.items():
        if f.crate != "marwood" or f.impl_trait in DERIVE_TRAITS or "::tests::" in p:
            continue
        for bb, j, st in f.stmts():
            rv = st["rv"]
            if rv["k"] != "ref" or not rv.get("mut"):
                continue
            pl = rv["place"]
            fl = [e["n"] for e in pl["p"] if isinstance(e, dict) and "f" in e]
            if not fl or fl[-1] != "slots":
                continue
            base_ty = f.locals[pl["l"]]
            if len(fl) == 1 and GLOBENV not in base_ty:
                continue
            if len(fl) >= 2 and fl[-2] != "globenv":
                continue
            # how is the borrow used?
            dest = st["lhs"]["l"]
            reserve_only = True
            used = False
            for b2, t in f.calls():
                for i, a in enumerate(t["args"]):
                    ap = op_place(a)
                    if ap is not None and ap["l"] == dest:
                        used = True
                        c = callee(t) or ""
                        if c.startswith("std::vec::Vec") and c.endswith("::push") and i == 0 and len(t["args"]) == 2:
                            o = f.origin(t["args"][1])
                            fresh = (o[0] == "call" and (callee(o[1]) or "").endswith("VCell::undefined")) or \
                                    (o[0] == "rv" and o[1]["rv"]["k"] == "agg" and o[1]["rv"].get("variant") == "Undefined")
                            if not fresh:
                                reserve_only = False
                        else:
                            reserve_only = False
            if not used or not reserve_only:
                out[p] = st["loc"]
    return out


def r07f(ctx, rep, rule="R07f"):
    facts, cg = ctx["facts"], ctx["cg"]
    rep.rule(rule, "compiling defines nothing: a top-level form is compiled as a whole before any of it runs, so an effect the "
             "compiler performs itself survives a form that later fails (or never reaches the defining sub-form). In the "
             "call graph no function reachable from compile_runnable changes the value of a global slot: the only mutable "
             "use of GlobalEnvironment.slots on the compile side is reserving a fresh slot with Vec::push(VCell::undefined()) "
             "(get_binding); values are stored by the MOV instruction at run time.")
    root = COMPILE + "compile_runnable"
    if need(rep, rule, facts, root) is None:
        return
    definers = _slot_definers(facts)
    if not definers:
        rep.anchor_lost(rule, "a function storing into GlobalEnvironment.slots (put_slot)")
        return
    reach = cg.reachable_from([root])
    rep.floor(rule, "functions reachable from compile_runnable", len(reach), 40)
    bad = sorted(d for d in definers if d in reach)
    for d in bad:
        path = cg.path(root, d) or [root, d]
        rep.fail(rule, "%s|compile-reaches|%s" % (rule, short_path(d)),
                 "the compiler can store a value into a global slot before the form runs: %s. A definition made this way takes "
                 "effect even when the enclosing form fails first (or is rejected by a later compile error)" % (
                     " -> ".join(short_path(x) for x in path)), [definers[d]])
    if not bad:
        rep.ok(rule, "%s|compile-side-effects" % rule, "none of the %d slot-storing functions (%s) is reachable from compile_runnable "
               "(%d functions)" % (len(definers), ", ".join(sorted(short_path(d) for d in definers)), len(reach)))


def r07e(ctx, rep, rule="R07e"):
    facts = ctx["facts"]
    rep.rule(rule, "a failing read or compilation reports no stale trace: in Vm::eval_text and Vm::prepare_eval an assignment "
             "of None to last_stacktrace dominates the first fallible step (parse_text / compile_runnable); otherwise an error "
             "that never reaches run_count is reported together with the previous failure's stack trace.")
    for path, first in (("marwood::vm::Vm::eval_text", "marwood::parse::parse_text"),
                        ("marwood::vm::Vm::prepare_eval", COMPILE + "compile_runnable")):
        fn = need(rep, rule, facts, path)
        if fn is None:
            continue
        clears = []
        for bb, j, s in fn.stmts():
            l = s["lhs"]
            if l["l"] == 1 and [e["n"] for e in l["p"] if isinstance(e, dict) and "f" in e] == ["last_stacktrace"]:
                o = fn.origin(s["rv"].get("a")) if s["rv"]["k"] == "use" else None
                if o and o[0] == "rv" and o[1]["rv"].get("variant") == "None":
                    clears.append(bb)
        firsts = [bb for bb, t in fn.calls() if callee(t) == first]
        if not firsts:
            rep.anchor_lost(rule, "%s call in %s" % (short_path(first), short_path(path)))
            continue
        ok = bool(clears) and all(any(fn.dominates(c, b) for c in clears) for b in firsts)
        (rep.ok if ok else rep.fail)(rule, "%s|%s" % (rule, path.rsplit("::", 1)[-1]),
                                     "%s clears last_stacktrace before %s" % (short_path(path), short_path(first)) if ok else
                                     "%s can fail in %s without having cleared last_stacktrace: the caller sees the previous "
                                     "failure's trace next to the new error" % (short_path(path), short_path(first)), [fn.span])


def _self_fields_read(facts, path, depth=3, _seen=None):
    """names of the fields of `self` that `path` reads, following calls on the same receiver into local methods"""
    from ..flow import fields_read_of_self, _fields_borrowed_of_self
    _seen = _seen if _seen is not None else set()
    f = facts.fns.get(path)
    if f is None or path in _seen or depth < 0:
        return set()
    _seen.add(path)
    out = fields_read_of_self(f) | _fields_borrowed_of_self(f)
    for bb, t in f.calls():
        c = callee(t)
        if c in facts.fns and t["args"]:
            o = f.origin(t["args"][0])
            if (o[0] == "arg" and o[1] == 1) or (op_place(t["args"][0]) or {}).get("l") == 1:
                out |= _self_fields_read(facts, c, depth - 1, _seen)
    return out


SIZED_KINDS = ("Vector", "String", "Continuation", "Lambda", "LexicalEnv", "Symbol", "Number", "Macro")


def r12p(ctx, rep, rule="R12p"):
    """the collection gate weighs what a cell holds outside the heap"""
    from ..flow import Labels
    facts, cg = ctx["facts"], ctx["cg"]
    rep.rule(rule, "one cell, any size: a vector, a string, a continuation's saved stack, a procedure's code, an environment and a "
             "symbol's name each occupy a single heap cell however large they are, so a gate that counts cells alone lets dead megabyte objects pile up until 75%% of the cells are "
             "taken (thousands of them) — memory then follows the work done, not the live data. Necessary shape: (i) the condition "
             "under which run_gc returns without collecting reads a Heap field that (ii) Heap::put and Heap::maybe_put update, "
             "when they store a value in a fresh cell, with a number derived from that value; (iii) the function that derives it "
             "gives each of %s a weight that is not a constant." % ", ".join(SIZED_KINDS))
    gc = need(rep, rule, facts, RUN_GC)
    if gc is None:
        return
    marks = [bb for bb, t in gc.calls() if (callee(t) or "").startswith(HEAP + "mark") or callee(t) == HEAP + "sweep"]
    gate_calls = [(bb, t) for bb, t in gc.calls() if callee(t) in _gate_fns(facts)]
    gate_fields = set()
    for bb, t in gate_calls:
        gate_fields |= _self_fields_read(facts, callee(t))
    if not gate_calls:
        rep.anchor_lost(rule, "the Heap queries in front of run_gc's early return")
        return
    rep.note("%s: run_gc's gate (%s) reads Heap.{%s}" % (rule, ", ".join(sorted({short_path(callee(t)) for _, t in gate_calls})),
                                                       ", ".join(sorted(gate_fields))))
    weighers = set()

    def weighed_fields(path, tainted_args, depth=2, seen=None):
        """fields of Heap written with a value derived from the tainted arguments of `path`, following Heap methods and
        module-level helpers that receive a tainted argument; collects the helper functions (weighers) on the way"""
        seen = seen if seen is not None else set()
        f = facts.fns.get(path)
        if f is None or (path, tuple(sorted(tainted_args))) in seen or depth < 0:
            return {}
        seen.add((path, tuple(sorted(tainted_args))))
        lab = Labels(f, init={a: {"v"} for a in tainted_args})
        W = {}
        recv_is_heap = len(f.locals) > 1 and "heap::Heap" in (f.locals[1] or "")
        for bb, j_, st in f.stmts():
            lp = st["lhs"]
            if recv_is_heap and lp["l"] == 1 and len(lp["p"]) >= 2 and lp["p"][0] == "*" and isinstance(lp["p"][1], dict) and "n" in lp["p"][1]:
                ls = set()
                for pr in places_read(st["rv"]):
                    ls |= lab.of_place(pr)
                if "v" in ls:
                    W.setdefault(lp["p"][1]["n"], []).append(st["loc"])
        for bb, t in f.calls():
            c = callee(t)
            if c not in facts.fns or not c.startswith("marwood::vm::heap::"):
                continue
            al = lab.call_arg_labels(t, bb)
            tainted = [i + 1 for i, a in enumerate(al) if "v" in a]
            if not tainted:
                continue
            if not c.startswith(HEAP):
                weighers.add(c)
                continue
            if c in (HEAP + "put", HEAP + "maybe_put", HEAP + "alloc"):
                continue
            sub = weighed_fields(c, tainted, depth - 1, seen)
            for k_, v_ in sub.items():
                W.setdefault(k_, []).extend(v_)
        return W

    for nm in ("put", "maybe_put"):
        f = need(rep, rule, facts, HEAP + nm)
        if f is None:
            continue
        W = weighed_fields(HEAP + nm, [2])
        key = "%s|%s|weight-reaches-gate" % (rule, nm)
        hit = sorted(set(W) & gate_fields)
        (rep.ok if hit else rep.fail)(
            rule, key, "Heap::%s adds a number derived from the stored value to Heap.%s, which run_gc's gate reads" % (nm, ", ".join(hit)) if hit else
            "Heap::%s stores a value in a fresh cell without updating anything run_gc's gate reads (the gate reads Heap.{%s}; fields "
            "updated from the value: {%s}): a dead vector, string or saved stack of any size counts as one cell, and thousands of "
            "them are held before a collection is due" % (nm, ", ".join(sorted(gate_fields)), ", ".join(sorted(W))),
            [l for h in hit for l in W[h]] or [f.span])
    # (iii) per-kind weights
    n = 0
    for w in sorted(weighers):
        f = facts.fns[w]
        sws = [sw for sw in disc_switches(facts, f, "marwood::vm::vcell::VCell")]
        if not sws:
            continue
        sw = sws[0]
        for kind in SIZED_KINDS:
            n += 1
            key = "%s|%s|%s" % (rule, f.short.rsplit("::", 1)[-1], kind)
            region = arm_region(f, sw, kind)
            vals = []
            for bb, j, st in f.stmts():
                if bb in region and st["lhs"]["l"] == 0 and not st["lhs"]["p"]:
                    vals.append(f.origin(st["rv"]["a"]) if st["rv"]["k"] == "use" else ("rv", st))
            for bb, t in f.calls():
                if bb in region and t["dest"]["l"] == 0 and not t["dest"]["p"]:
                    vals.append(("call", t))
            ok = bool(vals) and not all(v[0] == "const" for v in vals)
            (rep.ok if ok else rep.fail)(
                rule, key, "a %s is weighed by a number taken from it" % kind if ok else
                "%s gives a %s no weight of its own (%s): dead objects of that kind, however large, do not bring a collection nearer" % (
                    f.short, kind, "the arm returns a constant" if vals else "it has no arm of its own"), [sw["term"]["loc"]])
    rep.floor(rule, "sized kinds weighed", n, len(SIZED_KINDS))



def r12v(ctx, rep, rule="R12v"):
    """a weighed kind is charged wherever the heap hands it on"""
    facts = ctx["facts"]
    rep.rule(rule, "a weight that is never added is no weight: Heap::maybe_put leaves numbers, booleans and the like where they "
             "are used — in an environment slot, a vector element, on the stack — instead of giving them a cell, and a bignum "
             "kept that way holds its digits all the same; (fact 30000) in an accumulator loop held 270 MB of dead "
             "products in one-cell environments. For every VCell kind that the weigher (R12p(iii)) gives a weight taken from the "
             "value, every way through Heap::put and Heap::maybe_put that keeps a value of that kind — stores it in a fresh cell "
             "(Heap::alloc) or returns the value itself — passes a statement that adds to the Heap field run_gc's gate reads.")
    gc = need(rep, rule, facts, RUN_GC)
    if gc is None:
        return
    gate_fields = set()
    for bb, t in gc.calls():
        if callee(t) in _gate_fns(facts):
            gate_fields |= _self_fields_read(facts, callee(t))
    # the weigher: the module-level helper of heap.rs that switches on a VCell and is called from put
    put = need(rep, rule, facts, HEAP + "put")
    if put is None:
        return
    weigher = None

    def find_weigher(f, depth):
        for bb, t in f.calls():
            c = callee(t) or ""
            if c not in facts.fns or not c.startswith("marwood::vm::heap::"):
                continue
            if not c.startswith(HEAP):
                if disc_switches(facts, facts.fns[c], "marwood::vm::vcell::VCell"):
                    return facts.fns[c]
            elif depth > 0 and c not in (HEAP + "put", HEAP + "maybe_put", HEAP + "alloc"):
                w = find_weigher(facts.fns[c], depth - 1)
                if w is not None:
                    return w
        return None
    weigher = find_weigher(put, 2)

    def writes_gate(path, depth=2):
        """does this Heap method add to a field the gate reads (itself, or through a Heap method it calls)?"""
        g = facts.fns.get(path)
        if g is None or not path.startswith(HEAP):
            return False
        for bb, j, st in g.stmts():
            lp = st["lhs"]
            if lp["l"] == 1 and len(lp["p"]) >= 2 and lp["p"][0] == "*" and isinstance(lp["p"][1], dict) and lp["p"][1].get("n") in gate_fields:
                return True
        if depth > 0:
            for bb, t in g.calls():
                c = callee(t) or ""
                if c.startswith(HEAP) and c not in (HEAP + "put", HEAP + "maybe_put", HEAP + "alloc", path) and writes_gate(c, depth - 1):
                    return True
        return False
    if weigher is None:
        rep.anchor_lost(rule, "the function Heap::put derives a stored value's weight with")
        return
    sw = disc_switches(facts, weigher, "marwood::vm::vcell::VCell")[0]
    kinds = []
    for kind in sorted(sw["arms"]):
        region = arm_region(weigher, sw, kind)
        vals = []
        for bb, j, st in weigher.stmts():
            if bb in region and st["lhs"]["l"] == 0 and not st["lhs"]["p"]:
                vals.append(weigher.origin(st["rv"]["a"]) if st["rv"]["k"] == "use" else ("rv", st))
        for bb, t in weigher.calls():
            if bb in region and t["dest"]["l"] == 0 and not t["dest"]["p"]:
                vals.append(("call", t))
        if vals and not all(v[0] == "const" for v in vals):
            kinds.append(kind)
    n = 0
    for nm in ("put", "maybe_put"):
        f = need(rep, rule, facts, HEAP + nm)
        if f is None:
            continue
        sws = disc_switches(facts, f, "marwood::vm::vcell::VCell")
        if not sws:
            rep.anchor_lost(rule, "the match on the value's kind in Heap::" + nm)
            continue
        fsw = sws[0]
        vl = fsw["place"]["l"]
        held = {vl}
        for bb, j, st in f.stmts():      # the local the value lives in, behind the reference the match looks through
            if st["lhs"]["l"] == vl and st["rv"]["k"] == "ref":
                held.add(st["rv"]["place"]["l"])
        charging = set()
        for bb, j, st in f.stmts():
            lp = st["lhs"]
            if lp["l"] == 1 and len(lp["p"]) >= 2 and lp["p"][0] == "*" and isinstance(lp["p"][1], dict) and lp["p"][1].get("n") in gate_fields:
                charging.add(bb)
        keeping = set()
        for bb, t in f.calls():
            if callee(t) == HEAP + "alloc":
                keeping.add(bb)
            elif (callee(t) or "").startswith(HEAP) and callee(t) not in (HEAP + "put", HEAP + "maybe_put") and writes_gate(callee(t)):
                charging.add(bb)
        for bb, j, st in f.stmts():
            if st["lhs"]["l"] == 0 and not st["lhs"]["p"] and st["rv"]["k"] == "use":
                pa = op_place(st["rv"]["a"])
                if pa is not None and pa["l"] in held and not [e for e in pa["p"] if e != "*"]:
                    keeping.add(bb)
        rets = set(f.return_blocks())

        def reach_avoiding(start, avoid):
            seen, st_ = set(), [start]
            while st_:
                x = st_.pop()
                if x in seen or x in avoid:
                    continue
                seen.add(x)
                st_.extend(f.succ[x])
            return seen
        for kind in kinds:
            n += 1
            tgt = fsw["arms"].get(kind, fsw["otherwise"])
            free_fwd = reach_avoiding(tgt, charging)
            bad = []
            for kb in sorted(keeping & f.reach_from(tgt) | ({tgt} & keeping)):
                if kb in charging:
                    continue
                if kb in free_fwd and (reach_avoiding(kb, charging) & rets):
                    bad.append(f.blocks[kb]["term"]["loc"])
            key = "%s|%s|%s" % (rule, nm, kind)
            (rep.ok if not bad else rep.fail)(
                rule, key, "Heap::%s charges a %s on every way that keeps it" % (nm, kind) if not bad else
                "Heap::%s keeps a %s (returns it as it is, or stores it) on a path that adds nothing to Heap.{%s}: the weight %s gives "
                "the kind never reaches run_gc's gate, and dead values of that kind held inline pile up unseen" % (
                    nm, kind, ", ".join(sorted(gate_fields)), weigher.short), bad)
    rep.floor(rule, "weighed kinds x (put, maybe_put)", n, 16)


def _r12_gate_fields(facts):
    gc = facts.fns.get(RUN_GC)
    out = set()
    if gc is not None:
        for bb, t in gc.calls():
            if callee(t) in _gate_fns(facts):
                out |= _self_fields_read(facts, callee(t))
    return out


def _r12_charging_blocks(facts, f, gate_fields, depth=2):
    """blocks of Heap method f that add to a field the gate reads: by a statement, or by calling a Heap method that does"""
    def writes_gate(path, d):
        g = facts.fns.get(path)
        if g is None or not path.startswith(HEAP):
            return False
        for bb, j, st in g.stmts():
            lp = st["lhs"]
            if lp["l"] == 1 and len(lp["p"]) >= 2 and lp["p"][0] == "*" and isinstance(lp["p"][1], dict) and lp["p"][1].get("n") in gate_fields:
                return True
        if d > 0:
            for bb, t in g.calls():
                c = callee(t) or ""
                if c.startswith(HEAP) and c not in (HEAP + "put", HEAP + "maybe_put", HEAP + "alloc", path) and writes_gate(c, d - 1):
                    return True
        return False
    out = set()
    for bb, j, st in f.stmts():
        lp = st["lhs"]
        if lp["l"] == 1 and len(lp["p"]) >= 2 and lp["p"][0] == "*" and isinstance(lp["p"][1], dict) and lp["p"][1].get("n") in gate_fields:
            out.add(bb)
    for bb, t in f.calls():
        c = callee(t) or ""
        if c.startswith(HEAP) and c not in (HEAP + "put", HEAP + "maybe_put", HEAP + "alloc") and writes_gate(c, depth):
            out.add(bb)
    return out


def _r12_weighed_kinds(facts):
    """(weigher fn, VCell kinds it weighs by a number taken from the value)"""
    put = facts.fns.get(HEAP + "put")
    if put is None:
        return None, []

    def find_weigher(f, depth):
        for bb, t in f.calls():
            c = callee(t) or ""
            if c not in facts.fns or not c.startswith("marwood::vm::heap::"):
                continue
            if not c.startswith(HEAP):
                if disc_switches(facts, facts.fns[c], "marwood::vm::vcell::VCell"):
                    return facts.fns[c]
            elif depth > 0 and c not in (HEAP + "put", HEAP + "maybe_put", HEAP + "alloc"):
                w = find_weigher(facts.fns[c], depth - 1)
                if w is not None:
                    return w
        return None
    weigher = find_weigher(put, 2)
    if weigher is None:
        return None, []
    sw = disc_switches(facts, weigher, "marwood::vm::vcell::VCell")[0]
    kinds = []
    for kind in sorted(sw["arms"]):
        region = arm_region(weigher, sw, kind)
        vals = []
        for bb, j, st in weigher.stmts():
            if bb in region and st["lhs"]["l"] == 0 and not st["lhs"]["p"]:
                vals.append(weigher.origin(st["rv"]["a"]) if st["rv"]["k"] == "use" else ("rv", st))
        for bb, t in weigher.calls():
            if bb in region and t["dest"]["l"] == 0 and not t["dest"]["p"]:
                vals.append(("call", t))
        if vals and not all(v[0] == "const" for v in vals):
            kinds.append(kind)
    return weigher, kinds


def r12w(ctx, rep, rule="R12w"):
    """a value of a weighed kind built inside the heap module is charged too"""
    facts = ctx["facts"]
    rep.rule(rule, "the heap module builds values itself: Heap::maybe_put_cell turns a datum into its stored form and leaves a number "
             "inline in the bytecode or the literal vector it belongs to, without going through Heap::put / maybe_put. For every "
             "VCell of a weighed kind (R12v) that a Heap method other than put / maybe_put constructs, the value is handed to "
             "put / maybe_put, or every way from its construction to the method's return passes a charge. Evaluating a 60 KB "
             "bignum literal 3000 times held 170 MB, 32 MB when the literal is quoted in a list.")
    gate_fields = _r12_gate_fields(facts)
    weigher, kinds = _r12_weighed_kinds(facts)
    if weigher is None or not gate_fields:
        rep.anchor_lost(rule, "the gate's fields / the weigher of Heap::put")
        return
    n = 0
    for path, f in sorted(facts.fns.items()):
        if not path.startswith(HEAP) or path in (HEAP + "put", HEAP + "maybe_put") or "{closure" in path:
            continue
        sites = []
        for bb, j, st in f.stmts():
            rv = st["rv"]
            if rv["k"] == "agg" and rv.get("adt") == "marwood::vm::vcell::VCell" and rv.get("variant") in kinds and not st["lhs"]["p"]:
                sites.append((bb, st))
        if not sites:
            continue
        charging = _r12_charging_blocks(facts, f, gate_fields)
        rets = set(f.return_blocks())
        for bb, st in sites:
            n += 1
            from .numeric import _forward_locals
            fl = _forward_locals(f, st["lhs"]["l"])
            handed = False
            for b2, t2 in f.calls():
                if callee(t2) in (HEAP + "put", HEAP + "maybe_put"):
                    for a in t2["args"][1:]:
                        pa = op_place(a)
                        if pa is not None and pa["l"] in fl and "&" not in (pa.get("ty") or ""):
                            handed = True
            ok = handed
            if not ok:
                seen, stack = set(), [bb]
                if bb in charging:
                    ok = True
                else:
                    while stack:
                        x = stack.pop()
                        if x in seen or (x in charging and x != bb):
                            continue
                        seen.add(x)
                        stack.extend(f.succ[x])
                    ok = not (seen & rets)
            key = "%s|%s|%s" % (rule, f.short.rsplit("::", 1)[-1], st["rv"]["variant"])
            (rep.ok if ok else rep.fail)(
                rule, key, "%s charges the %s it builds (or hands it to put)" % (f.short, st["rv"]["variant"]) if ok else
                "%s builds a %s and returns it without adding to Heap.{%s} and without going through Heap::put: the weight %s gives the "
                "kind is never counted for values that enter this way (literals in compiled code)" % (
                    f.short, st["rv"]["variant"], ", ".join(sorted(gate_fields)), weigher.short), [st["loc"]])
    rep.floor(rule, "VCell values of a weighed kind built by Heap methods", n, 1)


def r12x(ctx, rep, rule="R12x"):
    """handing a shared bignum on is not charged as if it were new"""
    facts = ctx["facts"]
    rep.rule(rule, "the gate counts memory, not traffic: the digits of a bignum live behind an Rc and are shared by every copy, so "
             "(vector-ref v 0) of a vector that holds a 1 MB bignum allocates nothing — yet Heap::maybe_put charged the full "
             "megabyte for every such result, and Heap::put for every (cons big i); the budget was used up every few instructions "
             "and each collection re-marked everything live: 100000 vector-refs took 36 s instead of 0.2 s. Where put / maybe_put "
             "(or the Heap method they charge through) add a value's weight, the sharing of a reference-counted payload is "
             "consulted (Rc::strong_count / Rc::get_mut / Rc::try_unwrap on it).")
    gate_fields = _r12_gate_fields(facts)
    scope = []
    for nm in ("put", "maybe_put"):
        f = need(rep, rule, facts, HEAP + nm)
        if f is None:
            return
        scope.append(f)
        for bb, t in f.calls():
            c = callee(t) or ""
            if c.startswith(HEAP) and c in facts.fns and c not in (HEAP + "put", HEAP + "maybe_put", HEAP + "alloc") and \
                    facts.fns[c] not in scope and _r12_charging_blocks(facts, facts.fns[c], gate_fields, depth=1):
                scope.append(facts.fns[c])
    hits = []
    for g in scope:
        for bb, t in g.calls():
            c = (callee(t) or "") + " " + (t.get("fnargs") or "")
            if re.search(r"\bRc::<[^>]*>::(strong_count|get_mut|try_unwrap)\b|\bRc<[^ ]*>::(strong_count|get_mut|try_unwrap)\b", c):
                hits.append(t["loc"])
    key = rule + "|put, maybe_put|shared-payload-not-recharged"
    (rep.ok if hits else rep.fail)(
        rule, key, "the charge consults the reference count of a shared payload (%d call%s in %s)" % (
            len(hits), "" if len(hits) == 1 else "s", ", ".join(sorted({g.short.rsplit("::", 1)[-1] for g in scope}))) if hits else
        "Heap::put / maybe_put add the full weight of a bignum whenever one passes through, also when its digits are shared with a "
        "live holder and nothing was allocated: reading a large bignum out of a vector in a loop makes a collection due every few "
        "instructions", hits or [scope[0].span])


def _field_names_used(f):
    """names of every field projection that occurs in f (statements and call arguments)"""
    out = set()

    def visit(p_):
        for e in (p_ or {}).get("p", []):
            if isinstance(e, dict) and "f" in e:
                out.add(e["n"])
    for bb, j_, st in f.stmts():
        visit(st["lhs"])
        for pr in places_read(st["rv"]):
            visit(pr)
    for bb, t in f.calls():
        for a in t["args"]:
            visit(op_place(a))
    return out


def _owning(ty):
    ty = ty or ""
    if re.match(r"^(for<[^>]*> )?(unsafe )?(extern \"[^\"]*\" )?fn\(", ty) or ty.startswith("&'static "):
        return False        # a function pointer or a static reference owns nothing
    return bool(re.search(r"Cell|Vec<|String|HashMap|EnvironmentMap|Rc<|Box<", ty))


def r12y(ctx, rep, rule="R12y"):
    """the weight of a macro covers everything its rules own"""
    facts = ctx["facts"]
    rep.rule(rule, "a macro's weight is the memory of its rules, not the number of their pairs: a transformer owns copies of its "
             "keyword, its ellipsis, its literals, and of every pattern and template — and every pattern keeps the ellipsis, the "
             "literals and its variables once more; a string or symbol among them is one cell however long. The function the "
             "weigher calls for a Macro (a) reads every field of Transform and of Pattern that owns memory (the two tables are "
             "taken from the type definitions) and (b) reaches a walk over cells that gives strings and symbols arms of their "
             "own. 1000 redefinitions of a macro whose template holds a 1 MB string kept 900 MB; of one with 20000 literals 2.5 "
             "GB; of one named by a 1 MB symbol 990 MB.")
    weigher, kinds = _r12_weighed_kinds(facts)
    if weigher is None:
        rep.anchor_lost(rule, "the weigher of Heap::put")
        return
    sw = disc_switches(facts, weigher, "marwood::vm::vcell::VCell")[0]
    region = arm_region(weigher, sw, "Macro")
    target = None
    for bb, t in weigher.calls():
        if bb in region and (callee(t) or "").startswith("marwood::vm::transform::") and callee(t) in facts.fns:
            target = facts.fns[callee(t)]
    if target is None:
        rep.fail(rule, rule + "|macro|weight-function", "the weigher has no arm for a Macro that calls into the transformer", [weigher.span])
        return
    used = _field_names_used(target)
    short = target.short.rsplit("::", 1)[-1]
    n = 0
    for adt in ("marwood::vm::transform::Transform", "marwood::vm::transform::Pattern"):
        a = facts.adts.get(adt)
        if a is None:
            rep.anchor_lost(rule, adt)
            continue
        for v in a["variants"]:
            for fld in v["fields"]:
                if not _owning(fld.get("ty")):
                    continue
                n += 1
                nm = fld["name"]
                key = "%s|%s|%s.%s" % (rule, short, adt.rsplit("::", 1)[-1], nm)
                (rep.ok if nm in used else rep.fail)(
                    rule, key, "%s reads %s.%s" % (target.short, adt.rsplit("::", 1)[-1], nm) if nm in used else
                    "%s never reads %s.%s (%s): what that field owns weighs nothing, so dead transformers that are large there pile "
                    "up unseen" % (target.short, adt.rsplit("::", 1)[-1], nm, fld.get("ty")), [target.span])
    rep.floor(rule, "memory-owning fields of Transform and Pattern", n, 10)
    armed = set()
    scope = [target] + [facts.fns[callee(t)] for bb, t in target.calls() if (callee(t) or "").startswith("marwood::cell::") and callee(t) in facts.fns]
    for g in scope:
        for csw in disc_switches(facts, g, "marwood::cell::Cell"):
            for v, tg in csw["arms"].items():
                if tg != csw["otherwise"]:
                    armed.add(v)
    for kind in ("String", "Symbol"):
        key = "%s|%s|%s" % (rule, short, kind)
        (rep.ok if kind in armed else rep.fail)(
            rule, key, "a %s in a rule is weighed by its own arm" % kind if kind in armed else
            "%s walks the cells of the rules without an arm for a %s: its text, however long, counts as one cell" % (target.short, kind),
            [target.span])


def r12z(ctx, rep, rule="R12z"):
    """the weight of a heap value covers every field of its type that owns memory"""
    from ..flow import fields_read_of_self
    facts = ctx["facts"]
    rep.rule(rule, "a heap value is one cell and a struct behind it: a procedure's code, formals, environment map and the datum it is "
             "described by (Lambda.desc_args, a Cell copy of the formals with a String per name); a continuation's saved stack; "
             "an environment's slots; a vector's elements. For every VCell variant whose payload is a reference-counted struct of "
             "this crate, the weigher's arm for the variant reads every field of the struct that owns memory — directly or "
             "through a method of the struct that reads it (the table is the type definition, not a list of remembered "
             "fields). 1000 evaluations of (lambda (<1 MB symbol>) 1) held 990 MB for 3 MB of live data while desc_args was "
             "not read. (A macro's Transform and Pattern are R12y's.)")
    weigher, kinds = _r12_weighed_kinds(facts)
    if weigher is None:
        rep.anchor_lost(rule, "the weigher of Heap::put")
        return
    sw = disc_switches(facts, weigher, "marwood::vm::vcell::VCell")[0]
    vc = facts.adts.get("marwood::vm::vcell::VCell")
    n = 0
    for v in vc["variants"]:
        if not v["fields"]:
            continue
        m = re.match(r"^std::rc::Rc<(marwood::[A-Za-z_:]+)>$", v["fields"][0].get("ty") or "")
        if not m or m.group(1) not in facts.adts or m.group(1) == "marwood::vm::transform::Transform":
            continue
        adt_path = m.group(1)
        adt = facts.adts[adt_path]
        own = [fld for vv in adt["variants"] for fld in vv["fields"] if _owning(fld.get("ty")) or
               ((fld.get("ty") or "").startswith("marwood::") and (fld.get("ty") or "") in facts.adts)]
        if not own:
            continue
        region = arm_region(weigher, sw, v["name"])
        used = set()

        def visit(p_):
            for e in (p_ or {}).get("p", []):
                if isinstance(e, dict) and "f" in e:
                    used.add(e["n"])
        for bb, j_, st in weigher.stmts():
            if bb in region:
                for pr in places_read(st["rv"]):
                    visit(pr)
        for bb, t in weigher.calls():
            if bb in region:
                for a_ in t["args"]:
                    visit(op_place(a_))
                c = callee(t) or ""
                if c.startswith(adt_path + "::") and c in facts.fns:
                    used |= set(fields_read_of_self(facts.fns[c]))
        for fld in own:
            n += 1
            nm = fld["name"]
            tname = adt_path.rsplit("::", 1)[-1]
            key = "%s|%s|%s.%s" % (rule, weigher.short.rsplit("::", 1)[-1], tname, nm)
            ok = bool(region) and nm in used
            (rep.ok if ok else rep.fail)(
                rule, key, "the weigher's %s arm reads %s.%s" % (v["name"], tname, nm) if ok else
                "%s never reads %s.%s (%s) in its arm for a %s%s: what the value owns there weighs nothing, so dead values that are "
                "large in that field pile up unseen" % (weigher.short, tname, nm, fld.get("ty"), v["name"],
                                                        "" if region else " (it has no arm of its own)"), [sw["term"]["loc"]])
    rep.floor(rule, "memory-owning fields of the structs behind heap values", n, 7)


def r12o(ctx, rep, rule="R12o"):
    """a stack trace shares what its frames describe"""
    facts = ctx["facts"]
    rep.rule(rule, "what a failed evaluation leaves behind is one trace, and the trace is held until the next evaluation: it has one "
             "frame per saved instruction pointer, so whatever a frame owns is multiplied by the depth of the failure. A frame "
             "describes its procedure by the procedure's formals; copying that datum into every frame (Cell::clone is a deep "
             "copy) makes a failure at depth 10^5 in a procedure with a 10 KB formal name hold 1 GB after the evaluation has "
             "ended. Inside the loops of StackTrace::new no Cell (or Option<Cell>) is cloned: what a frame needs of its "
             "procedure it shares (a reference-counted handle).")
    f = need(rep, rule, facts, "marwood::vm::trace::StackTrace::new")
    if f is None:
        return
    body = set()
    for src, h in f.back_edges():
        body |= (f.reach_from(h) & f.reach_back(src)) | {h, src}
    if not body:
        rep.anchor_lost(rule, "the loop over the stack in StackTrace::new")
        return
    bad = []
    n = 0
    for bb, t in f.calls():
        if bb not in body:
            continue
        fa = t.get("fnargs") or ""
        if fa.endswith("as std::clone::Clone>::clone"):
            n += 1
            if re.search(r"^<(std::option::Option<)?marwood::cell::Cell>? as std::clone::Clone>::clone$", fa):
                bad.append(t["loc"])
    key = rule + "|StackTrace::new|frames-share-description"
    (rep.ok if not bad else rep.fail)(
        rule, key, "no frame of a stack trace owns a deep copy of a datum (%d clone%s in the loop, none of a Cell)" % (n, "" if n == 1 else "s") if not bad else
        "StackTrace::new deep-copies a Cell into every frame: the trace of a failure at depth n holds n copies of the procedure's "
        "formals until the next evaluation", bad)
    frames = len([1 for bb, j, st in f.stmts() if bb in body and st["rv"]["k"] == "agg" and
                  (st["rv"].get("adt") or "").endswith("trace::StackFrame")])
    rep.floor(rule, "frames built inside the loop of StackTrace::new", frames, 1)


def _gate_every_instruction(facts):
    """does a call of run_gc, or of one of the Heap queries its gate uses, dominate run_one inside run_count's dispatch loop?"""
    f = facts.fns.get(RUN_COUNT)
    if f is None:
        return False
    gate = _gate_fns(facts)
    ones = [bb for bb, t in f.calls() if callee(t) == RUN_ONE]
    if not ones:
        return False
    loops = [(h, (f.reach_from(h) & f.reach_back(src)) | {h, src}) for src, h in f.back_edges()]
    body = set().union(*[b for h, b in loops if ones[0] in b]) if loops else set()
    checks = [bb for bb, t in f.calls() if bb in body and (callee(t) == RUN_GC or callee(t) in gate)]
    return any(f.dominates(c, ones[0]) and c != ones[0] for c in checks)


def r12q(ctx, rep, rule="R12q"):
    """the gate is consulted between any two instructions"""
    facts = ctx["facts"]
    rep.rule(rule, "no instruction runs unwatched: a single instruction can allocate without bound (make-vector, make-string, "
             "call/cc, vector->list), so the dispatch loop of run_count consults the collector before every instruction — a call "
             "of run_gc, or of one of the Heap queries run_gc's own gate uses, dominates the run_one call inside the loop. A check "
             "made only every N cycles lets N such allocations through whatever the gate would have said.")
    f = need(rep, rule, facts, RUN_COUNT)
    gc = need(rep, rule, facts, RUN_GC)
    if f is None or gc is None:
        return
    marks = [bb for bb, t in gc.calls() if (callee(t) or "").startswith(HEAP + "mark") or callee(t) == HEAP + "sweep"]
    gate = {callee(t) for bb, t in gc.calls() if (callee(t) or "").startswith(HEAP) and not any(gc.dominates(m, bb) for m in marks)
            and not (callee(t) or "").startswith(HEAP + "mark")}
    ones = [bb for bb, t in f.calls() if callee(t) == RUN_ONE]
    if not ones:
        rep.anchor_lost(rule, "run_one call in run_count")
        return
    loops = [(h, (f.reach_from(h) & f.reach_back(src)) | {h, src}) for src, h in f.back_edges()]
    body = set().union(*[b for h, b in loops if ones[0] in b]) if loops else set()
    if not body:
        rep.anchor_lost(rule, "dispatch loop of run_count")
        return
    ok = _gate_every_instruction(facts)
    key = rule + "|run_count|gate-before-every-instruction"
    (rep.ok if ok else rep.fail)(
        rule, key, "the dispatch loop consults the collection gate before every run_one" if ok else
        "in run_count no call of run_gc or of its gate (%s) dominates run_one inside the dispatch loop: the collector is consulted "
        "only on some cycles, and every allocation made in between is held whatever its size" % ", ".join(sorted(short_path(g) for g in gate)),
        [f.blocks[ones[0]]["term"]["loc"]])


def r12r(ctx, rep, rule="R12r"):
    """every way out of prepare_eval is a collection point"""
    facts = ctx["facts"]
    rep.rule(rule, "preparing is allocating: prepare_eval expands macros and compiles, which allocates cells, whether or not the "
             "procedure it installs is ever run. Every return of prepare_eval — the success return included — is therefore reached "
             "only through a call of run_gc; an embedder that prepares evaluations and abandons them (the sliced API allows it) "
             "otherwise grows the heap by one compiled program per call with nothing live.")
    f = need(rep, rule, facts, PREPARE)
    if f is None:
        return
    gcs = {bb for bb, t in f.calls() if callee(t) == RUN_GC}
    rets = [bb for bb in f.return_blocks() if bb in f.reachable()]
    comp = [t for bb, t in f.calls() if (callee(t) or "").endswith("compile_runnable")]
    if not comp or comp[0].get("target") is None or not rets:
        rep.anchor_lost(rule, "compile_runnable call / return of prepare_eval")
        return
    free = f.reach_from(comp[0]["target"], avoid=gcs)
    bad = [b for b in rets if b in free]
    key = rule + "|prepare_eval|collects-on-every-exit"
    if not bad:
        rep.ok(rule, key, "every path from the compilation to a return of prepare_eval passes run_gc", [f.span])
    else:
        # name the kind of exit: does the path write ip (success) ?
        rep.fail(rule, key, "prepare_eval can return after compiling without passing a collection point: what macro expansion and "
                 "compilation allocated for an evaluation that is then never run is not reclaimed, and a sequence of such calls grows "
                 "the heap without bound while nothing is live", [f.blocks[b]["term"].get("loc") or f.span for b in bad][:2] or [f.span])


def r07j(ctx, rep, rule="R07j"):
    """a failed evaluation cannot be resumed"""
    facts = ctx["facts"]
    rep.rule(rule, "abandoned means not resumable (must-pass-through): run() and run_count() execute whatever %ip names, without "
             "preparing anything. Every path in run_count from the Err edge of run_one's result to the return therefore passes a "
             "write of the instruction pointer; otherwise %ip is left just behind the failing instruction, and a further run() — "
             "the wasm front end exports it as eval_continue — carries on with the rest of the failed program on an empty stack, "
             "performing effects the failed evaluation never completed.")
    fn = need(rep, rule, facts, RUN_COUNT)
    if fn is None:
        return
    ea = _err_arm(fn)
    if ea is None:
        rep.anchor_lost(rule, "match on run_one's result in run_count")
        return
    swb, tgt = ea
    parking = set()
    for bb, j, st in fn.stmts():
        l = st["lhs"]
        if l["l"] == 1 and [e.get("n") for e in l["p"] if isinstance(e, dict)][:1] == ["ip"]:
            parking.add(bb)
    region = fn.reach_from(tgt, avoid=parking)
    escaping = [r for r in fn.return_blocks() if r in region]
    key = "%s|run_count|err-exit-parks-ip" % rule
    if escaping:
        rep.fail(rule, key, "run_count returns from the error arm with %ip still inside the failed program: a run() that follows "
                 "resumes it after the failing instruction", [fn.blocks[tgt]["term"].get("loc") or fn.span])
    else:
        rep.ok(rule, key, "every path from the error arm to the return moves %ip off the failed program", [fn.span])


def r12s(ctx, rep, rule="R12s"):
    """a root table that programs can add to must have a way to lose entries"""
    from .. import shapes
    facts, cg = ctx["facts"], ctx["cg"]
    rep.rule(rule, "what only grows is not bounded by live data: every key of GlobalEnvironment.bindings is a root of run_gc "
             "(iter_bindings) and owns a slot, and compiled code — including code compiled by eval at run time, for symbols made "
             "by string->symbol — adds a key for every global name it mentions, bound or not. A table that programs can add to "
             "without limit needs a removal path the collector reaches: some function removes entries from `bindings` "
             "(remove / retain / clear) and is reachable from run_gc. Without one a loop that evals code over fresh names keeps "
             "a symbol, a binding and a slot per name for the rest of the VM's life.")
    GE = "marwood::vm::environment::GlobalEnvironment::"
    adders, removers = [], []
    for p, f in sorted(facts.fns.items()):
        if not p.startswith(GE) or "{closure" in p:
            continue
        for bb, t in f.calls():
            c = callee(t) or ""
            if "HashMap::<K, V, S, A>::" not in c or not t["args"] or "bindings" not in shapes.shape(f, t["args"][0], 3):
                continue
            if c.endswith("::insert"):
                adders.append(p)
            elif c.endswith(("::remove", "::retain", "::clear", "::remove_entry", "::drain", "::extract_if")):
                removers.append(p)
    if not adders:
        rep.anchor_lost(rule, "no function of GlobalEnvironment inserts into `bindings`")
        return
    gc_reach = cg.reachable_from([RUN_GC])
    live = sorted(set(r for r in removers if r in gc_reach))
    key = rule + "|GlobalEnvironment.bindings|removal-path"
    if live:
        rep.ok(rule, key, "bindings lose entries through %s, reachable from run_gc" % ", ".join(short_path(r) for r in live))
    else:
        f = facts.fns[sorted(set(adders))[0]]
        rep.fail(rule, key, "GlobalEnvironment.bindings is added to by %s and nothing %s removes from it: every global name "
                 "ever mentioned by compiled code stays a root, with its slot, for the rest of the VM's life" % (
                     ", ".join(short_path(a) for a in sorted(set(adders))),
                     "reachable from run_gc" if removers else "anywhere"), [f.span])


def r06h(ctx, rep, rule="R06h"):
    """a collection that frees next to nothing is not repeated at once"""
    from .. import shapes
    from fractions import Fraction
    facts = ctx["facts"]
    rep.rule(rule, "collecting is amortised: the dispatch loop runs a collection whenever one is due (R12q), so what a collection leaves "
             "behind decides when the next one comes. If the heap grows only at the occupancy that makes a collection due, a live "
             "set just below it (74.9%% of the cells) is collected again after a handful of allocations, each collection marking "
             "all of it: 20000 conses took 148 s. The occupancy at which run_gc grows the heap after the sweep is therefore "
             "strictly below the occupancy at which its gate opens (used * A >= capacity * B with a smaller B / A).")
    gc = need(rep, rule, facts, RUN_GC)
    gate = sorted(_gate_fns(facts))
    if gc is None or len(gate) != 1:
        if gc is not None:
            rep.anchor_lost(rule, "a single gate predicate in front of run_gc")
        return
    gf = facts.fns[gate[0]]
    norm = lambda sh: re.sub(r"\ba1\.heap\b", "a1", sh)

    def ratio(sh):
        m = re.fullmatch(r"\((Ge|Gt) (?:\(Mul )?[A-Za-z0-9_:<>]*used_size\(a1\)(?: c:(\d+)\)\.0)? (?:\(Mul )?[A-Za-z0-9_:<>]*capacity\(a1\)(?: c:(\d+)\)\.0)?\)", sh)
        return Fraction(int(m.group(3) or 1), int(m.group(2) or 1)) if m else None
    conds = set()
    for bb, b in enumerate(gf.blocks):
        t = b["term"]
        if t["k"] == "switch" and not b.get("cleanup"):
            conds.add(norm(shapes.shape(gf, t["op"], 5)))
    for bb, j, st in gf.stmts():
        if st["rv"]["k"] == "bin" and st["rv"]["op"] in ("Ge", "Gt"):
            conds.add(norm("(%s %s %s)" % (st["rv"]["op"], shapes.shape(gf, st["rv"]["a"], 4), shapes.shape(gf, st["rv"]["b"], 4))))
    # sub-predicates of the gate (a `crowded()` helper)
    for bb, t in gf.calls():
        c = callee(t)
        if c in facts.fns and c.startswith(HEAP):
            h = facts.fns[c]
            for b2, j2, st2 in h.stmts():
                if st2["rv"]["k"] == "bin" and st2["rv"]["op"] in ("Ge", "Gt"):
                    conds.add(norm("(%s %s %s)" % (st2["rv"]["op"], shapes.shape(h, st2["rv"]["a"], 4), shapes.shape(h, st2["rv"]["b"], 4))))
    gate_r = [r for r in (ratio(c) for c in conds) if r is not None]
    grow_r = []
    for bb, t in gc.calls():
        if callee(t) == HEAP + "grow":
            for g in shapes.guard_shapes(gc, bb, None, 5):
                if g.endswith("=T"):
                    r = ratio(norm(g[:-2]))
                    if r is not None:
                        grow_r.append(r)
                    m = re.match(r"([A-Za-z0-9_:<>]+)\(a1(?:\.heap)?\)$", g[:-2])
                    if m:
                        for c2, h in facts.fns.items():
                            if short_path(c2) == m.group(1) and c2 != gate[0]:      # the gate itself dominates the whole collection
                                for b2, j2, st2 in h.stmts():
                                    if st2["rv"]["k"] == "bin" and st2["rv"]["op"] in ("Ge", "Gt"):
                                        r2 = ratio(norm("(%s %s %s)" % (st2["rv"]["op"], shapes.shape(h, st2["rv"]["a"], 4), shapes.shape(h, st2["rv"]["b"], 4))))
                                        if r2 is not None:
                                            grow_r.append(r2)
    key = rule + "|run_gc|growth-below-gate"
    if not gate_r or not grow_r:
        rep.anchor_lost(rule, "occupancy comparisons of the gate (%d) and of the growth decision (%d) in the form used * A >= capacity * B" % (len(gate_r), len(grow_r)))
        return
    ok = max(grow_r) < min(gate_r)
    (rep.ok if ok else rep.fail)(
        rule, key, "run_gc grows the heap from %s occupancy, the gate opens at %s" % (max(grow_r), min(gate_r)) if ok else
        "run_gc grows the heap only from %s occupancy while a collection is due from %s: a live set just below that is collected "
        "over and over, every few allocations, and each collection marks all of it" % (max(grow_r), min(gate_r)), [gc.span])
