"""R01b / R07c — builtin frame consumption ("all builtins must pop the argc value along with argc arguments").

Per registered builtin and per concrete arity n admitted by its pop_argc(min, max) call, the CFG is explored with
conditional constant propagation of everything derived from argc (comparisons with constants, `0..argc - c` loops);
branches on other data are explored both ways.  Every path that returns Ok must have popped exactly n + 1 stack slots
(the arguments and the argument count).  The three re-dispatching builtins (apply, eval, call/cc) follow their own
protocol (R04c / R05b) and are excluded.  No code of /repo is executed: this is an abstract interpretation over MIR.
"""
from ..facts import callee, op_const, op_place, short_path
from .common import *

POP_ARGC = "marwood::vm::builtin::pop_argc"
POPPERS = {STACK + "pop", RUN + "pop"} | {"marwood::vm::builtin::" + n for n in (
    "pop_number", "pop_integer", "pop_usize", "pop_char", "pop_string", "pop_symbol", "pop_index", "pop_vector")}
PUSH = STACK + "push"
REDISPATCH = {"marwood::vm::builtin::procedure::apply", "marwood::vm::builtin::procedure::eval",
              "marwood::vm::builtin::procedure::call_cc"}
MAX_STATES = 6000


class Unknown(Exception):
    pass


def popper_summaries(facts, rep, rule):
    """each typed popper must pop exactly one slot on every path (one Stack::pop/Vm::pop/pop_number call that
    dominates every return)"""
    ok = set()
    for p in sorted(POPPERS):
        f = facts.fn(p)
        if f is None:
            if p not in (STACK + "pop",):
                rep.anchor_lost(rule, "popper %s" % p)
            continue
        if p == STACK + "pop":
            ok.add(p)
            continue
        calls = [(bb, callee(t)) for bb, t in f.calls() if callee(t) in POPPERS]
        if len(calls) == 1 and all(f.dominates(calls[0][0], r) for r in f.return_blocks()):
            ok.add(p)
            rep.ok(rule, "%s|popper|%s" % (rule, short_path(p)), "%s pops exactly one slot on every path" % short_path(p), [f.span], nontrivial=False)
        else:
            rep.fail(rule, "%s|popper|%s" % (rule, short_path(p)), "%s does not pop exactly one slot on every path (%d pop call(s)): "
                     "every builtin using it consumes the wrong number of arguments" % (short_path(p), len(calls)), [f.span])
    return ok


class Interp:
    def __init__(self, facts, n):
        self.facts = facts
        self.n = n
        self.states = 0

    def run(self, f, argenv, depth=0):
        """explore f; returns set of outcomes (pops, pushes, kind) with kind in ok/err/unknown"""
        outcomes = set()
        seen = set()
        # state: (bb, pops, pushes, env(tuple sorted), ranges(tuple sorted), marks(tuple sorted))
        start = (0, 0, 0, tuple(sorted(argenv.items(), key=repr)), (), ())
        work = [start]
        while work:
            st = work.pop()
            if st in seen:
                continue
            seen.add(st)
            self.states += 1
            if self.states > MAX_STATES:
                raise Unknown("state budget exceeded")
            bb, pops, pushes, env_t, rng_t, mk_t = st
            env, rng, mk = dict(env_t), dict(rng_t), dict(mk_t)
            b = f.blocks[bb]
            retkind = None
            for s in b["stmts"]:
                self.stmt(f, s, env, rng, mk)
            t = b["term"]
            k = t["k"]
            nxt = []
            if k == "return":
                outcomes.add((pops, pushes, mk.get(0, ("kind", "unknown"))[1] if mk.get(0, ("", ""))[0] == "kind" else "unknown"))
                continue
            if k in ("goto", "drop", "assert"):
                nxt = [(t["target"], pops, pushes)]
            elif k == "switch":
                v = self.value(f, t["op"], env, mk)
                if v is not None:
                    tg = None
                    for val, target in t["targets"]:
                        if val == v:
                            tg = target
                    nxt = [(tg if tg is not None else t["otherwise"], pops, pushes)]
                else:
                    nxt = [(x, pops, pushes) for x in dict.fromkeys([tg for _, tg in t["targets"]] + [t["otherwise"]])]
            elif k == "call":
                if t.get("target") is None:
                    continue      # diverges (panic): not an Ok path
                c = callee(t) or ""
                dest = t["dest"]["l"] if not t["dest"]["p"] else None
                for d in ([dest] if dest is not None else []):
                    env.pop(d, None)
                    rng.pop(d, None)
                    mk.pop(d, None)
                if c == POP_ARGC:
                    pops += 1
                    if dest is not None:
                        mk[dest] = ("ok", self.n)
                    # arity outside [min, max] returns Err: model by checking the constants
                    mn = self.value(f, t["args"][1], env, mk)
                    mx = self.optval(f, t["args"][2])
                    if mn is not None and self.n < mn:
                        continue
                    if mx is not None and mx != "none" and self.n > mx:
                        continue
                elif c in POPPERS:
                    pops += 1
                elif c == PUSH:
                    pushes += 1
                elif c.endswith("as std::ops::Try>::branch") or (t.get("fnargs") or "").endswith("as std::ops::Try>::branch"):
                    a = op_place(t["args"][0])
                    if a is not None and not a["p"] and a["l"] in mk and mk[a["l"]][0] == "ok" and dest is not None:
                        mk[dest] = ("continue", mk[a["l"]][1])
                elif c.endswith("::from_residual"):
                    if dest is not None:
                        mk[dest] = ("kind", "err")
                elif c.endswith("range::<impl std::iter::Iterator for std::ops::Range<A>>::next") or \
                        (c.endswith("Iterator>::next") and "Range" in (t.get("fnargs") or "")):
                    r = self.range_root(f, t["args"][0])
                    if r is not None and r in rng and dest is not None:
                        cur, end = rng[r]
                        if cur < end:
                            mk[dest] = ("some", cur)
                            rng[r] = (cur + 1, end)
                        else:
                            mk[dest] = ("none", 0)
                elif c.endswith("::into_iter") or c.endswith("Iterator::rev") or c.endswith("::rev"):
                    a = op_place(t["args"][0]) if t["args"] else None
                    if a is not None and not a["p"] and a["l"] in rng and dest is not None:
                        rng[dest] = rng[a["l"]]
                elif c in self.facts.fns and depth < 3 and self.takes_vm(self.facts.fns[c]):
                    g = self.facts.fns[c]
                    aenv = {}
                    for i, a in enumerate(t["args"]):
                        v = self.value(f, a, env, mk)
                        if v is not None:
                            aenv[i + 1] = v
                    sub = self.run(g, aenv, depth + 1)
                    for (p2, q2, kind) in sub:
                        m2 = dict(mk)
                        if dest is not None:
                            if dest == 0:
                                m2[0] = ("kind", kind)
                            elif kind == "ok":
                                m2[dest] = ("okres", 0)
                            elif kind == "err":
                                m2[dest] = ("errres", 0)
                        work.append((t["target"], pops + p2, pushes + q2, tuple(sorted(env.items(), key=repr)), tuple(sorted(rng.items())), tuple(sorted(m2.items()))))
                    continue
                if dest == 0 and 0 not in mk:
                    mk[0] = ("kind", "unknown")
                nxt = [(t["target"], pops, pushes)]
            else:
                continue
            for tg, p2, q2 in nxt:
                work.append((tg, p2, q2, tuple(sorted(env.items(), key=repr)), tuple(sorted(rng.items())), tuple(sorted(mk.items()))))
        return outcomes

    @staticmethod
    def takes_vm(g):
        return any(t == "&mut marwood::vm::Vm" for t in g.locals[1:g.argc + 1])

    def range_root(self, f, op):
        p = op_place(op)
        for _ in range(6):
            if p is None:
                return None
            sd = f.single_def(p["l"])
            if sd and sd[2] == "assign" and sd[3]["rv"]["k"] == "ref":
                p = sd[3]["rv"]["place"]
                if not [e for e in p["p"] if e != "*"]:
                    # &mut *x  or &mut x
                    base = p["l"]
                    sd2 = f.single_def(base)
                    if sd2 and sd2[2] == "assign" and sd2[3]["rv"]["k"] == "ref":
                        p = sd2[3]["rv"]["place"]
                        continue
                    return base
                return None
            return p["l"]
        return None

    def optval(self, f, op):
        o = f.origin(op)
        if o[0] == "rv" and o[1]["rv"]["k"] == "agg":
            if o[1]["rv"].get("variant") == "None":
                return "none"
            if o[1]["rv"].get("variant") == "Some":
                c = op_const(o[1]["rv"]["ops"][0])
                return c.get("int") if c else None
        if o[0] == "arg" or o[0] == "local":
            return None
        return None

    def value(self, f, op, env, mk):
        c = op_const(op)
        if c is not None:
            return c.get("int")
        p = op_place(op)
        if p is None:
            return None
        pr = [e for e in p["p"] if e != "*"]
        l = p["l"]
        if not pr:
            return env.get(l)
        names = [(e.get("dc") or e.get("n")) if isinstance(e, dict) else None for e in pr]
        m = mk.get(l)
        if m is not None:
            if m[0] == "continue" and names[:2] == ["Continue", "0"] and len(names) == 2:
                return m[1]
            if m[0] == "ok" and names[:2] == ["Ok", "0"] and len(names) == 2:
                return m[1]
            if m[0] == "some" and names[:2] == ["Some", "0"] and len(names) == 2:
                return m[1]
        if len(names) == 1 and names[0] in ("0", "1") and ("tuple", l) in env:
            return env[("tuple", l)][int(names[0])]
        return None

    def stmt(self, f, s, env, rng, mk):
        lhs = s["lhs"]
        rv = s["rv"]
        if lhs["p"]:
            # writes through projections: forget the base unless it is a reference write
            if lhs["p"][0] != "*":
                env.pop(lhs["l"], None)
                env.pop(("tuple", lhs["l"]), None)
            return
        l = lhs["l"]
        env.pop(l, None)
        env.pop(("tuple", l), None)
        rng.pop(l, None)
        old_mark = mk.pop(l, None)
        k = rv["k"]
        if k == "use":
            v = self.value(f, rv["a"], env, mk)
            if v is not None:
                env[l] = v
            p = op_place(rv["a"])
            if p is not None and not p["p"]:
                if p["l"] in rng:
                    rng[l] = rng[p["l"]]
                if p["l"] in mk:
                    mk[l] = mk[p["l"]]
        elif k == "cast":
            v = self.value(f, rv["a"], env, mk)
            if v is not None and rv["ck"] == "IntToInt":
                env[l] = v
        elif k == "bin":
            a, b = self.value(f, rv["a"], env, mk), self.value(f, rv["b"], env, mk)
            op = rv["op"]
            if a is not None and b is not None:
                base = op.replace("WithOverflow", "")
                r = None
                if base == "Add":
                    r = a + b
                elif base == "Sub":
                    r = a - b
                elif base == "Mul":
                    r = a * b
                elif base == "Eq":
                    r = int(a == b)
                elif base == "Ne":
                    r = int(a != b)
                elif base == "Lt":
                    r = int(a < b)
                elif base == "Le":
                    r = int(a <= b)
                elif base == "Gt":
                    r = int(a > b)
                elif base == "Ge":
                    r = int(a >= b)
                if r is not None:
                    if op.endswith("WithOverflow"):
                        env[("tuple", l)] = (r, 0 if r >= 0 else 1)
                    else:
                        env[l] = r
        elif k == "un":
            a = self.value(f, rv["a"], env, mk)
            if a is not None and rv["op"] == "Not":
                env[l] = int(not a)
        elif k == "disc":
            p = rv["place"]
            m = mk.get(p["l"]) if not [e for e in p["p"] if e != "*"] else None
            if m is not None:
                if m[0] == "continue":
                    env[l] = 0
                elif m[0] == "some":
                    env[l] = 1
                elif m[0] == "none":
                    env[l] = 0
                elif m[0] == "ok" or m[0] == "okres":
                    env[l] = 0
                elif m[0] == "errres":
                    env[l] = 1
        elif k == "agg":
            adt = rv.get("adt", "")
            if adt.endswith("ops::Range") and len(rv["ops"]) == 2:
                a, b = self.value(f, rv["ops"][0], env, mk), self.value(f, rv["ops"][1], env, mk)
                if a is not None and b is not None:
                    rng[l] = (a, b)
            if l == 0 and rv.get("variant") in ("Ok", "Err") and adt.endswith("result::Result"):
                mk[0] = ("kind", "ok" if rv["variant"] == "Ok" else "err")


def arity_of(facts, f, depth=0):
    """(min, max or None) from the pop_argc call of f or of the helper it delegates to"""
    for bb, t in f.calls():
        if callee(t) == POP_ARGC:
            mn = op_const(t["args"][1])
            o = f.origin(t["args"][2])
            mx = None
            if o[0] == "rv" and o[1]["rv"]["k"] == "agg" and o[1]["rv"].get("variant") == "Some":
                c = op_const(o[1]["rv"]["ops"][0])
                mx = c.get("int") if c else None
                if mx is None:
                    return None
            elif not (o[0] == "rv" and o[1]["rv"]["k"] == "agg" and o[1]["rv"].get("variant") == "None"):
                return None
            if mn is None:
                return None
            return mn["int"], mx
    if depth < 2:
        for bb, t in f.calls():
            c = callee(t)
            if c in facts.fns and Interp.takes_vm(facts.fns[c]) and c not in POPPERS:
                r = arity_of(facts, facts.fns[c], depth + 1)
                if r is not None:
                    return r
    return None


def r01b(ctx, rep, rule="R01b"):
    facts, cg = ctx["facts"], ctx["cg"]
    rep.rule(rule, "builtin frame consumption: for every registered builtin and every concrete arity n admitted by its "
             "pop_argc(min, max) (min..max, or min..min+3 for variadic ones), exploring the CFG with constant propagation "
             "of everything derived from the argument count (`argc == k` tests, `0..argc - c` loops; other branches both "
             "ways), every path returning Ok pops exactly n + 1 stack slots. A missing, duplicated or misplaced pop, an "
             "arity constant changed on one side only or a loop bound off by one leaves the caller's frame unbalanced and "
             "corrupts later frames. apply / eval / call/cc re-dispatch and are checked by R04c / R05b instead.")
    ok_poppers = popper_summaries(facts, rep, rule)
    n_builtins = 0
    n_cases = 0
    for p in sorted(cg.registry):
        if p in REDISPATCH:
            continue
        f = facts.fns[p]
        ar = arity_of(facts, f)
        key0 = "%s|%s" % (rule, short_path(p).replace("vm::builtin::", ""))
        if ar is None:
            rep.fail(rule, key0 + "|arity", "%s: no pop_argc(min, max) with constant bounds found (directly or in the helper it "
                     "delegates to): the argument count is not consumed/validated in the recognised way" % short_path(p), [f.span])
            continue
        n_builtins += 1
        mn, mx = ar
        arities = list(range(mn, mx + 1)) if mx is not None else list(range(mn, mn + 4))
        bad = []
        unknown = None
        for n in arities:
            it = Interp(facts, n)
            try:
                outs = it.run(f, {})
            except Unknown as e:
                unknown = str(e)
                break
            n_cases += 1
            oks = [(a, b) for a, b, kind in outs if kind == "ok"]
            unk = [(a, b) for a, b, kind in outs if kind == "unknown"]
            if not oks and not unk:
                continue      # a builtin that never returns Ok (e.g. `error`) has nothing to balance: the machine is reset
            for a, b in sorted(set(oks + unk)):
                if a - b != n + 1:
                    bad.append("arity %d: an Ok path pops %d slot(s)%s, expected %d" % (
                        n, a, (" and pushes %d" % b) if b else "", n + 1))
        if unknown:
            rep.fail(rule, key0 + "|explored", "%s: exploration gave up (%s); pop balance not established" % (short_path(p), unknown), [f.span])
        elif bad:
            rep.fail(rule, key0, "%s (arity %s..%s): %s — the stack is left unbalanced for the caller" % (
                short_path(p), mn, mx if mx is not None else "*", "; ".join(sorted(set(bad))[:4])), [f.span])
        else:
            rep.ok(rule, key0, "%s consumes exactly its frame for arities %s" % (short_path(p), arities), [f.span])
    rep.floor(rule, "registered builtins with a recognised arity", n_builtins, 130)
    rep.note("%s: %d builtin/arity cases explored" % (rule, n_cases))


def scheme_registry(facts):
    """Scheme name -> path of the registered builtin (from the load_builtin(name, fn) calls)"""
    out = {}
    for p, f in facts.fns.items():
        for bb, t in f.calls():
            if (callee(t) or "").endswith("load_builtin") and len(t["args"]) >= 3:
                c = op_const(t["args"][1])
                o = f.origin(t["args"][2])
                tgt = None
                if o[0] == "rv" and o[1]["rv"]["k"] == "cast":
                    cc = op_const(o[1]["rv"]["a"])
                    tgt = (cc or {}).get("fn") or (cc or {}).get("text")
                if c is None or "str" not in c or not tgt:
                    continue
                for q in facts.fns:
                    if q == tgt or (q.endswith("::" + str(tgt).split("::")[-1]) and "::builtin::" in q):
                        out[c["str"]] = q
    return out


def prelude_arities(ctx):
    """name -> (min, max or None) from the formals of the prelude's (define (name . formals) ..) forms; for a procedure with
    one rest parameter that is only ever tested with pair?/null? and car (an optional argument) max is min + 1"""
    from . import prelude as P
    try:
        macros, forms, path = P.load_macros(ctx["root"])
    except (OSError, IndexError):
        return {}
    out = {}
    for fm in forms:
        if isinstance(fm, list) and len(fm) >= 3 and fm[0] == "define" and isinstance(fm[1], list) and fm[1]:
            name = str(fm[1][0])
            formals = fm[1][1:]
            if "." in [str(x) for x in formals]:
                i = [str(x) for x in formals].index(".")
                rest = str(formals[i + 1]) if i + 1 < len(formals) else None
                # optional-argument idiom: the rest list is only inspected through (pair? r) / (null? r) / (car r)
                uses = []

                def walk(x):
                    if isinstance(x, list):
                        for k, y in enumerate(x):
                            if isinstance(y, P.Sym) and str(y) == rest:
                                uses.append(str(x[0]) if k > 0 and isinstance(x[0], P.Sym) else "?")
                            walk(y)
                walk(fm[2:])
                optional = bool(uses) and all(u in ("pair?", "null?", "car") for u in uses)
                out[name] = (i, i + 1 if optional else None)
            else:
                out[name] = (len(formals), len(formals))
    return out


def r_arity_table(ctx, rep, rule, table, what):
    """registered arity interval of each named procedure == the interval R7RS gives it"""
    facts = ctx["facts"]
    rep.rule(rule, "arity table agreement: for %s, the interval of argument counts the builtin admits — the constants of its "
             "pop_argc(min, max) call, directly or in the helper it delegates to — equals the interval R7RS (small, sections "
             "6.x) gives the procedure. The reference intervals are a table in the checker, copied from the report. A floor "
             "that is too high rejects a call R7RS defines ((string) is the empty string); a missing optional argument "
             "rejects the ranged form." % what)
    reg = scheme_registry(facts)
    rep.floor(rule, "builtins registered under a Scheme name", len(reg), 100)
    n = 0
    for name, want in sorted(table.items()):
        path = reg.get(name)
        key = "%s|%s" % (rule, name)
        if path is None:
            # a procedure of the prelude: the interval is that of its formals
            got = prelude_arities(ctx).get(name)
            if got is None:
                rep.ok(rule, key, "`%s` is neither a Rust builtin nor a prelude procedure" % name, nontrivial=False)
                continue
            n += 1
            show = lambda iv: "%d..%s" % (iv[0], "" if iv[1] is None else iv[1])
            if tuple(got) == tuple(want):
                rep.ok(rule, key, "`%s` (prelude) admits %s arguments, as R7RS specifies" % (name, show(got)))
            else:
                rep.fail(rule, key, "`%s` (prelude) admits %s arguments, R7RS specifies %s: %s" % (
                    name, show(got), show(want), "a call R7RS defines is rejected with an arity error" if
                    (got[0] > want[0] or (got[1] is not None and (want[1] is None or got[1] < want[1]))) else
                    "calls R7RS does not define are accepted (a call with too few operands does not end in an arity error)"))
            continue
        f = facts.fns[path]
        got = arity_of(facts, f)
        n += 1
        if got is None:
            rep.anchor_lost(rule, "no constant pop_argc bounds found for `%s` (%s)" % (name, short_path(path)))
            continue
        show = lambda iv: "%d..%s" % (iv[0], "" if iv[1] is None else iv[1])
        if tuple(got) == tuple(want):
            rep.ok(rule, key, "`%s` admits %s arguments, as R7RS specifies" % (name, show(got)), [f.span])
        else:
            lo_bad = got[0] > want[0]
            hi_bad = got[1] is not None and (want[1] is None or got[1] < want[1])
            rep.fail(rule, key, "`%s` admits %s arguments, R7RS specifies %s: %s" % (
                name, show(got), show(want),
                "a call with fewer operands that R7RS defines is rejected" if lo_bad else
                "the optional operands R7RS defines are rejected with an arity error" if hi_bad else
                "calls R7RS does not define are accepted"), [f.span])
    rep.floor(rule, "named procedures that are Rust builtins", n, 5)
