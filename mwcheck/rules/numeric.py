"""S5 arm splitting over Number x Number, and the numeric rule packs' shared machinery (C08, C09, C16)."""
from ..facts import callee, op_const, op_place, short_path
from ..flow import rv_operands
from .common import *

NUMBER = "marwood::number::Number"
EXACT = ("Fixnum", "BigInt", "Rational")
EQ = "<marwood::number::Number as std::cmp::PartialEq>::eq"
CMP = "<marwood::number::Number as std::cmp::PartialOrd>::partial_cmp"


def root_arg(fn, place):
    """which argument a place is rooted in (following refs/copies), or None"""
    o = fn.origin({"copy": place})
    if o[0] == "arg":
        return o[1]
    return None


def number_arms(facts, fn, unary=False):
    """dict (X, Y) -> set of blocks, for a function that matches on the variants of its Number args.
    unary: dict (X,) -> blocks."""
    sws = disc_switches(facts, fn, NUMBER)
    outer = [sw for sw in sws if root_arg(fn, sw["place"]) == 1]
    arms = {}
    if not outer:
        return arms
    o = outer[0]
    for x in o["arms"]:
        rx = arm_region(fn, o, x)
        if not rx:
            continue
        if unary:
            arms[(x,)] = rx
            continue
        inner = [sw for sw in sws if sw["bb"] in rx and root_arg(fn, sw["place"]) == 2]
        if not inner:
            arms[(x, "*")] = rx
            continue
        for y in inner[0]["arms"]:
            ry = arm_region(fn, inner[0], y)
            if ry:
                arms[(x, y)] = ry & rx
        # wildcard / shared targets
        oth = inner[0]["otherwise"]
        listed = set(inner[0]["arms"])
        adt = facts.adts.get(NUMBER)
        allv = [v["name"] for v in adt["variants"]]
        missing = [v for v in allv if v not in listed or (x, v) not in arms]
        if missing:
            arms[(x, "_")] = (missing, oth)
    return arms


def region_facts(fn, region):
    """what happens in a region: calls, casts, binops, aggregates (line-free)"""
    calls, casts, bins, aggs, asserts = [], [], [], [], []
    for bb in sorted(region):
        b = fn.blocks[bb]
        if b.get("cleanup"):
            continue
        for s in b["stmts"]:
            rv = s["rv"]
            if rv["k"] == "cast":
                casts.append((rv["ck"], rv["from"], rv["to"], s["loc"], bb, s))
            elif rv["k"] == "bin":
                bins.append((rv["op"], rv.get("aty"), s["loc"], bb, s))
            elif rv["k"] == "agg":
                aggs.append((rv.get("adt"), rv.get("variant"), s["loc"], bb))
        t = b["term"]
        if t["k"] == "call":
            calls.append((callee(t), t.get("fnargs") or "", t["loc"], bb, t))
        elif t["k"] == "assert":
            asserts.append((t["kind"], t["loc"], bb, t))
    return {"calls": calls, "casts": casts, "bins": bins, "aggs": aggs, "asserts": asserts}


LOSSY_CALLS = ("ToPrimitive>::to_f64", "ToPrimitive>::to_f32", "ToPrimitive for num::BigInt>::to_f64")


def lossy_ops(rf):
    out = []
    for ck, frm, to, loc, bb, s in rf["casts"]:
        if ck == "IntToFloat":
            out.append(("%s as %s" % (frm, to), loc))
    for c, fa, loc, bb, t in rf["calls"]:
        if fa.endswith("::to_f64") or c.endswith("::to_f64"):
            self_ty = fa.split(" as ")[0].lstrip("<") if " as " in fa else fa
            if "f64" == self_ty:
                continue
            out.append(("%s::to_f64" % self_ty.rsplit("::", 1)[-1], loc))
    return out


# ---------------------------------------------------------------------------------- C09

def r09a(ctx, rep):
    facts = ctx["facts"]
    rep.rule("R09a", "domain adequacy: each of the 2 x 16 arms of <Number as PartialEq>::eq and <Number as "
             "PartialOrd>::partial_cmp decides its answer in some domain; (1) in an arm with an exact operand "
             "(Fixnum, BigInt, Rational) no lossy conversion (int-to-float cast, BigInt/Ratio::to_f64) may be applied — "
             "f64 cannot represent every i64, BigInt or ratio, so the comparison would not be the mathematical one; "
             "(2) a constant Ordering on a failed-fit edge is not implied by the failed fit unless the arm tests the "
             "sign of the operand (eq -> false is implied).")
    total = 0
    for path, name in ((EQ, "eq"), (CMP, "partial_cmp")):
        fn = need(rep, "R09a", facts, path)
        if fn is None:
            continue
        arms = number_arms(facts, fn)
        n = 0
        for (x, y), reg in sorted(arms.items(), key=lambda kv: kv[0]):
            if y in ("_", "*"):
                rep.fail("R09a", "R09a|%s|%s,%s|not-split" % (name, x, y), "the %s arm for lhs %s is not split per rhs "
                         "representation (wildcard arm): pairs %s share one treatment" % (name, x, reg[0] if y == "_" else "all"),
                         [fn.span])
                continue
            n += 1
            rf = region_facts(fn, reg)
            exact_involved = x in EXACT or y in EXACT
            both_float = x == "Float" and y == "Float"
            lossy = lossy_ops(rf)
            key = "R09a|%s|%s,%s|lossy" % (name, x, y)
            if lossy and exact_involved:
                rep.fail("R09a", key, "%s(%s, %s) converts an exact operand through %s before deciding: the comparison is "
                         "made among doubles, which cannot represent every value of the exact type" % (
                             name, x, y, ", ".join(sorted({l for l, _ in lossy}))), [l for _, l in lossy])
            else:
                rep.ok("R09a", key, "%s(%s, %s) decides without a lossy conversion%s" % (
                    name, x, y, " (both inexact)" if both_float else ""), [fn.span])
            if name == "partial_cmp":
                consts = [(v, loc) for adt, v, loc, bb in rf["aggs"] if adt == "std::cmp::Ordering"]
                if consts:
                    sign = [c for c, fa, loc, bb, t in rf["calls"] if any(k in c for k in (
                        "is_negative", "is_positive", "signum", "::sign"))]
                    sign += [op for op, aty, loc, bb, s in rf["bins"] if op in ("Lt", "Gt", "Le", "Ge") and aty in ("i64", "i32")]
                    key = "R09a|partial_cmp|%s,%s|sign-blind-constant" % (x, y)
                    if sign:
                        rep.ok("R09a", key, "partial_cmp(%s, %s) returns a constant Ordering under a sign test" % (x, y),
                               [l for _, l in consts])
                    else:
                        rep.fail("R09a", key, "partial_cmp(%s, %s) answers Ordering::%s whenever the integer does not fit "
                                 "the rational's component type, without looking at its sign: a large negative integer is "
                                 "ordered above (below) every rational" % (x, y, "/".join(sorted({v for v, _ in consts}))),
                                 [l for _, l in consts])
        total += n
        rep.floor("R09a", "representation-pair arms of %s" % name, n, 16)


def arm_domains(rf):
    out = set()
    for c, fa, loc, bb, t in rf["calls"]:
        if "PartialEq" in fa or "PartialOrd" in fa:
            if fa.startswith("<"):
                d = fa[1:].split(" as ")[0].lstrip("&")
                if d.startswith("std::rc::Rc<") and d.endswith(">"):
                    d = d[len("std::rc::Rc<"):-1]
                out.add(d)
    for op, aty, loc, bb, s in rf["bins"]:
        if op in ("Eq", "Ne", "Lt", "Le", "Gt", "Ge", "Cmp") and aty in ("i64", "i32", "f64"):
            out.add(aty)
    return out


def r09b(ctx, rep):
    facts = ctx["facts"]
    rep.rule("R09b", "antisymmetry of the table: the (X, Y) and (Y, X) arms of eq and of partial_cmp decide in the same "
             "domain(s), and eq and partial_cmp use the same domain for the same pair; otherwise (< x y) and (> y x), or "
             "= and <, can disagree.")
    dom = {}
    for path, name in ((EQ, "eq"), (CMP, "partial_cmp")):
        fn = facts.fn(path)
        if fn is None:
            rep.anchor_lost("R09b", path)
            continue
        for (x, y), reg in number_arms(facts, fn).items():
            if y in ("_", "*"):
                continue
            dom[(name, x, y)] = arm_domains(region_facts(fn, reg))
    n = 0
    for (name, x, y), d in sorted(dom.items()):
        if x < y and (name, y, x) in dom:
            n += 1
            key = "R09b|%s|%s,%s" % (name, x, y)
            d2 = dom[(name, y, x)]
            (rep.ok if d == d2 else rep.fail)(
                "R09b", key, "%s(%s,%s) and %s(%s,%s) decide in %s" % (name, x, y, name, y, x, sorted(short_path(q) for q in d))
                if d == d2 else "%s(%s,%s) decides in %s but %s(%s,%s) decides in %s: the mirrored comparison can disagree" % (
                    name, x, y, sorted(short_path(q) for q in d), name, y, x, sorted(short_path(q) for q in d2)), [facts.fn(EQ if name == "eq" else CMP).span])
        if name == "eq" and ("partial_cmp", x, y) in dom:
            d2 = dom[("partial_cmp", x, y)]
            key = "R09b|eq-vs-cmp|%s,%s" % (x, y)
            (rep.ok if d == d2 else rep.fail)(
                "R09b", key, "eq and partial_cmp agree on the domain for (%s,%s)" % (x, y) if d == d2 else
                "eq(%s,%s) decides in %s but partial_cmp decides in %s: (= x y) and (< x y) can both hold or both fail" % (
                    x, y, sorted(short_path(q) for q in d), sorted(short_path(q) for q in d2)), [facts.fn(EQ).span])
    rep.floor("R09b", "mirrored arm pairs", n, 12)


ORDER_USERS = ["num_equal", "lt", "gt", "lteq", "gteq", "num_comp", "zero", "positive", "negative", "min", "max"]


def r09c(ctx, rep):
    facts, cg = ctx["facts"], ctx["cg"]
    rep.rule("R09c", "the procedures inherit the order: the comparison procedures, zero?/positive?/negative?, min and "
             "max decide only through <Number as PartialEq/PartialOrd>: their bodies and closures contain no numeric cast, "
             "no to_f64, and reach no function of marwood::number that inspects a Number's representation other than "
             "eq/partial_cmp (and constructors/clone).")
    allowed_prefix = (EQ, CMP, "<marwood::number::Number as std::convert::From", "<marwood::number::Number as std::clone::Clone>",
                      "<marwood::number::Number as std::cmp::PartialOrd>", "<marwood::number::Number as std::cmp::PartialEq>")
    n = 0
    for name in ORDER_USERS:
        p = "marwood::vm::builtin::number::" + name
        f = facts.fn(p)
        if f is None:
            rep.anchor_lost("R09c", p)
            continue
        n += 1
        bodies = [f] + facts.closures_of(f)
        bad = []
        for g in bodies:
            rf = region_facts(g, set(range(len(g.blocks))))
            for ck, frm, to, loc, bb, s in rf["casts"]:
                if ck in ("IntToFloat", "FloatToInt"):
                    bad.append("%s cast in %s" % (ck, g.short))
            for c, fa, loc, bb, t in rf["calls"]:
                if c.endswith("::to_f64"):
                    bad.append("to_f64 in %s" % g.short)
                if c.startswith("marwood::number::Number::") or (c.startswith("<marwood::number::Number as") and not c.startswith(allowed_prefix)):
                    h = facts.fn(c)
                    if h is not None and disc_switches(facts, h, NUMBER) and not c.startswith(allowed_prefix):
                        # a helper that looks at the representation itself: allowed only if it decides via eq/cmp
                        inner = {callee(t2) for bb2, t2 in h.calls()}
                        if not (inner & {EQ, CMP}) or True:
                            bad.append("%s inspects the representation (%s)" % (short_path(c), g.short))
        key = "R09c|%s" % name
        if bad:
            rep.fail("R09c", key, "%s does not decide purely through Number's eq/partial_cmp: %s — its answer can disagree "
                     "with (<, =, >) on boundary values (-0.0, representation boundaries)" % (name, "; ".join(sorted(set(bad)))), [f.span])
        else:
            rep.ok("R09c", key, "%s decides only through <Number as PartialEq/PartialOrd>" % name, [f.span])
    rep.floor("R09c", "order-using procedures", n, 9)
    iz = facts.fn("marwood::number::Number::is_zero")
    if iz is not None:
        ok = any(callee(t) in (EQ,) or "Number as std::cmp::PartialEq" in (t.get("fnargs") or "") for bb, t in iz.calls()) \
            and not disc_switches(facts, iz, NUMBER)
        (rep.ok if ok else rep.fail)("R09c", "R09c|Number::is_zero", "Number::is_zero is `self == 0` through PartialEq" if ok else
                                     "Number::is_zero no longer decides through PartialEq (it inspects the representation): "
                                     "a zero carried in another representation is not recognised — zero-divisor guards "
                                     "built on it let it through", [iz.span])
