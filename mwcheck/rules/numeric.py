"""S5 arm splitting over Number x Number, and the numeric rule packs' shared machinery (C08, C09, C16)."""
from ..facts import callee, op_const, op_place, short_path
from ..flow import rv_operands
from .common import *

NUMBER = "marwood::number::Number"
EXACT = ("Fixnum", "BigInt", "Rational")
EQ = "<marwood::number::Number as std::cmp::PartialEq>::eq"
CMP = "<marwood::number::Number as std::cmp::PartialOrd>::partial_cmp"


def root_arg(fn, place):
    """which argument a place is rooted in (following refs/copies), or None"""
    o = fn.origin({"copy": place})
    if o[0] == "arg":
        return o[1]
    return None


def number_arms(facts, fn, unary=False):
    """dict (X, Y) -> set of blocks, for a function that matches on the variants of its Number args.
    unary: dict (X,) -> blocks."""
    sws = disc_switches(facts, fn, NUMBER)
    outer = [sw for sw in sws if root_arg(fn, sw["place"]) == 1]
    arms = {}
    if not outer:
        return arms
    o = outer[0]
    for x in o["arms"]:
        rx = arm_region(fn, o, x)
        if not rx:
            continue
        if unary:
            arms[(x,)] = rx
            continue
        inner = [sw for sw in sws if sw["bb"] in rx and root_arg(fn, sw["place"]) == 2]
        if not inner:
            arms[(x, "*")] = rx
            continue
        for y in inner[0]["arms"]:
            ry = arm_region(fn, inner[0], y)
            if ry:
                arms[(x, y)] = ry & rx
        # wildcard / shared targets
        oth = inner[0]["otherwise"]
        listed = set(inner[0]["arms"])
        adt = facts.adts.get(NUMBER)
        allv = [v["name"] for v in adt["variants"]]
        missing = [v for v in allv if v not in listed or (x, v) not in arms]
        if missing:
            arms[(x, "_")] = (missing, oth)
    return arms


def region_facts(fn, region):
    """what happens in a region: calls, casts, binops, aggregates (line-free)"""
    calls, casts, bins, aggs, asserts = [], [], [], [], []
    for bb in sorted(region):
        b = fn.blocks[bb]
        if b.get("cleanup"):
            continue
        for s in b["stmts"]:
            rv = s["rv"]
            if rv["k"] == "cast":
                casts.append((rv["ck"], rv["from"], rv["to"], s["loc"], bb, s))
            elif rv["k"] == "bin":
                bins.append((rv["op"], rv.get("aty"), s["loc"], bb, s))
            elif rv["k"] == "agg":
                aggs.append((rv.get("adt"), rv.get("variant"), s["loc"], bb))
        t = b["term"]
        if t["k"] == "call":
            calls.append((callee(t), t.get("fnargs") or "", t["loc"], bb, t))
        elif t["k"] == "assert":
            asserts.append((t["kind"], t["loc"], bb, t))
    return {"calls": calls, "casts": casts, "bins": bins, "aggs": aggs, "asserts": asserts}


LOSSY_CALLS = ("ToPrimitive>::to_f64", "ToPrimitive>::to_f32", "ToPrimitive for num::BigInt>::to_f64")


def lossy_ops(rf):
    out = []
    for ck, frm, to, loc, bb, s in rf["casts"]:
        if ck == "IntToFloat":
            out.append(("%s as %s" % (frm, to), loc))
    for c, fa, loc, bb, t in rf["calls"]:
        if fa.endswith("::to_f64") or c.endswith("::to_f64"):
            self_ty = fa.split(" as ")[0].lstrip("<") if " as " in fa else fa
            if "f64" == self_ty:
                continue
            out.append(("%s::to_f64" % self_ty.rsplit("::", 1)[-1], loc))
    return out


# ---------------------------------------------------------------------------------- C09

def r09a(ctx, rep):
    facts = ctx["facts"]
    rep.rule("R09a", "domain adequacy: each of the 2 x 16 arms of <Number as PartialEq>::eq and <Number as "
             "PartialOrd>::partial_cmp decides its answer in some domain; (1) in an arm with an exact operand "
             "(Fixnum, BigInt, Rational) no lossy conversion (int-to-float cast, BigInt/Ratio::to_f64) may be applied — "
             "f64 cannot represent every i64, BigInt or ratio, so the comparison would not be the mathematical one; "
             "(2) a constant Ordering on a failed-fit edge is not implied by the failed fit unless the arm tests the "
             "sign of the operand (eq -> false is implied).")
    total = 0
    for path, name in ((EQ, "eq"), (CMP, "partial_cmp")):
        fn = need(rep, "R09a", facts, path)
        if fn is None:
            continue
        arms = number_arms(facts, fn)
        n = 0
        for (x, y), reg in sorted(arms.items(), key=lambda kv: kv[0]):
            if y in ("_", "*"):
                rep.fail("R09a", "R09a|%s|%s,%s|not-split" % (name, x, y), "the %s arm for lhs %s is not split per rhs "
                         "representation (wildcard arm): pairs %s share one treatment" % (name, x, reg[0] if y == "_" else "all"),
                         [fn.span])
                continue
            n += 1
            rf = region_facts(fn, reg)
            exact_involved = x in EXACT or y in EXACT
            both_float = x == "Float" and y == "Float"
            lossy = lossy_ops(rf)
            # an arm that delegates to a local comparison helper decides there: the helper's body (and the conversions it
            # calls inside the number module) must be free of lossy conversions too
            seen_h = set()
            work = [c for c, fa, loc, bb, t in rf["calls"] if (c or "").startswith(CMP_HELPER)]
            while work:
                h = work.pop()
                if h in seen_h or h not in facts.fns:
                    continue
                seen_h.add(h)
                hf = facts.fns[h]
                hrf = region_facts(hf, set(range(len(hf.blocks))))
                lossy = lossy + lossy_ops(hrf)
                work += [c for c, fa, loc, bb, t in hrf["calls"] if (c or "").startswith("marwood::number::Number::") and c != h]
            key = "R09a|%s|%s,%s|lossy" % (name, x, y)
            if lossy and exact_involved:
                rep.fail("R09a", key, "%s(%s, %s) converts an exact operand through %s before deciding: the comparison is "
                         "made among doubles, which cannot represent every value of the exact type" % (
                             name, x, y, ", ".join(sorted({l for l, _ in lossy}))), [l for _, l in lossy])
            else:
                rep.ok("R09a", key, "%s(%s, %s) decides without a lossy conversion%s" % (
                    name, x, y, " (both inexact)" if both_float else ""), [fn.span])
            if name == "partial_cmp":
                consts = [(v, loc) for adt, v, loc, bb in rf["aggs"] if adt == "std::cmp::Ordering"]
                if consts:
                    sign = [c for c, fa, loc, bb, t in rf["calls"] if any(k in c for k in (
                        "is_negative", "is_positive", "signum", "::sign"))]
                    sign += [op for op, aty, loc, bb, s in rf["bins"] if op in ("Lt", "Gt", "Le", "Ge") and aty in ("i64", "i32")]
                    key = "R09a|partial_cmp|%s,%s|sign-blind-constant" % (x, y)
                    if sign:
                        rep.ok("R09a", key, "partial_cmp(%s, %s) returns a constant Ordering under a sign test" % (x, y),
                               [l for _, l in consts])
                    else:
                        rep.fail("R09a", key, "partial_cmp(%s, %s) answers Ordering::%s whenever the integer does not fit "
                                 "the rational's component type, without looking at its sign: a large negative integer is "
                                 "ordered above (below) every rational" % (x, y, "/".join(sorted({v for v, _ in consts}))),
                                 [l for _, l in consts])
        total += n
        rep.floor("R09a", "representation-pair arms of %s" % name, n, 16)


CMP_HELPER = "marwood::number::Number::cmp_"     # local comparison helpers: cmp_with_float, cmp_exact


def arm_domains(rf):
    out = set()
    for c, fa, loc, bb, t in rf["calls"]:
        if (c or "").startswith(CMP_HELPER):
            out.add("helper:" + c.rsplit("::", 1)[-1])
            continue
        if "PartialEq" in fa or "PartialOrd" in fa:
            if fa.startswith("<"):
                d = fa[1:].split(" as ")[0].lstrip("&")
                if d.startswith("std::rc::Rc<") and d.endswith(">"):
                    d = d[len("std::rc::Rc<"):-1]
                if d.endswith("cmp::Ordering") or d.endswith("cmp::Ordering>"):
                    continue      # post-processing of a helper's verdict (== Some(Equal)), not a domain of comparison
                out.add(d)
    for op, aty, loc, bb, s in rf["bins"]:
        if op in ("Eq", "Ne", "Lt", "Le", "Gt", "Ge", "Cmp") and aty in ("i64", "i32", "f64"):
            out.add(aty)
    return out


def r09b(ctx, rep):
    facts = ctx["facts"]
    rep.rule("R09b", "antisymmetry of the table: the (X, Y) and (Y, X) arms of eq and of partial_cmp decide in the same "
             "domain(s), and eq and partial_cmp use the same domain for the same pair; otherwise (< x y) and (> y x), or "
             "= and <, can disagree.")
    dom = {}
    for path, name in ((EQ, "eq"), (CMP, "partial_cmp")):
        fn = facts.fn(path)
        if fn is None:
            rep.anchor_lost("R09b", path)
            continue
        for (x, y), reg in number_arms(facts, fn).items():
            if y in ("_", "*"):
                continue
            dom[(name, x, y)] = arm_domains(region_facts(fn, reg))
    n = 0
    for (name, x, y), d in sorted(dom.items()):
        if x < y and (name, y, x) in dom:
            n += 1
            key = "R09b|%s|%s,%s" % (name, x, y)
            d2 = dom[(name, y, x)]
            (rep.ok if d == d2 else rep.fail)(
                "R09b", key, "%s(%s,%s) and %s(%s,%s) decide in %s" % (name, x, y, name, y, x, sorted(short_path(q) for q in d))
                if d == d2 else "%s(%s,%s) decides in %s but %s(%s,%s) decides in %s: the mirrored comparison can disagree" % (
                    name, x, y, sorted(short_path(q) for q in d), name, y, x, sorted(short_path(q) for q in d2)), [facts.fn(EQ if name == "eq" else CMP).span])
        if name == "eq" and ("partial_cmp", x, y) in dom:
            d2 = dom[("partial_cmp", x, y)]
            # on the failed-fit edge eq answers `false` (implied by the failed fit, R09a) where partial_cmp orders the operands
            # through the exact helper: the helper refines, it does not contradict
            d2 = d2 - {"helper:cmp_exact"} if "helper:cmp_exact" not in d else d2
            key = "R09b|eq-vs-cmp|%s,%s" % (x, y)
            (rep.ok if d == d2 else rep.fail)(
                "R09b", key, "eq and partial_cmp agree on the domain for (%s,%s)" % (x, y) if d == d2 else
                "eq(%s,%s) decides in %s but partial_cmp decides in %s: (= x y) and (< x y) can both hold or both fail" % (
                    x, y, sorted(short_path(q) for q in d), sorted(short_path(q) for q in d2)), [facts.fn(EQ).span])
    rep.floor("R09b", "mirrored arm pairs", n, 12)


def r09e(ctx, rep, rule="R09e"):
    """`unordered` is answered only for NaN"""
    from ..shapes import guard_shapes
    facts = ctx["facts"]
    rep.rule(rule, "unordered only for NaN: the order is total on everything but NaN, infinities included. (1) In a comparison "
             "helper that converts a float with BigRational::from_float (which fails for NaN and for both infinities), an "
             "Option<Ordering>::None built on the failed-conversion edge is dominated by the true edge of an is_nan test of "
             "that float. (2) A helper that answers None whenever a conversion fails, without looking (cmp_exact), is called "
             "only from arms of eq / partial_cmp whose operands are both exact, where the conversion cannot fail; "
             "(3) cmp_with_float is called only from arms with exactly one Float operand.")
    helpers = {p: f for p, f in facts.fns.items() if p.startswith(CMP_HELPER)}
    rep.floor(rule, "local comparison helpers", len(helpers), 2)
    blind = set()
    for p, f in sorted(helpers.items()):
        name = p.rsplit("::", 1)[-1]
        nones = [(bb, s) for bb, j, s in f.stmts() if s["rv"]["k"] == "agg" and s["rv"].get("adt") == "std::option::Option"
                 and s["rv"].get("variant") == "None" and "Ordering" in s["lhs"]["ty"]]
        for i, (bb, s_) in enumerate(nones):
            g = guard_shapes(f, bb, None, 3)
            key = "%s|%s|None#%d" % (rule, name, i + 1)
            if any(x.startswith("f64::<f64>::is_nan(") and x.endswith("=T") for x in g):
                rep.ok(rule, key, "%s answers `unordered` under an is_nan test" % name, [s_["loc"]])
            else:
                blind.add(p)
                rep.ok(rule, key, "%s answers `unordered` whenever a conversion fails, without an is_nan test: admissible only "
                       "for exact operands (checked at its call sites)" % name, [s_["loc"]], nontrivial=False)
    n = 0
    arms_of = {}
    for path in (EQ, CMP):
        fn = facts.fns.get(path)
        if fn is not None:
            arms_of[path] = number_arms(facts, fn)
    for p, f in sorted(facts.fns.items()):
        for bb, t in f.calls():
            c = callee(t) or ""
            if c not in helpers:
                continue
            n += 1
            hname = c.rsplit("::", 1)[-1]
            arm = None
            for (x, y), reg in arms_of.get(p, {}).items():
                if y not in ("_", "*") and bb in reg:
                    arm = (x, y)
            key = "%s|call|%s|%s|%s" % (rule, hname, short_path(p).rsplit("::", 1)[-1] if p in arms_of else short_path(p),
                                         ",".join(arm) if arm else "?")
            if arm is None:
                if c in blind:
                    rep.fail(rule, key, "%s calls %s outside the representation-pair arms of eq / partial_cmp: %s answers "
                             "`unordered` for any operand it cannot convert — that includes +inf and -inf, which are ordered "
                             "against every number" % (short_path(p), hname, hname), [t["loc"]])
                else:
                    rep.ok(rule, key, "%s calls %s (which tests is_nan itself)" % (short_path(p), hname), [t["loc"]], nontrivial=False)
                continue
            nfloat = sum(1 for v in arm if v == "Float")
            if c in blind:
                (rep.ok if nfloat == 0 else rep.fail)(
                    rule, key, "%s is reached with exact operands only (%s, %s)" % (hname, arm[0], arm[1]) if nfloat == 0 else
                    "%s is reached with a Float operand in the (%s, %s) arm: an infinity fails its conversion and the pair is "
                    "reported unordered" % (hname, arm[0], arm[1]), [t["loc"]])
            else:
                (rep.ok if nfloat == 1 else rep.fail)(
                    rule, key, "%s is reached from the (%s, %s) arm: one exact operand against one float" % (hname, arm[0], arm[1])
                    if nfloat == 1 else "%s is called from the (%s, %s) arm, which has %d Float operands" % (hname, arm[0], arm[1], nfloat),
                    [t["loc"]])
    rep.floor(rule, "calls of the comparison helpers", n, 16)


ORDER_USERS = ["num_equal", "lt", "gt", "lteq", "gteq", "num_comp", "zero", "positive", "negative", "min", "max"]


def r09c(ctx, rep):
    facts, cg = ctx["facts"], ctx["cg"]
    rep.rule("R09c", "the procedures inherit the order: the comparison procedures, zero?/positive?/negative?, min and "
             "max decide only through <Number as PartialEq/PartialOrd>: their bodies and closures contain no numeric cast, "
             "no to_f64, and reach no function of marwood::number that inspects a Number's representation other than "
             "eq/partial_cmp (and constructors/clone).")
    allowed_prefix = (EQ, CMP, "<marwood::number::Number as std::convert::From", "<marwood::number::Number as std::clone::Clone>",
                      "<marwood::number::Number as std::cmp::PartialOrd>", "<marwood::number::Number as std::cmp::PartialEq>")
    n = 0
    for name in ORDER_USERS:
        p = "marwood::vm::builtin::number::" + name
        f = facts.fn(p)
        if f is None:
            rep.anchor_lost("R09c", p)
            continue
        n += 1
        bodies = [f] + facts.closures_of(f)
        bad = []
        for g in bodies:
            rf = region_facts(g, set(range(len(g.blocks))))
            for ck, frm, to, loc, bb, s in rf["casts"]:
                if ck in ("IntToFloat", "FloatToInt"):
                    bad.append("%s cast in %s" % (ck, g.short))
            for c, fa, loc, bb, t in rf["calls"]:
                if c.endswith("::to_f64"):
                    bad.append("to_f64 in %s" % g.short)
                if c.startswith("marwood::number::Number::") or (c.startswith("<marwood::number::Number as") and not c.startswith(allowed_prefix)):
                    h = facts.fn(c)
                    if h is not None and disc_switches(facts, h, NUMBER) and not c.startswith(allowed_prefix):
                        # a helper that looks at the representation itself: allowed only if it decides via eq/cmp
                        inner = {callee(t2) for bb2, t2 in h.calls()}
                        if not (inner & {EQ, CMP}) or True:
                            bad.append("%s inspects the representation (%s)" % (short_path(c), g.short))
        key = "R09c|%s" % name
        if bad:
            rep.fail("R09c", key, "%s does not decide purely through Number's eq/partial_cmp: %s — its answer can disagree "
                     "with (<, =, >) on boundary values (-0.0, representation boundaries)" % (name, "; ".join(sorted(set(bad)))), [f.span])
        else:
            rep.ok("R09c", key, "%s decides only through <Number as PartialEq/PartialOrd>" % name, [f.span])
    rep.floor("R09c", "order-using procedures", n, 9)
    iz = facts.fn("marwood::number::Number::is_zero")
    if iz is not None:
        ok = any(callee(t) in (EQ,) or "Number as std::cmp::PartialEq" in (t.get("fnargs") or "") for bb, t in iz.calls()) \
            and not disc_switches(facts, iz, NUMBER)
        (rep.ok if ok else rep.fail)("R09c", "R09c|Number::is_zero", "Number::is_zero is `self == 0` through PartialEq" if ok else
                                     "Number::is_zero no longer decides through PartialEq (it inspects the representation): "
                                     "a zero carried in another representation is not recognised — zero-divisor guards "
                                     "built on it let it through", [iz.span])


# ---------------------------------------------------------------------------------- C08

BINOPS = {
    "add": "<&marwood::number::Number as std::ops::Add>::add",
    "sub": "<&marwood::number::Number as std::ops::Sub>::sub",
    "mul": "<&marwood::number::Number as std::ops::Mul>::mul",
    "div": "<&marwood::number::Number as std::ops::Div>::div",
    "rem": "<&marwood::number::Number as std::ops::Rem>::rem",
    "quotient": "marwood::number::Number::quotient",
}
UNOPS = ["abs", "round", "floor", "ceil", "truncate", "pow", "numerator", "denominator", "to_exact"]
# Reviewed obligations (exact key -> reason): operations that are unchecked in form but cannot misbehave for any value
# reaching them from Scheme. Each reason names the guard or bound it rests on.
R08_REVIEWED = {
    "R08a|rem|BigInt,Rational|Ratio<i32>::new":
        "only on the non-integer-rhs branch; remainder/modulo pop their operands with pop_integer and odd?/even? pass Fixnum 2, "
        "so no Scheme caller reaches it with a non-integer rational divisor",
    "R08a|rem|Fixnum,Rational|Ratio<i64>::rem":
        "only on the non-integer-divisor branch (an integer-valued rational divisor takes fixnum_rem): remainder / modulo pop "
        "their operands with pop_integer and odd? / even? pass Fixnum 2, so no Scheme caller reaches it",
    "R08a|rem|Rational,Rational|Ratio<i32>::rem":
        "only when one operand is a non-integer rational (two integer-valued rationals take fixnum_rem): remainder / modulo "
        "pop their operands with pop_integer and odd? / even? pass Fixnum 2, so no Scheme caller reaches it",
    "R08a|rem|Fixnum,Rational|narrow:i64->i32":
        "the narrowed value is the remainder, whose magnitude is below the divisor's i32 numerator/denominator",
    "R08a|rem|Rational,Fixnum|Overflow(Rem):i64":
        "needs dividend i64::MIN, but the dividend is Ratio<i32>::to_i64()",
    "R08a|rem|Rational,Fixnum|RemainderByZero:i64":
        "every Scheme caller rejects a zero divisor first (remainder/modulo test is_zero, odd?/even? pass 2)",
    "R08a|quotient|Fixnum,Rational|DivisionByZero:i64":
        "the quotient builtin rejects a zero divisor in any representation through is_zero before calling",
    "R08a|quotient|Rational,Fixnum|DivisionByZero:i64":
        "the quotient builtin rejects a zero divisor in any representation through is_zero before calling",
    "R08a|quotient|Rational,Fixnum|Overflow(Div):i64":
        "needs dividend i64::MIN, but the dividend is Ratio<i32>::to_i64()",
    "R08a|quotient|Rational,Rational|DivisionByZero:i64":
        "the quotient builtin rejects a zero divisor in any representation through is_zero before calling",
    "R08a|quotient|Rational,Rational|Overflow(Div):i64":
        "needs dividend i64::MIN, but both operands are Ratio<i32>::to_i64() (|x| <= 2^31)",
    "R08a|floor|Rational|Ratio<i64>::floor":
        "numerator and denominator are i32 values widened to i64 (new_raw of `as i64` casts); floor's numer - denom + 1 stays below 2^33",
    "R08a|round|Rational|Ratio<i64>::floor":
        "numerator and denominator are i32 values widened to i64 (number::widen); floor's numer - denom + 1 stays below 2^33",
    "R08a|round|Rational|Ratio<i64>::sub":
        "x - floor(x) for x with 32-bit parts: floor(x) is an integer of magnitude <= 2^31, the cross products stay below 2^62",
    "R08a|round|Rational|Ratio<i64>::mul":
        "a fraction in [0, 1) whose denominator is below 2^31, times the integer 2",
    "R08a|round|Rational|Overflow(Add):i64":
        "floor + 1 where floor is the integer part of a rational with 32-bit parts: |floor| <= 2^31",
    "R08a|round|Rational|Overflow(Rem):i64":
        "floor % 2: the assert guards i64::MIN % -1, and the divisor is the constant 2",
    "R08a|ceil|Rational|Ratio<i64>::ceil":
        "numerator and denominator are i32 values widened to i64 (new_raw of `as i64` casts); ceil's numer + denom - 1 stays below 2^33",
}
RATIO_TOTAL = ("new_raw",           # plain constructor: stores numerator and denominator, no reduction, no arithmetic
               "trunc", "round",   # trunc = numer/denom with denom > 0; round adds +-1 to a value with |trunc| <= i32::MAX/2
               "checked_add", "checked_sub", "checked_mul", "checked_div", "numer", "denom", "is_integer", "to_integer",
               "from_integer", "to_f64", "to_i64", "to_i32", "to_u64", "to_u32", "to_usize", "clone", "eq", "partial_cmp",
               "cmp", "ne", "lt", "le", "gt", "ge", "from", "into", "from_f64", "hash", "fmt", "is_zero")


import re as _re
# i64::wrapping_neg, u32::saturating_sub, ... (inherent or through num's Wrapping*/Saturating* traits)
WRAP_OP = _re.compile(r"(?:num::<impl (i\d+|u\d+|isize|usize)>|<&?(i\d+|u\d+|isize|usize) as [^>]+>)::((?:wrapping|saturating|unchecked)_\w+)$")
PRIM_OP = _re.compile(r"^<&?(i64|i32|u64|u32|usize|i128) as std::ops::(Add|Sub|Mul|Div|Rem|Neg)(?:<&?\1>)?>::(add|sub|mul|div|rem|neg)$")


def _ratio_call(c, fa):
    """(method, how) if the call is an operation on a fixed-width num::rational::Ratio"""
    text = fa or c
    if "num::rational::Ratio<i32>" not in text and "num::rational::Ratio<i64>" not in text and \
            "num::rational::Ratio::<i32>" not in text and "num::rational::Ratio::<i64>" not in text:
        return None
    if "BigInt" in text.split("::")[-1]:
        return None
    m = text.rsplit("::", 1)[-1]
    m = m.split("<")[0]
    return m


def exact_arm_ops(fn, reg, rf=None):
    """unchecked fixed-width operations in a region: list of (op-key, description, loc)"""
    rf = rf or region_facts(fn, reg)
    out = []
    for kind, loc, bb, t in rf["asserts"]:
        if kind.startswith("Overflow") or kind in ("DivisionByZero", "RemainderByZero", "OverflowNeg"):
            # `x % const` / `x / const` with a non-zero constant: the zero assert is vacuous
            if kind in ("DivisionByZero", "RemainderByZero"):
                oc = fn.origin(t["cond"])
                dv = oc[1]["rv"]["a"] if oc[0] == "rv" and oc[1]["rv"]["k"] == "bin" else None
                c = op_const(dv) if dv else None
                if c is not None and c.get("int", 0) != 0:
                    continue
            ty = None
            for o in t["ops"]:
                p = op_place(o)
                if p is not None:
                    ty = p["ty"]
            out.append(("%s:%s" % (kind, ty or "int"), "unchecked %s on %s (panics in debug builds, wraps in release)" % (kind, ty or "an integer"), loc))
    for op, aty, loc, bb, s in rf["bins"]:
        if op in ("Div", "Rem") and aty in ("i64", "i32", "u64", "u32", "usize", "i128"):
            # overflow of MIN / -1 is a separate assert in MIR (`Overflow(Div)`) — covered above; count the raw op once
            pass
    for ck, frm, to, loc, bb, s in rf["casts"]:
        if ck == "IntToInt" and frm in ("i64", "i128", "u64", "usize") and to in ("i32", "u32", "i16", "u16"):
            # must be dominated by the success edge of a fit test on the same value
            src = fn.origin(s["rv"]["a"])
            ok = False
            for c, fa, l2, b2, t2 in rf["calls"]:
                if c.endswith("Option::<T>::is_some") and fn.dominates(b2, bb):
                    o = fn.origin(t2["args"][0])
                    if o[0] == "call" and o[1]["fnargs"].endswith("::to_i32"):
                        v = fn.origin(o[1]["args"][0])
                        if _same_value(src, v):
                            # on the true edge?
                            sw = fn.blocks[t2["target"]]["term"] if t2["target"] is not None else None
                            if sw and sw["k"] == "switch":
                                tru = sw["otherwise"]
                                if fn.dominates(tru, bb):
                                    ok = True
            if not ok:
                out.append(("narrow:%s->%s" % (frm, to), "narrowing cast %s as %s not guarded by a to_i32().is_some() test on the same value" % (frm, to), loc))
    for c, fa, loc, bb, t in rf["calls"]:
        pm = PRIM_OP.match(fa or "")
        if pm:
            out.append(("%s:%s" % (pm.group(3), pm.group(1)), "unchecked primitive %s on %s through the reference operator impl "
                        "(overflow / zero divisor: panic or silent wrap)" % (pm.group(3).lower(), pm.group(1)), loc))
            continue
        wm = WRAP_OP.search(fa or "") or WRAP_OP.search(c or "")
        if wm:
            out.append(("%s:%s" % (wm.group(3), wm.group(1) or wm.group(2)), "%s on %s gives up the true value by definition (wraps / saturates / "
                        "is undefined on overflow): an unchecked fixed-width operation under another name" % (wm.group(3), wm.group(1) or wm.group(2)), loc))
            continue
        m = _ratio_call(c, fa)
        if m is None:
            continue
        if m in RATIO_TOTAL:
            continue
        tyw = "Ratio<i64>" if "i64" in (fa or c) else "Ratio<i32>"
        out.append(("%s::%s" % (tyw, m), "unchecked %s::%s (fixed-width rational arithmetic overflows: panic in debug, wrong value in release)" % (tyw, m), loc))
    return out


def _same_value(a, b):
    def sig(o):
        if o[0] == "arg":
            return ("arg", o[1], tuple((e.get("n") or e.get("dc")) if isinstance(e, dict) else e for e in o[2]))
        if o[0] == "local":
            return ("local", o[1], tuple((e.get("n") or e.get("dc")) if isinstance(e, dict) else e for e in o[2]))
        return None
    sa, sb = sig(a), sig(b)
    return sa is not None and sa == sb


def r08a(ctx, rep):
    facts = ctx["facts"]
    rep.rule("R08a", "checked-arithmetic discipline: in every arm of +, -, *, /, remainder, quotient (per representation "
             "pair) and of abs/round/floor/ceil/truncate/pow/numerator/denominator/to_exact (per representation) whose "
             "operands are all exact, no primitive fixed-width operation is left unchecked: (1) no overflow / "
             "division assert on a machine integer and no wrapping_* / saturating_* / unchecked_* call on one, (2) every narrowing cast is dominated by the success edge of a "
             "to_i32().is_some() test of the same value, (3) on fixed-width Ratio only total operations "
             "(checked_*, accessors, conversions, comparison) are called — Ratio::new, the / % operators, pow, abs, "
             "round, floor, ceil, trunc overflow silently or panic. Necessary for 'an exact result never differs from the "
             "true value' (release builds wrap) and for C06 (debug builds panic).")
    nb = 0
    for name, path in BINOPS.items():
        fn = need(rep, "R08a", facts, path)
        if fn is None:
            continue
        arms = number_arms(facts, fn)
        for (x, y), reg in sorted(arms.items(), key=lambda kv: kv[0]):
            if y in ("_", "*"):
                if y == "_":
                    missing, oth = reg
                    rep.ok("R08a", "R08a|%s|%s,_|wildcard" % (name, x), "%s: lhs %s with rhs %s share a wildcard arm "
                           "(reviewed: returns None for non-integers)" % (name, x, missing), [fn.span], nontrivial=False)
                continue
            nb += 1
            if x not in EXACT or y not in EXACT:
                continue
            bodies = [(fn, reg)]
            ops = []
            for g, r in bodies:
                ops += exact_arm_ops(g, r)
            seen = {}
            for k, desc, loc in ops:
                seen.setdefault(k, []).append((desc, loc))
            if not seen:
                rep.ok("R08a", "R08a|%s|%s,%s" % (name, x, y), "%s(%s, %s): every fixed-width step is checked or widened" % (name, x, y), [fn.span])
            for k, lst in sorted(seen.items()):
                key = "R08a|%s|%s,%s|%s" % (name, x, y, k)
                if key in R08_REVIEWED:
                    rep.ok("R08a", key, "%s(%s, %s): %s — reviewed: %s" % (name, x, y, lst[0][0], R08_REVIEWED[key]),
                           [l for _, l in lst])
                else:
                    rep.fail("R08a", key, "%s(%s, %s): %s" % (name, x, y, lst[0][0]), [l for _, l in lst])
    rep.floor("R08a", "representation-pair arms of the binary operators", nb, 90)
    nu = 0
    for name in UNOPS:
        fn = need(rep, "R08a", facts, "marwood::number::Number::" + name)
        if fn is None:
            continue
        arms = number_arms(facts, fn, unary=True)
        for (x,), reg in sorted(arms.items()):
            nu += 1
            if x not in EXACT:
                continue
            seen = {}
            for k, desc, loc in exact_arm_ops(fn, reg):
                seen.setdefault(k, []).append((desc, loc))
            if not seen:
                rep.ok("R08a", "R08a|%s|%s" % (name, x), "%s(%s): every fixed-width step is checked or widened" % (name, x), [fn.span])
            for k, lst in sorted(seen.items()):
                key = "R08a|%s|%s|%s" % (name, x, k)
                if key in R08_REVIEWED:
                    rep.ok("R08a", key, "%s(%s): %s — reviewed: %s" % (name, x, lst[0][0], R08_REVIEWED[key]), [l for _, l in lst])
                else:
                    rep.fail("R08a", key, "%s(%s): %s" % (name, x, lst[0][0]), [l for _, l in lst])
    rep.floor("R08a", "representation arms of the unary operations", nu, 20)
    # premise of the two reviewed `Ratio % Ratio` entries: integer-valued rational operands never get there
    from ..shapes import dominating_guards
    fn = facts.fns.get(BINOPS["rem"])
    if fn is not None:
        k = 0
        for bb, t in fn.calls():
            fa = t.get("fnargs") or callee(t) or ""
            if _ratio_call(callee(t) or "", fa) != "rem":
                continue
            k += 1
            # reachable only through the false edge of some is_integer test? (`a.is_integer() && b.is_integer()` lowers to
            # nested switches whose false edges join, so this is an edge-cut reachability question, not a dominance one)
            cut = set()
            for b2, blk in enumerate(fn.blocks):
                tt = blk["term"]
                if tt["k"] == "switch" and not blk.get("cleanup"):
                    o = fn.origin(tt["op"])
                    if o[0] == "call" and (callee(o[1]) or "").endswith("::is_integer"):
                        vals = dict((v, tg) for v, tg in tt["targets"])
                        false_t = vals.get(0, tt["otherwise"] if 0 not in vals else None)
                        if false_t is not None:
                            cut.add((b2, false_t))
            seen = {0}
            st_ = [0]
            while st_:
                b0 = st_.pop()
                for y in fn.succ[b0]:
                    if (b0, y) in cut or y in seen:
                        continue
                    seen.add(y)
                    st_.append(y)
            guarded = bb not in seen
            tyw = "Ratio<i64>" if "i64" in fa else "Ratio<i32>"
            (rep.ok if guarded else rep.fail)(
                "R08a", "R08a|rem|premise|%s::rem#%d" % (tyw, k),
                "the %s remainder is reached only after an is_integer test failed (integer-valued operands take fixnum_rem)" % tyw if guarded else
                "the %s remainder can be reached with integer-valued rational operands (no failed is_integer test dominates it): "
                "MIN %% -1/1 overflows inside Ratio's %%" % tyw, [t["loc"]])


def r08e(ctx, rep, rule="R08e"):
    facts = ctx["facts"]
    rep.rule(rule, "integers are closed under the integer operations: in the arms of +, -, *, remainder, quotient whose operands "
             "are both integer representations (Fixnum, BigInt) and in the Fixnum / BigInt arms of abs, round, floor, ceil, "
             "truncate, pow, numerator, denominator, no step leaves the exact domain — no int-to-float cast and no to_f64. "
             "The mathematical result of such an operation is an integer and always fits a BigInt, so a float there "
             "turns an exact answer into an inexact one. (`/` is exempt: it falls back to a float by design when the "
             "quotient does not fit a Ratio<i32>.)")
    INT = ("Fixnum", "BigInt")
    n = 0
    for name, path in BINOPS.items():
        if name == "div":
            continue
        fn = need(rep, rule, facts, path)
        if fn is None:
            continue
        for (x, y), reg in sorted(number_arms(facts, fn).items(), key=lambda kv: kv[0]):
            if x not in INT or y not in INT:
                continue
            n += 1
            lo = lossy_ops(region_facts(fn, reg))
            key = "%s|%s|%s,%s" % (rule, name, x, y)
            if lo:
                rep.fail(rule, key, "%s(%s, %s) computes through a float (%s): two exact integers give an inexact result" % (
                    name, x, y, ", ".join(sorted({a for a, _ in lo}))), [l for _, l in lo])
            else:
                rep.ok(rule, key, "%s(%s, %s) stays in the exact domain" % (name, x, y), [fn.span])
    for name in UNOPS:
        if name == "to_exact":
            continue
        fn = need(rep, rule, facts, "marwood::number::Number::" + name)
        if fn is None:
            continue
        for (x,), reg in sorted(number_arms(facts, fn, unary=True).items()):
            if x not in INT:
                continue
            n += 1
            lo = lossy_ops(region_facts(fn, reg))
            key = "%s|%s|%s" % (rule, name, x)
            if lo:
                rep.fail(rule, key, "%s(%s) computes through a float (%s): an exact integer gives an inexact result" % (
                    name, x, ", ".join(sorted({a for a, _ in lo}))), [l for _, l in lo])
            else:
                rep.ok(rule, key, "%s(%s) stays in the exact domain" % (name, x), [fn.span])
    rep.floor(rule, "integer arms of the arithmetic operations", n, 36)


def r08g(ctx, rep, rule="R08g"):
    facts = ctx["facts"]
    rep.rule(rule, "an inexact fallback approximates the result, not the operands: in the BigInt / BigInt arm of division (and the "
             "helpers it calls in number.rs) no float division takes two operands that are each a BigInt::to_f64 conversion. "
             "Both conversions overflow to infinity for operands beyond 1.8e308, and inf / inf is NaN whatever the quotient "
             "is — (/ (expt 10 400) (expt 10 399)) must be 10.0, within the error bound C08 allows a fallback.")
    fn = need(rep, rule, facts, BINOPS["div"])
    if fn is None:
        return
    arms = number_arms(facts, fn)
    reg = arms.get(("BigInt", "BigInt"))
    if reg is None:
        rep.anchor_lost(rule, "BigInt / BigInt arm of division")
        return
    bodies = [(fn, reg)]
    seen = set()
    rf0 = region_facts(fn, reg)
    work = [c for c, fa, loc, bb, t in rf0["calls"] if (c or "").startswith("marwood::number::") and c in facts.fns]
    while work:
        h = work.pop()
        if h in seen:
            continue
        seen.add(h)
        hf = facts.fns[h]
        bodies.append((hf, set(range(len(hf.blocks)))))
    bad = []
    for g, r in bodies:
        for op, aty, loc, bb, st in region_facts(g, r)["bins"]:
            if op != "Div" or aty != "f64":
                continue
            def from_big(o):
                og = g.origin(o)
                for _ in range(3):
                    if og[0] == "call" and (callee(og[1]) or "").endswith(("::unwrap_or", "::unwrap", "::unwrap_or_default")):
                        og = g.origin(og[1]["args"][0])
                return og[0] == "call" and "BigInt" in (og[1].get("fnargs") or "") and (og[1].get("fnargs") or "").endswith("::to_f64")
            if from_big(st["rv"]["a"]) and from_big(st["rv"]["b"]):
                bad.append((g, loc))
    key = rule + "|div|BigInt,BigInt"
    if bad:
        rep.fail(rule, key, "%s divides two floats that are each the conversion of a bignum operand: for operands beyond the range "
                 "of a double both are infinite and the quotient is NaN" % bad[0][0].short, [b[1] for b in bad])
    else:
        rep.ok(rule, key, "the BigInt / BigInt fallback converts the exact quotient (no division of two converted bignums)", [fn.span])


def r08h(ctx, rep, rule="R08h"):
    facts = ctx["facts"]
    rep.rule(rule, "zero converts in every representation: Number::to_usize / to_u64 / to_u32 (the conversions behind indices, "
             "sizes and expt's exponent) admit non-negative values; their arms must not guard with the strict Signed::is_positive, "
             "which is false for zero — the Fixnum arm admits 0 (`>= 0` or a checked conversion), so a zero carried as a bignum "
             "would be rejected where the fixnum 0 is accepted, and (expt 7 (- (expt 2 64) (expt 2 64))) is an error instead of 1.")
    n = 0
    for nm in ("to_usize", "to_u64", "to_u32"):
        f = need(rep, rule, facts, "marwood::number::Number::" + nm)
        if f is None:
            continue
        n += 1
        strict = [t for bb, t in f.calls() if (t.get("fnargs") or callee(t) or "").endswith("::is_positive")]
        key = "%s|%s" % (rule, nm)
        if strict:
            rep.fail(rule, key, "Number::%s guards an arm with is_positive(): zero in that representation does not convert, while the "
                     "fixnum 0 does — the answer depends on which representation carried the operand" % nm, [strict[0]["loc"]])
        else:
            rep.ok(rule, key, "Number::%s uses no strict sign test" % nm, [f.span])
    rep.floor(rule, "conversions to unsigned", n, 3)


def r08c(ctx, rep):
    facts = ctx["facts"]
    rep.rule("R08c", "derived operations are built from the primitive ones: Number::modulo is expressed through the Rem and Add "
             "implementations of &Number and the comparisons of Number (so it inherits their per-representation treatment) and "
             "contains no representation-specific arithmetic of its own; the divisor is added to the remainder exactly once, and "
             "only under a sign test of remainder and divisor and a zero test of the remainder (a zero remainder stays zero whatever "
             "the divisor's sign) — where the signs differ the sum is smaller in magnitude than both, "
             "whereas an unconditional (r + b) leaves the range of a fixed-width representation and comes back inexact "
             "((modulo 1 2147483647/1) was 1.0); the owned operator impls delegate to the &Number impls.")
    f = need(rep, "R08c", facts, "marwood::number::Number::modulo")
    if f is not None:
        from .. import shapes
        cs = [callee(t) for bb, t in f.calls()]
        rems = sum(1 for c in cs if c == BINOPS["rem"])
        adds = [(bb, t) for bb, t in f.calls() if callee(t) == BINOPS["add"]]
        own = disc_switches(facts, f, NUMBER)
        rf = region_facts(f, set(range(len(f.blocks))))
        lo = lossy_ops(rf)
        key = "R08c|modulo|shape"
        guarded = False
        if len(adds) == 1:
            gs = shapes.guard_shapes(f, adds[0][0], None, 4)
            # a sign comparison and a zero test of the remainder: a zero remainder has no sign to differ
            guarded = any("PartialOrd" in g for g in gs) and any(re.search(r"PartialEq>?::(ne|eq)\(", g) for g in gs)
        if rems >= 1 and len(adds) == 1 and not own and not lo and guarded:
            rep.ok("R08c", key, "modulo is a rem b, plus b under a sign comparison, over the &Number operators", [f.span])
        else:
            rep.fail("R08c", key, "modulo is not (a rem b), plus b once under a sign test, over the &Number operators (rem x%d, add x%d, "
                     "add guarded by an order comparison and a zero test: %s, own representation match: %s, float conversions: %d): an unconditional "
                     "r + b overflows the representation of an integer carried as a rational and answers inexactly; a fix-up written "
                     "per representation must treat every pair itself" % (rems, len(adds), guarded, bool(own), len(lo)), [f.span])
    for op in ("Add", "Sub", "Mul", "Div", "Rem"):
        owned = facts.fn("<marwood::number::Number as std::ops::%s>::%s" % (op, op.lower()))
        ref = "<&marwood::number::Number as std::ops::%s>::%s" % (op, op.lower())
        if owned is None:
            rep.anchor_lost("R08c", "owned %s impl" % op)
            continue
        ok = any(callee(t) == ref for bb, t in owned.calls()) and not disc_switches(facts, owned, NUMBER)
        (rep.ok if ok else rep.fail)("R08c", "R08c|owned-%s-delegates" % op.lower(),
                                     "Number %s Number delegates to &Number %s &Number" % (op, op) if ok else
                                     "the owned %s impl no longer delegates to the &Number impl: two tables to keep in step" % op,
                                     [owned.span])


def r08d(ctx, rep):
    from ..flow import Labels, places_read
    facts = ctx["facts"]
    rep.rule("R08d", "every arm computes from both operands: in each representation-pair arm of the binary operators the "
             "value returned (unless it is None / an error) is data-dependent on both the left and the right operand "
             "(def-use closure from the matched payloads to the return place). An arm that returns a constant, or ignores "
             "one operand, gives an answer that depends on which representation carried the operand.")
    n = 0
    for name, path in BINOPS.items():
        fn = facts.fn(path)
        if fn is None:
            rep.anchor_lost("R08d", path)
            continue
        lab = Labels(fn, init={1: {"L"}, 2: {"R"}})
        arms = number_arms(facts, fn)
        for (x, y), reg in sorted(arms.items(), key=lambda kv: kv[0]):
            if y in ("_", "*"):
                continue
            rets = []
            for bb in reg:
                b = fn.blocks[bb]
                for s in b["stmts"]:
                    if s["lhs"]["l"] == 0 and not s["lhs"]["p"]:
                        rv = s["rv"]
                        if rv["k"] == "agg" and rv.get("variant") == "None":
                            rets.append(("none", set(), s["loc"]))
                            continue
                        ls = set()
                        for p in places_read(rv):
                            ls |= lab.of_place(p)
                        rets.append(("val", ls, s["loc"]))
                t = b["term"]
                if t["k"] == "call" and t["dest"]["l"] == 0 and not t["dest"]["p"]:
                    ls = set()
                    for a in lab.call_arg_labels(t, bb):
                        ls |= a
                    # closures capture operands: `.map(|lhs| (lhs / rhs).trunc().into())`
                    rets.append(("val", ls, t["loc"]))
            vals = [r for r in rets if r[0] == "val"]
            if not vals:
                continue
            n += 1
            key = "R08d|%s|%s,%s" % (name, x, y)
            bad = [r for r in vals if not {"L", "R"} <= r[1]]
            if bad:
                missing = sorted({"L", "R"} - bad[0][1])
                rep.fail("R08d", key, "%s(%s, %s) returns a value that does not depend on the %s operand: the answer is a "
                         "constant of the representation pair, not of the numbers" % (
                             name, x, y, " and ".join("left" if m == "L" else "right" for m in missing)), [r[2] for r in bad])
            else:
                rep.ok("R08d", key, "%s(%s, %s): the result depends on both operands" % (name, x, y), [vals[0][2]])
    rep.floor("R08d", "value-returning arms of the binary operators", n, 80)


# ---------------------------------------------------------------------------------- C16

RADIX_FMT = {"LowerHex": "std::fmt::LowerHex", "Octal": "std::fmt::Octal", "Binary": "std::fmt::Binary"}
SIGNED = ("i8", "i16", "i32", "i64", "i128", "isize")


def r16a(ctx, rep):
    facts = ctx["facts"]
    rep.rule("R16a", "no two's-complement printing: std's LowerHex/Octal/Binary for signed machine integers (and for a "
             "Ratio of them) print the bit pattern, so a negative number prints as a huge positive one that reads back "
             "as a different number. In <Number as LowerHex/Octal/Binary>::fmt no arm may pass a signed fixed-width "
             "integer or fixed-width Ratio to those impls unless the arm writes the sign itself under a sign test and "
             "formats a magnitude (unsigned type). Conversely, an arm that formats an unsigned magnitude (u64, BigUint) must "
             "test the sign of the number, or the minus sign is lost.")
    n = 0
    for tname, tr in RADIX_FMT.items():
        fn = need(rep, "R16a", facts, "<marwood::number::Number as %s>::fmt" % tr)
        if fn is None:
            continue
        arms = number_arms(facts, fn, unary=True)
        for (x,), reg in sorted(arms.items()):
            n += 1
            rf = region_facts(fn, reg)
            bad = []
            mags = []
            for c, fa, loc, bb, t in rf["calls"]:
                # direct `fmt::LowerHex::fmt(x, f)` or through format_args (`Argument::new_lower_hex::<T>`)
                ty = None
                if fa.startswith("<") and " as %s>::fmt" % tr in fa:
                    ty = fa[1:].split(" as ")[0].lstrip("&")
                elif "fmt::rt::Argument" in fa and fa.split("::<")[0].endswith(
                        {"LowerHex": "new_lower_hex", "Octal": "new_octal", "Binary": "new_binary"}[tname]):
                    ty = fa.rsplit("::<", 1)[-1].rstrip(">").lstrip("&")
                if ty is None:
                    continue
                signed = ty in SIGNED or any(("Ratio<%s>" % s_) in ty for s_ in SIGNED)
                if signed:
                    bad.append((ty, loc, bb))
                if ty in ("u8", "u16", "u32", "u64", "u128", "usize") or ty.endswith("BigUint"):
                    mags.append((ty, loc, bb))
            sign_tests = [1 for op, aty, loc, bb, s in rf["bins"] if op in ("Lt", "Gt", "Le", "Ge") and aty in SIGNED + ("f64",)]
            sign_tests += [1 for c, fa, loc, bb, t in rf["calls"] if any(k in c for k in ("is_negative", "is_sign_negative", "signum"))]
            key = "R16a|%s|%s" % (tname, x)
            # the Float arm formats `abs() as i64` under a sign test: the cast target is signed but the value is a magnitude
            if mags and not sign_tests:
                rep.fail("R16a", key + "|sign-dropped", "<Number as %s>::fmt, %s arm: formats a magnitude (%s) without testing the "
                         "sign of the number anywhere in the arm: a negative value prints as its absolute value and reads back as "
                         "a different number" % (tname, x, ", ".join(sorted({short_path(b[0]) for b in mags}))), [b[1] for b in mags])
            elif mags:
                rep.ok("R16a", key + "|sign-dropped", "%s arm of %s formats a magnitude and tests the sign" % (x, tname), [b[1] for b in mags])
            if bad and not sign_tests:
                rep.fail("R16a", key, "<Number as %s>::fmt, %s arm: passes %s to std's %s, which prints the two's-complement "
                         "bit pattern of a negative value — the printed form reads back as a different number" % (
                             tname, x, ", ".join(sorted({short_path(b[0]) for b in bad})), tname), [b[1] for b in bad])
            elif bad:
                rep.ok("R16a", key, "%s arm of %s formats a signed type but under a sign test (sign written separately)" % (x, tname),
                       [b[1] for b in bad])
            else:
                rep.ok("R16a", key, "%s arm of %s formats only unsigned magnitudes / arbitrary-precision values" % (x, tname), [fn.span])
    rep.floor("R16a", "radix formatter arms", n, 12)


def _const_set(fn, op):
    """set of integer constants an operand can hold if all its definitions are constants, else None"""
    o = fn.origin(op)
    if o[0] == "const" and "int" in o[1]:
        return {o[1]["int"]}
    if o[0] == "local":
        vals = set()
        for d in fn.defs().get(o[1], []):
            if d[2] != "assign" or d[3]["rv"]["k"] != "use":
                return None
            c = op_const(d[3]["rv"]["a"])
            if c is None or "int" not in c:
                return None
            vals.add(c["int"])
        return vals or None
    return None


def _range_guarded(fn, op, call_bb, lo=2, hi=36):
    """is the value of `op` (through casts) compared against lo and hi on blocks dominating call_bb?"""
    # peel casts
    cur = op
    roots = []
    for _ in range(6):
        o = fn.origin(cur)
        roots.append(o)
        if o[0] == "rv" and o[1]["rv"]["k"] == "cast":
            cur = o[1]["rv"]["a"]
            continue
        break
    consts = set()
    for bb, j, s in fn.stmts():
        rv = s["rv"]
        if rv["k"] == "bin" and rv["op"] in ("Le", "Lt", "Ge", "Gt") and fn.dominates(bb, call_bb):
            for a, b in ((rv["a"], rv["b"]), (rv["b"], rv["a"])):
                c = op_const(a)
                if c is not None and "int" in c:
                    ob = fn.origin(b)
                    if any(_same_value(ob, r) or (ob[0] == r[0] == "call" and ob[1] is r[1]) for r in roots):
                        consts.add(c["int"])
    for bb, t in fn.calls():
        if callee(t).endswith("::contains") and "Range" in (t.get("fnargs") or "") and fn.dominates(bb, call_bb):
            o = fn.origin(t["args"][0])
            if o[0] == "rv" and o[1]["rv"]["k"] == "agg":
                for x in o[1]["rv"]["ops"]:
                    c = op_const(x)
                    if c is not None and "int" in c:
                        consts.add(c["int"])
    return (lo in consts) and (hi in consts or hi + 1 in consts)


def _radix_ok(fn, op, at_bb, depth=0):
    cs = _const_set(fn, op)
    if cs is not None:
        return all(2 <= c <= 36 for c in cs), "constant %s" % sorted(cs)
    o = fn.origin(op)
    if o[0] == "local" and depth < 3:
        defs = [d for d in fn.defs().get(o[1], []) if d[2] != "partial"]
        if defs and all(d[2] == "assign" for d in defs):
            why = []
            for d in defs:
                rv = d[3]["rv"]
                if rv["k"] in ("use", "cast"):
                    ok, w = _radix_ok(fn, rv["a"], d[0], depth + 1)
                    if not ok:
                        return False, w
                    why.append(w)
                else:
                    return False, "computed value"
            return True, "; ".join(sorted(set(why)))
    if _range_guarded(fn, op, at_bb):
        return True, "range-checked against 2 and 36 where it is defined"
    return False, "no range check dominates it"


def r16b(ctx, rep):
    facts = ctx["facts"]
    rep.rule("R16b", "the radix reaches the parser validated: *::from_str_radix panics for a radix outside 2..=36; "
             "every call of Number::parse_with_exactness / parse / parse_rational from outside number.rs passes a radix "
             "that is a constant in 2..=36 (all definitions constant) or a value compared against both bounds on blocks "
             "dominating the call.")
    targets = {"marwood::number::Number::parse_with_exactness", "marwood::number::Number::parse",
               "marwood::number::Number::parse_rational"}
    n = 0
    for p, f in sorted(facts.fns.items()):
        if f.crate != "marwood" or p.startswith("marwood::number::"):
            continue
        for bb, t in f.calls():
            if callee(t) in targets:
                n += 1
                radix = t["args"][-1]
                key = "R16b|%s|radix" % f.short
                ok, why = _radix_ok(f, radix, bb)
                if ok:
                    rep.ok("R16b", key, "%s passes a validated radix (%s)" % (f.short, why), [t["loc"]])
                else:
                    rep.fail("R16b", key, "%s passes an unvalidated radix to the number parser: from_str_radix panics for a "
                             "radix outside 2..=36" % f.short, [t["loc"]])
    rep.floor("R16b", "external call sites of the number parser", n, 2)
    # and inside number.rs the radix parameter is handed on unchanged
    k = 0
    for p in sorted(targets):
        f = facts.fn(p)
        if f is None:
            continue
        for bb, t in f.calls():
            if callee(t).endswith("from_str_radix"):
                k += 1
    rep.floor("R16b", "from_str_radix calls in number.rs", k, 4)


def r16c(ctx, rep):
    from . import tables
    facts = ctx["facts"]
    rep.rule("R16c", "prefix / radix tables agree: parse_number maps #b #o #d #x to 2 8 10 16, and number->string selects "
             "the Binary / Octal / LowerHex formatter for exactly 2 / 8 / 16 (anything else prints decimal).")
    pn = need(rep, "R16c", facts, "marwood::parse::parse_number")
    if pn is not None:
        got = {}
        for sconst, bb, t in tables.str_eq_consts(pn):
            # the switch on the eq result: true edge
            sw = pn.blocks[t["target"]]["term"] if t["target"] is not None else None
            if not sw or sw["k"] != "switch":
                continue
            tru = sw["otherwise"]
            for s in pn.blocks[tru]["stmts"]:
                c = op_const(s["rv"].get("a")) if s["rv"]["k"] == "use" else None
                if c is not None and "int" in c and c.get("ty") == "u32":
                    got[sconst] = c["int"]
        want = {"#b": 2, "#o": 8, "#d": 10, "#x": 16}
        for k_, v in want.items():
            key = "R16c|parse_number|%s" % k_
            if got.get(k_) == v:
                rep.ok("R16c", key, "%s selects radix %d" % (k_, v), [pn.span])
            else:
                rep.fail("R16c", key, "prefix %s selects radix %s, expected %d: a literal with this prefix denotes a different "
                         "number than string->number gives its spelling" % (k_, got.get(k_), v), [pn.span])
    ns = need(rep, "R16c", facts, "marwood::vm::builtin::number::number_string")
    if ns is not None:
        sel = {}
        for bb, b in enumerate(ns.blocks):
            t = b["term"]
            if t["k"] == "switch" and t.get("opty") in ("usize", "u32", "u64") and len(t["targets"]) >= 2:
                for v, tg in t["targets"]:
                    calls, _ = tables.arm_effects(ns, tg, stop={x for _, x in t["targets"] if x != tg} | {t["otherwise"]}, limit=8)
                    for c in calls:
                        for nm, ctor in (("LowerHex", "new_lower_hex"), ("Octal", "new_octal"), ("Binary", "new_binary"), ("Display", "new_display")):
                            if c.endswith(ctor):
                                sel.setdefault(v, nm)
        want = {16: "LowerHex", 8: "Octal", 2: "Binary"}
        for v, nm in want.items():
            key = "R16c|number_string|%d" % v
            (rep.ok if sel.get(v) == nm else rep.fail)(
                "R16c", key, "radix %d prints with %s" % (v, nm) if sel.get(v) == nm else
                "radix %d prints with %s, expected %s" % (v, sel.get(v), nm), [ns.span])


def r16e(ctx, rep, rule="R16e"):
    facts = ctx["facts"]
    rep.rule(rule, "the decimal printer does not squeeze a float through a machine integer: <Number as Display>::fmt and the "
             "number-module helpers it calls to choose a spelling (is_integer, ...) contain no float-to-int cast or "
             "ToPrimitive conversion of a float (which saturates beyond 2^63, so a large integral float would print as "
             "i64::MIN/MAX and read back as a different number). The radix printers are exempt: C16 restricts inexact "
             "numbers to radix 10.")
    fn = need(rep, rule, facts, "<marwood::number::Number as std::fmt::Display>::fmt")
    if fn is None:
        return
    cg = ctx["cg"]
    # the printer and the helpers of the number module it decides the spelling with (is_integer, ...)
    scope = [fn.path]
    seen = {fn.path}
    while scope:
        x = scope.pop()
        for y in cg.out.get(x, ()):
            if y not in seen and y.startswith("marwood::number::") and y in facts.fns and "as std::fmt::" not in y.replace(fn.path, ""):
                seen.add(y)
                scope.append(y)
    import re as _re
    bad = []
    for p_ in sorted(seen):
        g = facts.fns[p_]
        for bb, j_, st in g.stmts():
            if st["rv"]["k"] == "cast" and st["rv"]["ck"] == "FloatToInt":
                bad.append((g, "casts %s to %s" % (st["rv"]["from"], st["rv"]["to"]), st["loc"]))
        for bb, t in g.calls():
            fa = t.get("fnargs") or callee(t) or ""
            if _re.search(r"<f(32|64) as .*ToPrimitive>::to_[iu](8|16|32|64|128|size)$", fa):
                bad.append((g, "converts a float with %s" % fa.rsplit("::", 1)[-1], t["loc"]))
    rep.floor(rule, "functions deciding the decimal spelling (Display::fmt and its number-module callees)", len(seen), 2)
    if bad:
        for g, what, loc in bad:
            rep.fail(rule, "%s|%s|float-to-int" % (rule, "Display" if g is fn else g.short), "%s %s while deciding how a number is "
                     "printed: a finite float beyond the integer's range saturates (or is rejected), so its printed form is that of "
                     "a different number or of an exact one" % (g.short, what), [loc])
    else:
        rep.ok(rule, "%s|Display|float-to-int" % rule, "the decimal printer and the %d number-module helpers it calls (%s) handle floats "
               "without converting them to a machine integer" % (len(seen) - 1, ", ".join(sorted(short_path(x).rsplit("::", 1)[-1] for x in seen if x != fn.path))[:200]), [fn.span])


def r16f(ctx, rep):
    facts = ctx["facts"]
    rep.rule("R16f", "exact readings are tried before the inexact one: in Number::parse every call of f64::from_str_radix is "
             "dominated by the calls of i64::from_str_radix and BigInt::from_str_radix (it is reached only after both "
             "failed); otherwise a spelling that is a valid exact integer in the given radix (hex digits include 'e') is "
             "read as a float and loses exactness or low bits.")
    fn = need(rep, "R16f", facts, "marwood::number::Number::parse")
    if fn is None:
        return
    def sites(pred):
        return [bb for bb, t in fn.calls() if (callee(t) or "").endswith("from_str_radix") and pred(t.get("fnargs") or callee(t))]
    ints = sites(lambda x: "i64" in x)
    bigs = sites(lambda x: "BigInt" in x and "Ratio" not in x)
    flts = sites(lambda x: "f64" in x)
    if not ints or not bigs or not flts:
        rep.anchor_lost("R16f", "i64 / BigInt / f64 from_str_radix calls in Number::parse (found %d/%d/%d)" % (len(ints), len(bigs), len(flts)))
        return
    for i, fb in enumerate(flts):
        ok = any(fn.dominates(b, fb) for b in ints) and any(fn.dominates(b, fb) for b in bigs)
        (rep.ok if ok else rep.fail)("R16f", "R16f|parse|float#%d" % (i + 1),
                                     "the float reading is attempted only after the exact integer readings" if ok else
                                     "Number::parse can try the float reading before the exact integer readings: exact "
                                     "spellings containing e/E/. are read inexactly", [fn.blocks[fb]["term"]["loc"]])


def _base_chain(f, op, depth=10):
    """locals on the copy / reference / deref / call-result chain of an operand (how a value got here)"""
    out = []
    cur = op
    for _ in range(depth):
        pl = op_place(cur)
        if pl is None:
            break
        out.append(pl["l"])
        sd = f.single_def(pl["l"])
        if sd is None:
            break
        if sd[2] == "call":
            t = sd[3]
            c = callee(t) or ""
            # borrow(), as_str(), deref(), Try::branch: the value of their first argument, seen through
            if t["args"] and (c.endswith(("::borrow", "::as_str", "::deref", "::as_ref", "::clone")) or "Try>::branch" in (t.get("fnargs") or c)):
                cur = t["args"][0]
                continue
            break
        rv = sd[3]["rv"]
        if rv["k"] == "use":
            cur = rv["a"]
            continue
        if rv["k"] == "ref":
            cur = {"copy": rv["place"]}
            continue
        break
    return out


def r_fold_adjacent(ctx, rep, rule, modules, floor):
    facts = ctx["facts"]
    rep.rule(rule, "variadic comparison folds compare adjacent operands in argument order: in each fold that takes the comparison "
             "as an `impl Fn(&T, &T) -> bool` (num_comp, string_comp, char_comp) the operands come off the stack last to "
             "first; inside the loop the predicate is applied to (operand popped in this iteration, operand carried from the "
             "previous one) in that order, in every iteration (no pair is decided by a shortcut), and the carried operand is then "
             "replaced by the one just popped. A fold that keeps "
             "comparing with the last operand, or applies the predicate the other way round, answers (< 2 1 3) with #t.")
    n = 0
    for p, f in sorted(facts.fns.items()):
        if not p.startswith(tuple(modules)) or "::{closure" in p:
            continue
        if not any("impl Fn(&" in f.locals[i] and "-> bool" in f.locals[i] for i in range(1, f.argc + 1)):
            continue
        calls = [(bb, t) for bb, t in f.calls() if "as std::ops::Fn<" in (t.get("fnargs") or "") and (t.get("fnargs") or "").endswith(">::call") and len(t["args"]) == 2]
        for bb, t in calls:
            o = f.origin(t["args"][1])
            if not (o[0] == "rv" and o[1]["rv"]["k"] == "agg" and len(o[1]["rv"]["ops"]) == 2):
                continue
            loops = [(src, h) for src, h in f.back_edges() if bb in ((f.reach_from(h) & f.reach_back(src)) | {h, src})]
            if not loops:
                continue
            n += 1
            body = set()
            for src, h in loops:
                body |= (f.reach_from(h) & f.reach_back(src)) | {h, src}
            a, b = o[1]["rv"]["ops"]
            ca, cb = _base_chain(f, a), _base_chain(f, b)

            def kind(chain):
                # carried: some local on the chain is defined both outside and inside the loop; fresh: the chain ends in a
                # local all of whose definitions are inside the loop
                for l in chain:
                    ds = [d for d in f.defs().get(l, []) if d[2] != "partial"]
                    if ds and any(d[0] in body for d in ds) and any(d[0] not in body for d in ds):
                        return "carried", l
                last = chain[-1] if chain else None
                if last is not None:
                    ds = [d for d in f.defs().get(last, []) if d[2] != "partial"]
                    if ds and all(d[0] in body for d in ds):
                        return "fresh", last
                return "other", last
            ka, kb = kind(ca), kind(cb)
            nm = f.short.rsplit("::", 1)[-1]
            key = "%s|%s" % (rule, nm)
            if ka[0] == "fresh" and kb[0] == "other":
                rep.fail(rule, key + "|carry", "%s compares every operand it pops with an operand fixed before the loop: the carried "
                         "operand is never replaced by the one just popped, so operands are not compared with their neighbours" % f.short, [t["loc"]])
                continue
            if ka[0] != "fresh" or kb[0] != "carried":
                rep.fail(rule, key + "|order", "%s applies its predicate to (%s, %s) operands: expected (operand popped in this iteration, "
                         "operand carried over) — the operands are compared the wrong way round or not against the neighbour" % (
                             f.short, ka[0], kb[0]), [t["loc"]])
                continue
            rep.ok(rule, key + "|order", "%s applies the predicate to (just popped, carried)" % f.short, [t["loc"]])
            # blocks that make the fold's answer false (assign the constant false to a bool local)
            falsify = set()
            for b3 in body:
                for st in f.blocks[b3]["stmts"]:
                    c3 = op_const(st["rv"].get("a")) if st["rv"]["k"] == "use" else None
                    if c3 is not None and st["lhs"]["ty"] == "bool" and not st["lhs"]["p"] and st["lhs"]["l"] in f.names and c3.get("int") in (0, False) and "bool" in str(c3.get("ty", "bool")):
                        falsify.add(b3)
            # the answer is a conjunction: inside the loop the result flag is only ever cleared
            computed = []
            for b3 in body:
                for st in f.blocks[b3]["stmts"]:
                    if st["lhs"]["ty"] == "bool" and not st["lhs"]["p"] and st["lhs"]["l"] in f.names and f.names[st["lhs"]["l"]] in ("result", "res", "ok", "all"):
                        c3 = op_const(st["rv"].get("a")) if st["rv"]["k"] == "use" else None
                        if c3 is None or c3.get("int") not in (0, False):
                            computed.append(st)
            (rep.fail if computed else rep.ok)(
                rule, key + "|conjunction", "%s assigns its result flag a computed value inside the fold: the answer is then the outcome "
                "of one pair (the last compared) instead of the conjunction over all adjacent pairs — (char<? #\\a #\\z #\\b) is #t" % f.short
                if computed else "%s only ever clears its result flag inside the fold" % f.short, [(computed[0] if computed else t)["loc"]])
            skipping = []
            for src, h in loops:
                if f.dominates(bb, src):
                    continue
                # can an iteration go from the loop head to the latch touching neither the predicate nor a falsifying block?
                avoid = {bb} | falsify
                if h in avoid or src in avoid:
                    continue
                if src in f.reach_from(h, avoid=avoid):
                    skipping.append(src)
            (rep.fail if skipping else rep.ok)(
                rule, key + "|every-pair", "%s can complete an iteration of its fold without applying the predicate to the pair: a "
                "shortcut (identity, length, ...) decides some pairs by itself, which is wrong for at least the strict or the "
                "reflexive predicates the fold serves" % f.short if skipping else
                "%s applies the predicate in every iteration of the fold" % f.short, [t["loc"]])
            carried = kb[1]
            fresh_locals = set(ca)
            upd = False
            for d in f.defs().get(carried, []):
                if d[2] == "partial" or d[0] not in body:
                    continue
                if d[2] == "assign":
                    src_chain = set(_base_chain(f, d[3]["rv"].get("a")) if d[3]["rv"]["k"] == "use" else [])
                    # the update's source and the fresh operand share their origin (the value popped in this iteration)
                    roots_a = set()
                    for l in fresh_locals:
                        roots_a.add(l)
                    if src_chain & roots_a or _share_origin(f, src_chain, fresh_locals):
                        upd = True
            (rep.ok if upd else rep.fail)(rule, key + "|carry", "%s replaces the carried operand by the one just popped" % f.short if upd else
                                          "%s never replaces the carried operand inside the loop by the operand it has just popped: every "
                                          "operand is compared with the last one instead of with its neighbour" % f.short, [t["loc"]])
    rep.floor(rule, "comparison folds taking an impl Fn(&T, &T) -> bool", n, floor)


def _share_origin(f, chain_a, chain_b):
    """both chains reach a projection of the same local (e.g. `(x as Number).0` moved out twice)"""
    def bases(chain):
        out = set()
        for l in chain:
            sd = f.single_def(l)
            if sd is not None and sd[2] == "assign":
                rv = sd[3]["rv"]
                pl = op_place(rv.get("a")) if rv["k"] == "use" else (rv.get("place") if rv["k"] == "ref" else None)
                if pl is not None:
                    out.add(pl["l"])
        return out
    return bool(bases(chain_a) & bases(chain_b))


def r16h(ctx, rep, rule="R16h"):
    facts = ctx["facts"]
    rep.rule(rule, "string->number and the literal reader accept the same spellings: both hand the text to Number's parser "
             "(parse_with_exactness / parse), and string->number answers #f only on that parser's verdict — every construction "
             "of the #f result in string_number lies on the None edge of the parser call, none before it. A filter of its own "
             "in front of the parser rejects spellings the printer produces (exponent notation, for one) that the literal "
             "path still reads.")
    f = need(rep, rule, facts, "marwood::vm::builtin::number::string_number")
    if f is None:
        return
    parses = [bb for bb, t in f.calls() if (callee(t) or "").startswith("marwood::number::Number::parse")]
    if not parses:
        rep.anchor_lost(rule, "string_number no longer calls Number::parse*")
        return
    k = 0
    for bb, t in f.calls():
        fa = t.get("fnargs") or ""
        if not (fa.endswith("::from") or fa.endswith("::into")) or "bool" not in fa or "VCell" not in fa:
            continue
        c = op_const(t["args"][0])
        if c is None or c.get("int") not in (0, False):
            continue
        k += 1
        key = "%s|string_number|false#%d" % (rule, k)
        after = any(f.dominates(pb, bb) and pb != bb for pb in parses)
        from ..shapes import guard_shapes
        if not after and any(re.search(r"(str::<str>|<impl str>|String)::is_empty\(.*\)=T$", g) for g in guard_shapes(f, bb, None, 3)):
            after = True        # the empty string is no numeral for any parser
        (rep.ok if after else rep.fail)(
            rule, key, "string->number answers #f on the parser's verdict" if after else
            "string->number answers #f before consulting Number's parser: a pre-filter decides which spellings are numbers, and "
            "the literal reader (parse_number -> Number::parse) does not share it", [t["loc"]])
    rep.floor(rule, "#f results of string->number", k, 1)


def r16k(ctx, rep, rule="R16k"):
    from . import tables
    facts = ctx["facts"]
    rep.rule(rule, "string->number reads the prefixes a literal may carry: string_number strips leading `#` prefixes with a table "
             "over the character after the `#` that maps b o d x to the radices 2 8 10 16 (as parse_number's table does, R16c) "
             "and has arms for e and i; a numeric literal such as #xff then denotes the value string->number gives its spelling.")
    f = need(rep, rule, facts, "marwood::vm::builtin::number::string_number")
    if f is None:
        return
    strips = [t for bb, t in f.calls() if (callee(t) or "").endswith("<impl str>::strip_prefix")]
    got = {}
    for bb, arms, other, t in tables.char_switches(f):
        for v, tg in arms.items():
            others = {x for x in arms.values() if x != tg} | {other}
            seen, order = {tg}, [tg]
            i = 0
            while i < len(order) and len(order) < 6:
                b = order[i]
                i += 1
                for st in f.blocks[b]["stmts"]:
                    c = op_const(st["rv"].get("a")) if st["rv"]["k"] == "use" else None
                    if c is not None and c.get("ty") == "u32" and "int" in c:
                        got.setdefault(chr(v), c["int"])
                    if st["rv"]["k"] == "agg" and (st["rv"].get("adt") or "").endswith("Exactness"):
                        got.setdefault(chr(v), st["rv"].get("variant"))
                for x in f.succ[b]:
                    if x not in seen and x not in others:
                        seen.add(x)
                        order.append(x)
    want = {"b": 2, "o": 8, "d": 10, "x": 16, "e": "Exact", "i": "Inexact"}
    if not strips or not got:
        rep.fail(rule, rule + "|string_number|prefix-table", "string_number hands the string to Number's parser without looking for `#` "
                 "prefixes: (string->number \"#xff\") is #f although the literal #xff is 255", [f.span])
        return
    for k_, v in sorted(want.items()):
        key = "%s|string_number|#%s" % (rule, k_)
        if got.get(k_) == v:
            rep.ok(rule, key, "#%s is read as %s" % (k_, v), [f.span])
        else:
            rep.fail(rule, key, "string_number reads the prefix #%s as %s, a literal reads it as %s" % (k_, got.get(k_), v), [f.span])


def r16g(ctx, rep, rule="R16g"):
    import re as _re2
    facts = ctx["facts"]
    rep.rule(rule, "a radix printer prints every numeric component in its own radix: inside <Number as LowerHex / Octal / "
             "Binary>::fmt each formatting of a number — a fmt::rt::Argument constructor over a numeric type, or a direct "
             "<T as fmt::X>::fmt call for numeric T — uses that same trait. A numerator in hexadecimal followed by a "
             "denominator in decimal reads back as a different rational.")
    want = {"LowerHex": "new_lower_hex", "Octal": "new_octal", "Binary": "new_binary"}
    numeric = _re2.compile(r"(?:^|[<&:\s])(i8|i16|i32|i64|i128|isize|u8|u16|u32|u64|u128|usize|f32|f64|BigInt|BigUint|Ratio<[^>]*>)(?:$|[>,\s])")
    n = 0
    for tr, ctor in sorted(want.items()):
        f = facts.fns.get("<marwood::number::Number as std::fmt::%s>::fmt" % tr)
        if f is None:
            rep.anchor_lost(rule, "<Number as %s>::fmt" % tr)
            continue
        bad = []
        for bb, t in f.calls():
            fa = t.get("fnargs") or callee(t) or ""
            m = _re2.search(r"fmt::rt::Argument::<[^>]*>::(new_[a-z_]+)::<(.*)>$", fa)
            if m:
                if numeric.search(m.group(2)):
                    n += 1
                    if m.group(1) != ctor:
                        bad.append((t, "formats a %s with {%s}" % (m.group(2), m.group(1).replace("new_", ""))))
                continue
            m = _re2.match(r"<(.*) as std::fmt::([A-Za-z]+)>::fmt$", fa)
            if m and numeric.search(m.group(1)):
                n += 1
                if m.group(2) != tr:
                    bad.append((t, "calls <%s as fmt::%s>::fmt" % (m.group(1), m.group(2))))
        key = "%s|%s" % (rule, tr)
        if bad:
            rep.fail(rule, key, "<Number as %s>::fmt %s: that component is written in another radix than the rest of the number" % (
                tr, "; ".join(w for _, w in bad)), [bad[0][0]["loc"]])
        else:
            rep.ok(rule, key, "<Number as %s>::fmt formats every numeric component with fmt::%s" % (tr, tr), [f.span])
    rep.floor(rule, "numeric formatting sites inside the radix printers", n, 12)


def _paths_to(fn, target, limit=4000):
    """acyclic paths entry -> target as lists of (switch_bb, taken) decisions; None when there are too many"""
    out = []
    stack = [(0, [], frozenset([0]))]
    while stack:
        bb, dec, seen = stack.pop()
        if bb == target:
            out.append(dec)
            if len(out) > limit:
                return None
            continue
        t = fn.blocks[bb]["term"]
        if t["k"] == "switch":
            for v, tg in [(v, tg) for v, tg in t["targets"]] + [("else", t.get("otherwise"))]:
                if tg is not None and tg not in seen and not fn.blocks[tg].get("cleanup"):
                    stack.append((tg, dec + [(bb, v)], seen | {tg}))
        else:
            for tg in fn.succ[bb]:
                if tg not in seen and not fn.blocks[tg].get("cleanup"):
                    stack.append((tg, dec, seen | {tg}))
    return out


def r08j(ctx, rep, rule="R08j"):
    """Ratio<i32>::checked_div and gcd(0, i32::MIN)"""
    from .. import shapes
    facts = ctx["facts"]
    rep.rule(rule, "a library routine with a hole is entered only around the hole: num-rational's Ratio<i32>::checked_div reduces by "
             "gcd(lhs.numer, rhs.numer) before dividing, and num-integer's gcd(0, i32::MIN) overflows (abs of i32::MIN) — "
             "(/ 0 -2147483648/3) must be 0, not a panic. On every path in the library to a call of Ratio<i32>::checked_div "
             "either the dividend's numerator was tested and found non-zero, or the divisor's numerator was tested and found zero "
             "(checked_div answers None for a zero divisor before it reduces).")
    n = 0
    for p, f in sorted(facts.fns.items()):
        if f.crate != "marwood":
            continue
        k = 0
        for bb, t in f.calls():
            if not (callee(t) or "").endswith("CheckedDiv>::checked_div") or "Ratio<i32>" not in (t.get("fnargs") or ""):
                continue
            k += 1
            n += 1
            key = "%s|%s|checked_div#%d" % (rule, f.short.rsplit("::", 1)[-1] if "{closure" not in f.short else f.short, k)
            a1 = re.escape(shapes.shape(f, t["args"][0], 3))
            a2 = re.escape(shapes.shape(f, t["args"][1], 3))
            paths = _paths_to(f, bb)
            if paths is None:
                rep.fail(rule, key, "too many paths to the checked_div call in %s to decide" % f.short, [t["loc"]])
                continue
            bad = None
            for dec in paths:
                ok = False
                for sb, v in dec:
                    tt = f.blocks[sb]["term"]
                    sh = shapes.shape(f, tt["op"], 5)
                    truth = (v == "else") if tt.get("opty") == "bool" else None
                    if truth is None:
                        continue
                    m = re.fullmatch(r"\((Eq|Ne) \*?num::rational::Ratio::<T>::numer\((.*)\) c:0\)", sh)
                    mz = re.fullmatch(r"<num::rational::Ratio<T> as num::Zero>::is_zero\((.*)\)", sh)
                    if m:
                        who, is_zero = m.group(2), (truth if m.group(1) == "Eq" else (not truth))
                    elif mz:
                        who, is_zero = mz.group(1), truth      # a ratio is zero exactly when its numerator is
                    else:
                        continue
                    if re.fullmatch(a1, who) and not is_zero:
                        ok = True
                    if re.fullmatch(a2, who) and is_zero:
                        ok = True
                if not ok:
                    bad = dec
                    break
            (rep.ok if bad is None else rep.fail)(
                rule, key, "%s reaches checked_div only with a non-zero dividend or a zero divisor (%d path(s))" % (f.short, len(paths)) if bad is None else
                "%s can call Ratio<i32>::checked_div with a zero dividend and a non-zero divisor: gcd(0, i32::MIN) overflows inside it, "
                "so (/ 0 -2147483648/3) panics instead of returning 0" % f.short, [t["loc"]])
    if n == 0:
        rep.ok(rule, rule + "|none", "the library does not call Ratio<i32>::checked_div at all (rational division is carried out in 64 bits)",
               nontrivial=False)


def r08k(ctx, rep, rule="R08k"):
    """an integer carried as a rational is an integer"""
    from .. import shapes
    facts = ctx["facts"]
    rep.rule(rule, "the carrier does not decide exactness: Ratio<i32> also carries integers (6/3 is stored as 2/1), and for an integer "
             "the Fixnum arm of every unary operation is exact whatever its size. In the Rational arms of abs, round, floor, ceil, "
             "truncate, pow, numerator and denominator every conversion to a float is therefore dominated by the false edge of an "
             "is_integer test of the operand: (abs (/ -2147483648 1)) and (expt (/ 2 1) 40) are exact integers.")
    n = 0
    for name in UNOPS:
        if name == "to_exact":
            continue
        fn = need(rep, rule, facts, "marwood::number::Number::" + name)
        if fn is None:
            continue
        arms = number_arms(facts, fn, unary=True)
        reg = arms.get(("Rational",))
        if not reg:
            continue
        n += 1
        rf = region_facts(fn, reg)
        sites = [(bb, "%s as %s" % (frm, to), loc) for ck, frm, to, loc, bb, s_ in rf["casts"] if ck == "IntToFloat"]
        for c, fa, loc, bb, t in rf["calls"]:
            if (fa.endswith("::to_f64") or c.endswith("::to_f64")) and not fa.startswith("<f64 "):
                sites.append((bb, "to_f64", loc))
        bad = []
        for bb, what, loc in sites:
            gs = shapes.guard_shapes(fn, bb, None, 4)
            if not any(re.search(r"is_integer\(.*\)=F$", g) for g in gs):
                bad.append((what, loc))
        key = "%s|%s|Rational" % (rule, name)
        (rep.ok if not bad else rep.fail)(
            rule, key, "%s(Rational) converts to a float only where the operand is not an integer (%d conversion site(s))" % (name, len(sites)) if not bad else
            "%s(Rational) converts to a float (%s) without having excluded an integer-valued operand: an exact integer carried as n/1 "
            "gets an inexact answer where the same integer as a fixnum gets the exact one" % (name, ", ".join(sorted({b[0] for b in bad}))),
            [b[1] for b in bad] or [fn.span])
    rep.floor(rule, "Rational arms of the unary operations", n, 6)


def r08m(ctx, rep, rule="R08m"):
    """a bignum beyond the range of a double with a finite result"""
    facts = ctx["facts"]
    rep.rule(rule, "an inexact fallback approximates the result, not the operands (one-sided form of R08g): a bignum beyond 1.8e308 "
             "converts to infinity, but its quotient by a fixnum or a rational, and its product with a rational, can be far inside "
             "the range of a double — (/ (expt 10 310) 1000) is 1e307. In the arms BigInt / Fixnum and BigInt / Rational of "
             "division and BigInt * Rational, Rational * BigInt of multiplication no float multiplication or division takes an "
             "operand that is the to_f64 conversion of the bignum.")
    n = 0
    for name, pairs in (("div", [("BigInt", "Fixnum"), ("BigInt", "Rational")]), ("mul", [("BigInt", "Rational"), ("Rational", "BigInt")])):
        fn = need(rep, rule, facts, BINOPS[name])
        if fn is None:
            continue
        arms = number_arms(facts, fn)
        for pr in pairs:
            reg = arms.get(pr)
            if reg is None:
                continue
            n += 1
            bad = []
            for op, aty, loc, bb, st in region_facts(fn, reg)["bins"]:
                if op not in ("Div", "Mul") or aty != "f64":
                    continue

                def from_big(o):
                    og = fn.origin(o)
                    for _ in range(3):
                        if og[0] == "call" and (callee(og[1]) or "").endswith(("::unwrap_or", "::unwrap", "::unwrap_or_default")):
                            og = fn.origin(og[1]["args"][0])
                    return og[0] == "call" and "BigInt" in (og[1].get("fnargs") or "") and (og[1].get("fnargs") or "").endswith("::to_f64")
                if from_big(st["rv"]["a"]) or from_big(st["rv"]["b"]):
                    bad.append(loc)
            key = "%s|%s|%s,%s" % (rule, name, pr[0], pr[1])
            (rep.ok if not bad else rep.fail)(
                rule, key, "%s(%s, %s) does not compute with the converted bignum" % (name, pr[0], pr[1]) if not bad else
                "%s(%s, %s) multiplies / divides the to_f64 conversion of the bignum operand: beyond 1.8e308 that is infinity, and so "
                "is the answer, although the true result is a finite double" % (name, pr[0], pr[1]), bad or [fn.span])
    rep.floor(rule, "bignum-with-small-operand arms of * and /", n, 4)


def r08n(ctx, rep, rule="R08n"):
    """a rational is raised exactly, then rounded"""
    facts = ctx["facts"]
    rep.rule(rule, "a power is rounded once: raising the float nearest to a rational multiplies that rounding error by the exponent "
             "(relative error about exp x 2^-53: (expt 4/3 2400) was off by 2^-43, past the 2^-50 C08 allows a fallback). In the "
             "Rational arm of Number::pow no float power function (powf / powi) is applied; the fallback converts the exact power.")
    fn = need(rep, rule, facts, "marwood::number::Number::pow")
    if fn is None:
        return
    reg = number_arms(facts, fn, unary=True).get(("Rational",))
    if not reg:
        rep.anchor_lost(rule, "Rational arm of Number::pow")
        return
    bad = [loc for c, fa, loc, bb, t in region_facts(fn, reg)["calls"] if re.search(r"f64>?::(powf|powi)$", c or "") or re.search(r"f64>?::(powf|powi)$", fa)]
    key = rule + "|pow|Rational"
    (rep.ok if not bad else rep.fail)(
        rule, key, "pow(Rational) applies no float power function" if not bad else
        "pow(Rational) raises a float with powf/powi: the base was rounded first and the error grows with the exponent", bad or [fn.span])


def r08p(ctx, rep, rule="R08p"):
    """expt: 'exponent too large' only where the power cannot be written down"""
    from .. import shapes
    facts = ctx["facts"]
    rep.rule(rule, "an error is not a result: Number::pow takes a u32 exponent, and the expt procedure refuses a larger one. The powers "
             "of 0, 1 and -1 are 0, 1 and +-1 whatever the exponent, so the refusal is raised only after the base was compared "
             "(through Number's PartialEq) with those bases: every construction of the 'exponent is too large' error in expt is "
             "reached only along paths on which three equality tests of the base came out false (or an order test found the exponent "
             "not positive).")
    fn = need(rep, rule, facts, "marwood::vm::builtin::number::expt")
    if fn is None:
        return
    errs = []
    for bb, j, st in fn.stmts():
        rv = st["rv"]
        if rv["k"] == "agg" and rv.get("variant") == "InvalidSyntax" and (rv.get("adt") or "").endswith("error::Error"):
            errs.append((bb, st["loc"]))
    if not errs:
        rep.anchor_lost(rule, "InvalidSyntax construction in expt")
        return
    for i, (bb, loc) in enumerate(errs):
        key = "%s|expt|too-large#%d" % (rule, i + 1)
        paths = _paths_to(fn, bb)
        if paths is None:
            rep.fail(rule, key, "too many paths to the error in expt to decide", [loc])
            continue
        worst = None
        for dec in paths:
            eqf, ordf = 0, 0
            for sb, v in dec:
                tt = fn.blocks[sb]["term"]
                if tt.get("opty") != "bool":
                    continue
                sh = shapes.shape(fn, tt["op"], 3)
                if v == 0 and re.search(r"PartialEq>?::eq\(", sh):
                    eqf += 1
                if v == 0 and re.search(r"PartialOrd::(gt|ge|lt|le)\(", sh):
                    ordf += 1
            score = 3 if ordf else eqf
            worst = score if worst is None else min(worst, score)
        ok = worst is not None and worst >= 3
        (rep.ok if ok else rep.fail)(
            rule, key, "expt refuses an exponent only after the base was compared with 0, 1 and -1 (or the exponent found negative) on "
            "each of %d path(s)" % len(paths) if ok else
            "expt reports 'exponent is too large' on a path that has not compared the base with 0, 1 and -1 (%s equality test(s) on "
            "the weakest path): (expt 1 4294967296) is 1 and (expt -1 4294967297) is -1" % worst, [loc])


def r16m(ctx, rep, rule="R16m"):
    """the scanner keeps an exponent's sign inside the numeral"""
    facts, cg = ctx["facts"], ctx["cg"]
    rep.rule(rule, "a literal and its spelling denote the same number: string->number reads 1e-7 and 2.5E+3, so the scanner has to "
             "deliver those spellings as one Number token. '+' and '-' are identifier characters as far as the scanner's general "
             "classes go (a token that meets one turns into a symbol), so the number scanners — scan_number, scan_dot and the "
             "predicates they call — must examine the scanned character against both sign characters somewhere; a scanner that "
             "never looks for them makes every literal with a signed exponent a symbol.")
    scope = set()
    for nm in ("marwood::lex::scan_number", "marwood::lex::scan_dot"):
        f = need(rep, rule, facts, nm)
        if f is None:
            return
        scope.add(nm)
        for bb, t in f.calls():
            c = callee(t)
            if c in facts.fns and c.startswith("marwood::lex::") and c != "marwood::lex::is_subsequent_identifier":
                scope.add(c)
                for b2, t2 in facts.fns[c].calls():
                    c2 = callee(t2)
                    if c2 in facts.fns and c2.startswith("marwood::lex::") and c2 != "marwood::lex::is_subsequent_identifier":
                        scope.add(c2)
    for nm in ("scan_number", "scan_dot"):
        reach = {"marwood::lex::" + nm}
        f = facts.fns["marwood::lex::" + nm]
        for bb, t in f.calls():
            c = callee(t)
            if c in scope:
                reach.add(c)
                reach |= {callee(t2) for b2, t2 in facts.fns[c].calls() if callee(t2) in scope}
        seen = set()
        for p in reach:
            g = facts.fns[p]
            for bb, j, st in g.stmts():
                rv = st["rv"]
                if rv["k"] == "bin" and rv["op"] in ("Eq", "Ne") and rv.get("aty") == "char":
                    for side in ("a", "b"):
                        c = op_const(rv[side])
                        if c is not None and "int" in c:
                            seen.add(c["int"])
            for bb, b in enumerate(g.blocks):
                t = b["term"]
                if t["k"] == "switch" and (op_place(t["op"]) or {}).get("ty") == "char":
                    seen |= {v for v, tg in t["targets"]}
        key = "%s|%s|sign-characters" % (rule, nm)
        ok = 43 in seen and 45 in seen
        (rep.ok if ok else rep.fail)(
            rule, key, "%s (with the predicates it calls) examines the character against '+' and '-'" % nm if ok else
            "%s and the predicates it calls never compare the scanned character with %s: the sign of an exponent ends the numeral or "
            "turns it into a symbol, so the literal 1e-7 is not the number (string->number \"1e-7\") is" % (
                nm, " and ".join(repr(chr(x)) for x in (43, 45) if x not in seen)), [f.span])


def r16q(ctx, rep, rule="R16q"):
    """the library parsers are entered only with a numeral"""
    from ..shapes import dominating_guards
    facts, cg = ctx["facts"], ctx["cg"]
    rep.rule(rule, "what string->number accepts is what a literal can spell: Number::parse tries i64, BigInt, BigRational and f64 "
             "::from_str_radix in turn, and those accept more than numerals — num-bigint skips underscores (1_000), "
             "BigRational takes a sign after the slash (1/-2), the float parsers take inf, nan, infinity and a point with no "
             "digit (#x.) — none of which the scanner delivers as a number token. Every *::from_str_radix call in Number::parse, "
             "and in the helpers only it calls, is therefore dominated by the true edge of a predicate of the number module "
             "applied to the same text (the numeral check); (string->number \"1_000\") was 1000 and (string->number \"inf\") a "
             "number while the literals are symbols.")
    f = need(rep, rule, facts, "marwood::number::Number::parse")
    if f is None:
        return
    scope = [f]
    for bb, t in f.calls():
        c = callee(t)
        if c in facts.fns and c.startswith("marwood::number::") and cg.callers(c) <= {f.path} and \
                any((callee(t2) or "").endswith("::from_str_radix") for _, t2 in facts.fns[c].calls()):
            scope.append(facts.fns[c])
    n = 0
    guarded_entry = False
    bad = []
    for g in scope:
        for bb, t in g.calls():
            if not (callee(t) or "").endswith("::from_str_radix"):
                continue
            n += 1
            ok = False
            if g is f:
                for sb, cond, taken, tt in dominating_guards(g, bb):
                    o = g.origin(cond)
                    if o[0] == "call" and (callee(o[1]) or "").startswith("marwood::number::") and taken != 0 and o[1]["args"]:
                        a0 = g.origin(o[1]["args"][0])
                        if a0[0] == "arg" and a0[1] == 1:
                            ok = True
                            guarded_entry = True
            else:
                ok = None   # decided below: the helper is entered from parse only
            if ok is False:
                bad.append(t["loc"])
    # helpers: every call of them in parse must itself be guarded
    for g in scope[1:]:
        for bb, t in f.calls():
            if callee(t) == g.path:
                okc = False
                for sb, cond, taken, tt in dominating_guards(f, bb):
                    o = f.origin(cond)
                    if o[0] == "call" and (callee(o[1]) or "").startswith("marwood::number::") and taken != 0 and o[1]["args"]:
                        a0 = f.origin(o[1]["args"][0])
                        if a0[0] == "arg" and a0[1] == 1:
                            okc = True
                if not okc:
                    bad.append(t["loc"])
    key = rule + "|Number::parse|numeral-check-first"
    (rep.ok if not bad else rep.fail)(
        rule, key, "all %d library parser calls of Number::parse lie behind the numeral check" % n if not bad else
        "Number::parse hands the text to a library from_str_radix without a numeral check of its own in front: spellings the "
        "scanner never delivers as a number (1_000, 1/-2, inf, nan, a bare point) are numbers for string->number", bad[:3])
    rep.floor(rule, "library parser calls in Number::parse and its helpers", n, 4)


def r16r(ctx, rep, rule="R16r"):
    """a prefix touches its numeral"""
    facts = ctx["facts"]
    rep.rule(rule, "a prefix is part of the numeral: the scanner delivers #x, #e .. as tokens of their own and skips whitespace and "
             "comments between tokens, so parse_number has to insist that the token it applies the prefix to begins where the "
             "prefix ends — a comparison of the next token's span start with the prefix's span end inside the prefix loop, with "
             "an error on the unequal edge. Otherwise `#x 10` and `(list #x ;c\\n 10)` are the number 16 in program text while "
             "(string->number \"#x 10\") is #f.")
    f = need(rep, rule, facts, "marwood::parse::parse_number")
    if f is None:
        return
    body = set()
    for src, h in f.back_edges():
        body |= (f.reach_from(h) & f.reach_back(src)) | {h, src}
    hits = []
    for bb, j, st in f.stmts():
        rv = st["rv"]
        if bb in body and rv["k"] == "bin" and rv["op"] in ("Eq", "Ne") and rv.get("aty") == "usize":
            def fld(op):
                p_ = op_place(op)
                o = f.origin(op)
                names = [e.get("n") for e in (o[2] if len(o) > 2 else []) if isinstance(e, dict)]
                if p_ is not None:
                    names = names or [e.get("n") for e in p_["p"] if isinstance(e, dict)]
                return names
            na, nb = fld(rv["a"]), fld(rv["b"])
            if ("span" in na or "span" in nb) and ("0" in na + nb) :
                hits.append(st["loc"])
    key = rule + "|parse_number|prefix-adjacent"
    (rep.ok if hits else rep.fail)(
        rule, key, "parse_number compares the start of the token after a prefix with the end of the prefix" if hits else
        "parse_number takes whatever token follows a number prefix, however far away: whitespace and comments may stand between "
        "#x and its digits in program text, which string->number does not accept", hits or [f.span])


def r08q(ctx, rep, rule="R08q"):
    """an exact result that fits is not given up on"""
    facts = ctx["facts"]
    rep.rule(rule, "inexact only when the result is not representable: Ratio<i32>'s checked_add / checked_sub / checked_div give up as "
             "soon as an intermediate product leaves 32 bits, also where the reduced result fits — (+ 2147483647/2 2147483647/2) "
             "is 2147483647, (- 50000 2147483647/50000) is 352516353/50000 — and the operators then fall back to a float. In the "
             "arms of +, - and / that have a rational operand the exact attempt is therefore not made with those 32-bit "
             "operations (it is formed in 64 bits, where the cross products of 32-bit parts cannot overflow, and narrowed).")
    n = 0
    for name in ("add", "sub", "div"):
        fn = need(rep, rule, facts, BINOPS[name])
        if fn is None:
            continue
        for (x, y), reg in sorted(number_arms(facts, fn).items(), key=lambda kv: kv[0]):
            if "Rational" not in (x, y) or "Float" in (x, y) or not isinstance(reg, set):
                continue
            n += 1
            bad = []
            for c, fa, loc, bb, t in region_facts(fn, reg)["calls"]:
                if re.search(r"Ratio<i32> as num::Checked(Add|Sub|Div)>::checked_(add|sub|div)$", fa or ""):
                    bad.append(loc)
            key = "%s|%s|%s,%s" % (rule, name, x, y)
            (rep.ok if not bad else rep.fail)(
                rule, key, "%s(%s, %s) makes its exact attempt in a width that cannot fail for a representable result" % (name, x, y) if not bad else
                "%s(%s, %s) makes its exact attempt with a 32-bit checked operation of Ratio<i32>, which fails on an intermediate "
                "product even where the reduced result fits: a representable exact result comes back as a float" % (name, x, y), bad)
    rep.floor(rule, "exact arms of + - / with a rational operand", n, 12)


def r08r(ctx, rep, rule="R08r"):
    """round goes to the even neighbour on a tie"""
    facts = ctx["facts"]
    rep.rule(rule, "round is round-to-even (R7RS 6.2.6): Ratio::round and f64::round take a tie away from zero — (round 5/2) was 3, "
             "(round 1/2) was 1, a wrong exact value. Number::round calls neither.")
    fn = need(rep, rule, facts, "marwood::number::Number::round")
    if fn is None:
        return
    bad = [t["loc"] for bb, t in fn.calls() if re.search(r"(Ratio::<T>::round|f64>?::round)$", callee(t) or "") or
           re.search(r"(Ratio<i(32|64)>::round|<impl f64>::round)$", t.get("fnargs") or "")]
    key = rule + "|round|ties-to-even"
    (rep.ok if not bad else rep.fail)(
        rule, key, "Number::round uses neither Ratio::round nor f64::round" if not bad else
        "Number::round rounds with Ratio::round / f64::round, which take a tie away from zero: (round 5/2) is 3 instead of 2", bad)


def r08s(ctx, rep, rule="R08s"):
    """a variadic + or * does not round in the middle"""
    facts, cg = ctx["facts"], ctx["cg"]
    rep.rule(rule, "the order of the operands does not decide exactness: the binary operators fall back to a float when an exact "
             "result does not fit the representation of its operands, and a variadic +, - or * that feeds such a float into its "
             "next step keeps it although a later operand brings the result back into range — (* 1/65536 65536 65536) was "
             "65536.0 and (* 65536 65536 1/65536) was 65536 — or turns an overflowed fallback into a NaN. The fold of plus, "
             "minus and multiply (the procedure or the local helper its loop calls) therefore tests the result of a step on "
             "exact operands for exactness (Number::is_exact on it) and owns an arbitrary-precision path (BigRational "
             "arithmetic) for the steps that fail the test.")
    n = 0
    for nm in ("plus", "minus", "multiply"):
        f = need(rep, rule, facts, "marwood::vm::builtin::number::" + nm)
        if f is None:
            continue
        body = set()
        for src, h in f.back_edges():
            body |= (f.reach_from(h) & f.reach_back(src)) | {h, src}
        scope = [f] + [facts.fns[callee(t)] for bb, t in f.calls() if bb in body and callee(t) in facts.fns and
                       (callee(t) or "").startswith("marwood::vm::builtin::number::")]
        steps, tests, wide = [], [], []
        for g in scope:
            for bb, t in g.calls():
                c = callee(t) or ""
                fa = t.get("fnargs") or ""
                if re.search(r"number::Number as std::ops::(Add|Mul|Sub|AddAssign|MulAssign|SubAssign)", fa or c):
                    steps.append((g, bb, t))
                if c == "marwood::number::Number::is_exact":
                    tests.append((g, bb, t))
                if re.search(r"Ratio<(num::)?(bigint::)?BigInt>", fa) and re.search(r"std::ops::(Add|Mul|Sub)\b", fa):
                    wide.append((g, bb, t))
        n += 1
        key = "%s|%s|exactness-watched" % (rule, nm)
        watched = False
        for g, bb, t in tests:
            o = g.origin(t["args"][0]) if t["args"] else None
            if o is not None and o[0] == "rv" and o[1]["rv"]["k"] == "ref":
                o = g.origin({"copy": o[1]["rv"]["place"]})
            if o is not None and o[0] == "call" and re.search(r"std::ops::(Add|Mul|Sub)", (o[1].get("fnargs") or callee(o[1]) or "")):
                watched = True
            if o is not None and o[0] == "local":
                for d in g.defs().get(o[1], []):
                    if d[2] == "call" and re.search(r"std::ops::(Add|Mul|Sub)", (d[3].get("fnargs") or callee(d[3]) or "")):
                        watched = True
        ok = bool(steps) and watched and bool(wide)
        (rep.ok if ok else rep.fail)(
            rule, key, "%s tests each step's result for exactness and recomputes in arbitrary precision" % nm if ok else
            "%s folds with the binary operators and keeps whatever they return (steps: %d, exactness tests on a step's result: %s, "
            "arbitrary-precision operations: %d): a float fallback in the middle of the fold stays, so the result depends on the order "
            "of the operands" % (nm, len(steps), watched, len(wide)), [f.span])
    rep.floor(rule, "variadic arithmetic folds", n, 3)


_NUM_STEP = re.compile(r"number::Number as std::ops::(Add|Sub|Mul|Div)(Assign)?>")


def _forward_locals(g, start, loose=False):
    """locals that hold (a copy, a move or a reference of) the value of local `start`; loose: also the tuples it is put
    into and whatever is taken out of those again"""
    out = {start}
    changed = True
    while changed:
        changed = False
        for bb, j, st in g.stmts():
            rv = st["rv"]
            src = None
            if rv["k"] == "use":
                src = op_place(rv["a"])
            elif rv["k"] == "ref":
                src = rv["place"]
            elif loose and rv["k"] == "agg" and rv.get("adt") == "(tuple)":
                for o in rv.get("ops", []):
                    po = op_place(o)
                    if po is not None and po["l"] in out and not po["p"]:
                        src = po
            if src is None or src["l"] not in out or (not loose and [e for e in src["p"] if e != "*"]):
                continue
            d = st["lhs"]
            if not d["p"] and d["l"] not in out:
                out.add(d["l"])
                changed = True
    return out


def _params_tested_exact(facts, path):
    """1-based parameter positions of a helper on which it calls Number::is_exact"""
    h = facts.fns.get(path)
    out = set()
    if h is None:
        return out
    for bb, t in h.calls():
        if callee(t) == "marwood::number::Number::is_exact" and t["args"]:
            o = h.origin(t["args"][0])
            if o[0] == "arg" and not [e for e in o[2] if e != "*"]:
                out.add(o[1])
    return out


def r08t(ctx, rep, rule="R08t"):
    """no arithmetic step of + - * / on exact operands leaves the procedure unexamined"""
    from ..shapes import dominating_guards
    facts = ctx["facts"]
    rep.rule(rule, "inexact only when the result is not representable, in every procedure of the list: the binary operators of "
             "Number give a float as soon as the exact result leaves the representation of the operands (32-bit rational parts), "
             "also where it is an integer or reduces to parts that fit — (/ 65536 1/65536) was 4294967296.0, (/ -2147483648 -1) "
             "2147483648.0, (- (/ -2147483648 1)) 2147483648.0. In plus, minus, multiply, divide and the local helpers they call, "
             "the result of every Number + - * / (and += -= *= /=) step is therefore examined for exactness before it is "
             "returned: it reaches a Number::is_exact call in the same function, or is handed to a helper of the module that "
             "calls is_exact on that parameter. A step is excused when one of its operands is known to be inexact on the way "
             "there (the false edge of is_exact on it, or the None arm of to_big_rational().filter(is_exact)).")
    PREFIX = "marwood::vm::builtin::number::"
    scope = []
    for nm in ("plus", "minus", "multiply", "divide"):
        f = need(rep, rule, facts, PREFIX + nm)
        if f is None:
            continue
        scope.append((nm, f))
        for bb, t in f.calls():
            c = callee(t) or ""
            if c.startswith(PREFIX) and c in facts.fns and "{closure" not in c and all(c != g.path for _, g in scope):
                scope.append((nm + ">" + c[len(PREFIX):], facts.fns[c]))
    n = 0
    per = {}
    for nm, g in scope:
        exact_calls = [(bb, t) for bb, t in g.calls() if callee(t) == "marwood::number::Number::is_exact" and t["args"]]
        helper_calls = []
        for bb, t in g.calls():
            c = callee(t) or ""
            if c.startswith(PREFIX) and c in facts.fns:
                tested = _params_tested_exact(facts, c)
                if tested:
                    helper_calls.append((bb, t, tested))
        closures_test = any(p.startswith(g.path + "::{closure") and any(callee(t2) == "marwood::number::Number::is_exact"
                                                                      for _, t2 in h.calls()) for p, h in facts.fns.items())
        for bb, t in g.calls():
            fa = (t.get("fnargs") or "") + " " + (callee(t) or "")
            m = _NUM_STEP.search(fa)
            if not m:
                continue
            n += 1
            assign = bool(m.group(2))
            if assign:
                o = g.origin(t["args"][0])
                loc = o[1] if o[0] == "local" else (op_place(t["args"][0]) or {}).get("l")
                if o[0] == "rv" and o[1]["rv"]["k"] == "ref":
                    loc = o[1]["rv"]["place"]["l"]
                p0 = op_place(t["args"][0])
                if p0 is not None:
                    sd = g.single_def(p0["l"])
                    if sd is not None and sd[2] == "stmt" and sd[3]["rv"]["k"] == "ref":
                        loc = sd[3]["rv"]["place"]["l"]
            else:
                loc = t["dest"]["l"] if not t["dest"]["p"] else None
            watched = False
            if loc is not None:
                fl = _forward_locals(g, loc)
                after = g.reach_from(bb)
                for b2, t2 in exact_calls:
                    p2 = op_place(t2["args"][0])
                    if p2 is not None and p2["l"] in fl and (b2 in after or not assign):
                        watched = True
                for b2, t2, tested in helper_calls:
                    for k in tested:
                        if k - 1 < len(t2["args"]):
                            p2 = op_place(t2["args"][k - 1])
                            if p2 is not None and p2["l"] in fl and (b2 in after or not assign):
                                watched = True
            excused = False
            if not watched:
                operands = set()
                for a in t["args"][:2]:
                    pa = op_place(a)
                    if pa is None:
                        continue
                    operands.add(pa["l"])
                    oa = g.origin(a)
                    if oa[0] == "local":
                        operands.add(oa[1])
                    sd = g.single_def(pa["l"])
                    if sd is not None and sd[2] == "stmt" and sd[3]["rv"]["k"] in ("ref", "use"):
                        src = sd[3]["rv"].get("place") or op_place(sd[3]["rv"].get("a"))
                        if src is not None:
                            operands.add(src["l"])
                for sb, cond, taken, tt in dominating_guards(g, bb):
                    oc = g.origin(cond)
                    if oc[0] == "call" and callee(oc[1]) == "marwood::number::Number::is_exact" and taken == 0:
                        pa = op_place(oc[1]["args"][0])
                        if pa is not None and any(pa["l"] in _forward_locals(g, x) for x in operands):
                            excused = True
                    if oc[0] == "rv" and oc[1]["rv"]["k"] == "disc" and taken == 0:
                        od = g.origin({"copy": oc[1]["rv"]["place"]})
                        if od[0] == "call" and (callee(od[1]) or "").endswith("Option::<T>::filter") and closures_test:
                            excused = True
            per.setdefault(nm, []).append((bb, t, watched, excused))
    for nm, sites in sorted(per.items()):
        bad = [t["loc"] for bb, t, w, e in sites if not (w or e)]
        key = "%s|%s|steps-examined" % (rule, nm)
        (rep.ok if not bad else rep.fail)(
            rule, key, "%s: all %d Number steps are examined for exactness (or have an operand known to be inexact)" % (nm, len(sites)) if not bad else
            "%s returns the result of a Number + - * / step as the operator left it (%d of %d steps unexamined): where the 32-bit "
            "rational arithmetic gives up, an exact operand pair with a representable result yields a float" % (nm, len(bad), len(sites)), bad)
    rep.floor(rule, "Number + - * / steps in plus, minus, multiply, divide and their helpers", n, 6)


def r08u(ctx, rep, rule="R08u"):
    """expt's result is computed from its base, and an inexact exponent is noticed"""
    facts = ctx["facts"]
    rep.rule(rule, "inexactness is never silently dropped by expt: (a) the procedure returns nothing but values computed from the "
             "base — a literal Number built in the procedure and returned as the result has the exactness of the literal, not of "
             "the operands ((expt -1.0 4294967296) was the exact 1); (b) the exactness of the exponent is consulted "
             "(Number::is_exact on it, in the procedure or a closure of it), since an inexact exponent makes the result inexact "
             "((expt 2 2.0) was the exact 4).")
    f = need(rep, rule, facts, "marwood::vm::builtin::number::expt")
    if f is None:
        return
    # (a) constant Number aggregates and where they go
    lits = []
    for bb, j, st in f.stmts():
        rv = st["rv"]
        if rv["k"] == "agg" and "number::Number" in (rv.get("adt") or rv.get("ty") or st["lhs"].get("ty") or "") and \
                all(op_const(o) is not None for o in rv.get("ops", [])) and not st["lhs"]["p"]:
            lits.append((bb, st))
    into = [t for bb, t in f.calls() if re.search(r"number::Number as std::convert::Into<marwood::vm::vcell::VCell>>::into|"
                                                   r"vcell::VCell as std::convert::From<marwood::number::Number>>::from",
                                                   t.get("fnargs") or "")]
    bad = []
    for bb, st in lits:
        fl = _forward_locals(f, st["lhs"]["l"], loose=True)
        for t in into:
            p = op_place(t["args"][0]) if t["args"] else None
            if p is not None and p["l"] in fl and not [e for e in p["p"] if e != "*"]:
                # by-value only: a reference to the literal (a comparison) is not a result
                if "&" not in (p.get("ty") or ""):
                    bad.append(st["loc"])
    key = rule + "|expt|result-from-base"
    (rep.ok if not bad else rep.fail)(
        rule, key, "expt converts no literal Number of its own into a result (%d literals, %d result conversions)" % (len(lits), len(into)) if not bad else
        "expt returns a literal Number as the result: its exactness is the literal's, whatever the base was — (expt -1.0 4294967296) "
        "is the exact 1", bad)
    rep.floor(rule, "result conversions in expt", len(into), 1)
    # (b)
    exp_tested = False
    scope = [f] + [h for p, h in facts.fns.items() if p.startswith(f.path + "::{closure")]
    for g in scope:
        for bb, t in g.calls():
            if callee(t) == "marwood::number::Number::is_exact":
                exp_tested = True
    key = rule + "|expt|exponent-exactness"
    (rep.ok if exp_tested else rep.fail)(
        rule, key, "expt consults Number::is_exact" if exp_tested else
        "expt never asks whether an operand is exact: an inexact exponent is read as an integer and forgotten, (expt 2 2.0) is the "
        "exact 4", [f.span])
