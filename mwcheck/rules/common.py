"""Names shared by the rule packs (all resolved against the facts; a missing one is anchor-lost)."""
import re

VM = "marwood::vm::Vm"
VCELL = "marwood::vm::vcell::VCell"
RUN = "marwood::vm::run::<impl marwood::vm::Vm>::"
COMPILE = "marwood::vm::compile::<impl marwood::vm::Vm>::"
CONT = "marwood::vm::continuation::<impl marwood::vm::Vm>::"
HEAP = "marwood::vm::heap::Heap::"
STACK = "marwood::vm::stack::Stack::"

RUN_ONE = RUN + "run_one"
RUN_COUNT = RUN + "run_count"
RUN_GC = RUN + "run_gc"

DERIVE_TRAITS = ("std::clone::Clone", "std::cmp::PartialEq", "std::cmp::Eq", "std::hash::Hash",
                 "std::fmt::Debug", "std::cmp::PartialOrd", "std::default::Default")


def need(rep, rule, facts, path):
    f = facts.fn(path)
    if f is None:
        rep.anchor_lost(rule, "function %s not found" % path)
    return f


def variant_index(adt, name):
    for i, v in enumerate(adt["variants"]):
        if v["name"] == name:
            return i
    return None


LOCAL_ADT = re.compile(r"marwood::[A-Za-z0-9_:]+")


def carrying_types(facts, store=("marwood::vm::heap::Heap",)):
    """ADT path -> True if a value of the type can (transitively) hold a heap reference:
    a field spelled HeapRef in source, or of type VCell, or of another carrying local ADT."""
    carry = {VCELL: True}
    changed = True
    while changed:
        changed = False
        for p, a in facts.adts.items():
            if p in carry or p in store:
                continue
            for v in a["variants"]:
                for f in v["fields"]:
                    if field_carrying(f, carry):
                        carry[p] = True
                        changed = True
                        break
                if p in carry:
                    break
    return carry


FNPTR = re.compile(r"(for<[^>]*> )?(unsafe )?(extern \"[^\"]*\" )?fn\(.*")


def field_carrying(f, carry):
    if "HeapRef" in f["hir"]:
        return "ref"
    ty = FNPTR.sub("fn-pointer", f["ty"])   # a function pointer's signature holds no value
    f = dict(f, ty=ty)
    if VCELL in f["ty"]:
        return "vcell"
    for m in LOCAL_ADT.findall(f["ty"]):
        if carry.get(m):
            return "via " + m.rsplit("::", 1)[-1]
    return None
