"""Names shared by the rule packs (all resolved against the facts; a missing one is anchor-lost)."""
import re

VM = "marwood::vm::Vm"
VCELL = "marwood::vm::vcell::VCell"
RUN = "marwood::vm::run::<impl marwood::vm::Vm>::"
COMPILE = "marwood::vm::compile::<impl marwood::vm::Vm>::"
CONT = "marwood::vm::continuation::<impl marwood::vm::Vm>::"
HEAP = "marwood::vm::heap::Heap::"
STACK = "marwood::vm::stack::Stack::"

RUN_ONE = RUN + "run_one"
RUN_COUNT = RUN + "run_count"
RUN_GC = RUN + "run_gc"

DERIVE_TRAITS = ("std::clone::Clone", "std::cmp::PartialEq", "std::cmp::Eq", "std::hash::Hash",
                 "std::fmt::Debug", "std::cmp::PartialOrd", "std::default::Default")


def need(rep, rule, facts, path):
    f = facts.fn(path)
    if f is None:
        rep.anchor_lost(rule, "function %s not found" % path)
    return f


def variant_index(adt, name):
    for i, v in enumerate(adt["variants"]):
        if v["name"] == name:
            return i
    return None


LOCAL_ADT = re.compile(r"marwood::[A-Za-z0-9_:]+")


def carrying_types(facts, store=("marwood::vm::heap::Heap",)):
    """ADT path -> True if a value of the type can (transitively) hold a heap reference:
    a field spelled HeapRef in source, or of type VCell, or of another carrying local ADT."""
    carry = {VCELL: True}
    changed = True
    while changed:
        changed = False
        for p, a in facts.adts.items():
            if p in carry or p in store:
                continue
            for v in a["variants"]:
                for f in v["fields"]:
                    if field_carrying(f, carry):
                        carry[p] = True
                        changed = True
                        break
                if p in carry:
                    break
    return carry


FNPTR = re.compile(r"(for<[^>]*> )?(unsafe )?(extern \"[^\"]*\" )?fn\(.*")


def field_carrying(f, carry):
    if "HeapRef" in f["hir"]:
        return "ref"
    ty = FNPTR.sub("fn-pointer", f["ty"])   # a function pointer's signature holds no value
    f = dict(f, ty=ty)
    if VCELL in f["ty"]:
        return "vcell"
    for m in LOCAL_ADT.findall(f["ty"]):
        if carry.get(m):
            return "via " + m.rsplit("::", 1)[-1]
    return None


def disc_switches(facts, fn, adt_path):
    """switches on the discriminant of a place of type `adt_path` (after peeling & and *):
    list of dict(bb, place, arms={variant: target}, otherwise, variants_listed)"""
    adt = facts.adts.get(adt_path)
    out = []
    if adt is None:
        return out
    names = [v["name"] for v in adt["variants"]]
    for bb, b in enumerate(fn.blocks):
        if b.get("cleanup"):
            continue
        t = b["term"]
        if t["k"] != "switch":
            continue
        o = fn.origin(t["op"])
        if o[0] != "rv" or o[1]["rv"]["k"] != "disc":
            continue
        pl = o[1]["rv"]["place"]
        ty = pl["ty"].replace("&mut ", "").replace("&", "").strip()
        if ty != adt_path:
            continue
        arms = {}
        for val, tgt in t["targets"]:
            if 0 <= val < len(names):
                arms.setdefault(names[val], tgt)
        out.append({"bb": bb, "place": pl, "arms": arms, "otherwise": t["otherwise"], "term": t})
    return out


def arm_region(fn, sw, variant):
    """blocks executed only when the matched value is `variant` (dominated by the arm target,
    when the target has the switch as its only predecessor)"""
    tgt = sw["arms"].get(variant)
    if tgt is None:
        return set()
    # several variants may share a target (or-patterns, `_` arms): then the region is not exclusive
    shared = [v for v, t in sw["arms"].items() if t == tgt and v != variant]
    if shared or tgt == sw["otherwise"]:
        return set()
    if len([p for p in fn.pred[tgt] if p in fn.reachable()]) != 1:
        return set()
    return {b for b in fn.reachable() if fn.dominates(tgt, b)}


def is_registry_fn(cg, path):
    return path in cg.registry


def borrow(ctx, rep, new_rule, text, fns, rename):
    """run rule functions of another pack on a sub-report and adopt their obligations under `new_rule`;
    `rename` maps the foreign rule ids to strip from keys (e.g. {"R02c": ..}). Known findings are keyed per property and
    rule, so a borrowed obligation is suppressed only by an entry of the borrowing property."""
    sub = type(rep)(rep.prop)
    for f in fns:
        f(ctx, sub)
    rep.rule(new_rule, text)
    for o in sub.obs:
        for old in rename:
            if o.key.startswith(old + "|"):
                o.key = new_rule + "|" + old + "|" + o.key[len(old) + 1:]
                break
        else:
            o.key = new_rule + "|" + o.key
        o.rule = new_rule
        rep.obs.append(o)
    return sub
