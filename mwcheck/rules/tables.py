"""S6: recover constant tables from switches and string-compare chains; table-agreement rules."""
from ..facts import callee, op_const, op_place, short_path
from .common import *

TOKEN_TYPE = "marwood::lex::TokenType"


def char_switches(fn):
    """switches whose operand is a char: list of (bb, {codepoint: target}, otherwise, term)"""
    out = []
    for bb, b in enumerate(fn.blocks):
        if b.get("cleanup"):
            continue
        t = b["term"]
        if t["k"] == "switch" and t.get("opty") == "char":
            out.append((bb, {v: tg for v, tg in t["targets"]}, t["otherwise"], t))
    return out


def str_eq_consts(fn):
    """string constants compared with `<str as PartialEq>::eq`: list of (string, bb, term)"""
    out = []
    for bb, t in fn.calls():
        if (t.get("fnargs") or "").startswith("<str as std::cmp::PartialEq>::eq"):
            for a in t["args"]:
                c = op_const(a)
                if c is not None and "str" in c:
                    out.append((c["str"], bb, t))
    return out


def arm_effects(fn, start, stop=None, limit=40):
    """calls and aggregates on the straight-line/forward region starting at `start` (BFS, bounded),
    not crossing blocks in `stop`"""
    stop = stop or set()
    seen, order = {start}, [start]
    i = 0
    calls, aggs = [], []
    while i < len(order) and len(order) < limit:
        b = order[i]
        i += 1
        blk = fn.blocks[b]
        for s in blk["stmts"]:
            if s["rv"]["k"] == "agg" and s["rv"].get("adt", "").startswith("marwood"):
                aggs.append((s["rv"]["adt"], s["rv"].get("variant")))
        t = blk["term"]
        if t["k"] == "call":
            calls.append(callee(t))
        for s_ in fn.succ[b]:
            if s_ not in seen and s_ not in stop:
                seen.add(s_)
                order.append(s_)
    return calls, aggs


def r11c(ctx, rep, rule="R11c"):
    facts = ctx["facts"]
    rep.rule(rule, "dispatcher/handler agreement in the reader: (i) the characters on which lex::scan calls "
             "scan_simple_token are exactly the characters scan_simple_token maps to a token type (its fall-through is "
             "panic!()); (ii) the characters after `#` for which scan_hash_token produces NumberPrefix are exactly the "
             "prefix spellings parse_number accepts (its fall-through is panic!).")
    scan = need(rep, rule, facts, "marwood::lex::scan")
    sst = need(rep, rule, facts, "marwood::lex::scan_simple_token")
    if scan is not None and sst is not None:
        disp = set()
        for bb, arms, other, t in char_switches(scan):
            for v, tg in arms.items():
                calls, _ = arm_effects(scan, tg, stop={other}, limit=3)
                if calls and calls[0] == "marwood::lex::scan_simple_token":
                    disp.add(v)
        handled = set()
        for bb, arms, other, t in char_switches(sst):
            for v, tg in arms.items():
                _, aggs = arm_effects(sst, tg, limit=2)
                if any(a == TOKEN_TYPE for a, _ in aggs):
                    handled.add(v)
        rep.floor(rule, "characters dispatched to scan_simple_token", len(disp), 9)
        miss = sorted(disp - handled)
        extra = sorted(handled - disp)
        key = "%s|scan->scan_simple_token" % rule
        if miss:
            rep.fail(rule, key, "lex::scan sends %s to scan_simple_token, which has no arm for them and panics" % (
                [chr(c) for c in miss]), [sst.span])
        else:
            rep.ok(rule, key, "all %d characters dispatched to scan_simple_token have an arm there%s" % (
                len(disp), (" (unreachable arms: %s)" % [chr(c) for c in extra]) if extra else ""), [sst.span])
    # the tables above are tables over the character *as read*: a dispatch on a mapped character (case folding etc.)
    # accepts more spellings than its arms list
    for fn_ in (scan, sst, facts.fn("marwood::lex::scan_hash_token")):
        if fn_ is None:
            continue
        for bb, arms, other, t in char_switches(fn_):
            o = fn_.origin(t["op"])
            mapped = None
            if o[0] == "call":
                c_ = callee(o[1]) or ""
                if "char::methods" in c_ or c_.startswith(("core::char", "std::char")) or c_.rsplit("::", 1)[-1].startswith(("to_", "from_")):
                    mapped = c_
            key = "%s|raw-dispatch|%s" % (rule, fn_.short.rsplit("::", 1)[-1])
            if mapped:
                rep.fail(rule, key, "%s dispatches on %s(c), not on the character as read: spellings outside its arm list reach "
                         "the arms (e.g. upper-case #X reaches the NumberPrefix arm) and the handler behind the table has no case "
                         "for them" % (fn_.short, short_path(mapped)), [t["loc"]] if "loc" in t else [fn_.span])
            else:
                rep.ok(rule, key, "%s dispatches on the character as read" % fn_.short, [fn_.span], nontrivial=False)
    sht = need(rep, rule, facts, "marwood::lex::scan_hash_token")
    pn = need(rep, rule, facts, "marwood::parse::parse_number")
    if sht is not None and pn is not None:
        produced = set()
        for bb, arms, other, t in char_switches(sht):
            for v, tg in arms.items():
                others = {x for x in arms.values() if x != tg} | {other}
                _, aggs = arm_effects(sht, tg, stop=others, limit=12)
                toks = [a for a in aggs if a[0] == TOKEN_TYPE]
                if toks and toks[0] == (TOKEN_TYPE, "NumberPrefix"):
                    produced.add(chr(v))
        accepted = {s[1] for s, bb, t in str_eq_consts(pn) if len(s) == 2 and s[0] == "#"}
        rep.floor(rule, "number prefix characters produced by the scanner", len(produced), 6)
        key = "%s|scan_hash_token->parse_number" % rule
        miss = sorted(produced - accepted)
        if miss:
            rep.fail(rule, key, "the scanner produces NumberPrefix for #%s but parse_number has no arm for it and panics"
                     % ", #".join(miss), [pn.span])
        else:
            rep.ok(rule, key, "every NumberPrefix spelling the scanner produces (%s) is accepted by parse_number" % (
                " ".join("#" + c for c in sorted(produced))), [pn.span])


def r20a(ctx, rep, rule="R20a"):
    facts = ctx["facts"]
    rep.rule(rule, "bracket classes agree with the parser: an opener, by the parser's own definition, is a token "
             "type whose arm in parse::parse hands off to a sub-parser that has a RightParen arm; every opener type "
             "must be mentioned by syntax::find_matching_bracket (as a matched variant or a constructed constant), "
             "otherwise that kind of bracket is invisible to the nesting counter.")
    parse = None
    for p, f in facts.fns.items():
        if p == "marwood::parse::parse":
            parse = f
    fmb = need(rep, rule, facts, "marwood::syntax::find_matching_bracket")
    if parse is None:
        rep.anchor_lost(rule, "parse::parse")
        return
    if fmb is None:
        return
    sws = disc_switches(facts, parse, TOKEN_TYPE)
    if not sws:
        rep.anchor_lost(rule, "match on TokenType in parse::parse")
        return
    openers = {}
    for v, tg in sws[0]["arms"].items():
        calls, _ = arm_effects(parse, tg, stop={sws[0]["otherwise"]}, limit=3)
        for c in calls[:1]:
            g = facts.fn(c)
            if g is not None and g.path != parse.path:
                for sw in disc_switches(facts, g, TOKEN_TYPE):
                    if "RightParen" in sw["arms"]:
                        openers[v] = short_path(c)
    rep.floor(rule, "opener token types according to the parser", len(openers), 2)
    mentioned = set()
    for sw in disc_switches(facts, fmb, TOKEN_TYPE):
        mentioned |= set(sw["arms"])
    for bb, j, s in fmb.stmts():
        if s["rv"]["k"] == "agg" and s["rv"].get("adt") == TOKEN_TYPE:
            mentioned.add(s["rv"]["variant"])
    for v, sub in sorted(openers.items()):
        key = "%s|opener|%s" % (rule, v)
        if v in mentioned:
            rep.ok(rule, key, "TokenType::%s (opens %s) is known to find_matching_bracket" % (v, sub), [fmb.span])
        else:
            rep.fail(rule, key, "TokenType::%s opens a bracketed datum in the parser (%s consumes through a RightParen) "
                     "but find_matching_bracket never mentions it: such brackets are not matched and unbalance the "
                     "nesting count of the ones around them" % (v, sub), [fmb.span])


def r18d(ctx, rep, rule="R18d"):
    facts = ctx["facts"]
    rep.rule(rule, "encoder/decoder agreement for symbol names: string->symbol passes a character through unescaped "
             "iff lex::is_initial_identifier / is_subsequent_identifier accept it, and symbol->string decodes with "
             "parse_string, whose escape introducer is the backslash; the introducer must not be in the pass-through "
             "set, otherwise a name containing it is decoded as an escape.")
    ss = need(rep, rule, facts, "marwood::vm::builtin::symbol::string_symbol")
    sy = need(rep, rule, facts, "marwood::vm::builtin::symbol::symbol_string")
    ii = need(rep, rule, facts, "marwood::lex::is_initial_identifier")
    ps = need(rep, rule, facts, "marwood::parse::parse_string")
    if None in (ss, sy, ii, ps):
        return
    # decoder introducer: the char constant parse_string compares each input char with before decoding
    intro = set()
    for bb, j, s in ps.stmts():
        rv = s["rv"]
        if rv["k"] == "bin" and rv["op"] == "Eq":
            for o in (rv["a"], rv["b"]):
                c = op_const(o)
                if c is not None and c.get("ty") == "char" and "int" in c:
                    intro.add(c["int"])
    uses_ps = any(callee(t) == ps.path for bb, t in sy.calls())
    uses_ii = False
    for c in facts.closures_of(ss) + [ss]:
        for bb, t in c.calls():
            if callee(t) in (ii.path, "marwood::lex::is_subsequent_identifier"):
                uses_ii = True
    if not uses_ps or not uses_ii or not intro:
        rep.anchor_lost(rule, "string->symbol via is_*_identifier (%s) / symbol->string via parse_string (%s) / "
                        "introducer constant (%s)" % (uses_ii, uses_ps, sorted(intro)))
        return
    accepted = set()
    for bb, j, s in ii.stmts():
        rv = s["rv"]
        if rv["k"] == "bin" and rv["op"] == "Eq":
            for o in (rv["a"], rv["b"]):
                c = op_const(o)
                if c is not None and c.get("ty") == "char" and "int" in c:
                    accepted.add(c["int"])
    rep.floor(rule, "explicit characters accepted by is_initial_identifier", len(accepted), 10)
    # characters the encoder escapes by an arm of its own, before consulting the identifier predicates
    own = set()
    for c in facts.closures_of(ss) + [ss]:
        for bb, arms, other, t in char_switches(c):
            for v, tg in arms.items():
                others = {x for x in arms.values() if x != tg} | {other}
                calls, _ = arm_effects(c, tg, stop=others, limit=14)
                # the arm must escape unconditionally: a guard on the arm (`'\\' if .. =>`) falls through to the pass-through arms
                full = c.reach_from(tg)
                passes = any(b2 in full and ((callee(t2) or "").endswith("ToString>::to_string") or (callee(t2) or "").endswith("::to_string"))
                             for b2, t2 in c.calls())
                if any(x.endswith("fmt::format") for x in calls) and not any(x.endswith("ToString>::to_string") or x.endswith("::to_string") for x in calls) \
                        and not passes:
                    own.add(v)
    for i in sorted(intro):
        key = "%s|introducer|%s" % (rule, "U+%04X" % i)
        if i in accepted and i in own:
            rep.ok(rule, key, "the decoder's escape introducer %r is an identifier character for the lexer, but the encoder escapes it "
                   "by an arm of its own before consulting the predicates" % chr(i), [ss.span])
        elif i in accepted:
            rep.fail(rule, key, "the decoder's escape introducer %r is passed through unescaped by the encoder "
                     "(is_initial_identifier accepts it): (symbol->string (string->symbol s)) differs from s when s "
                     "contains it" % chr(i), [ii.span])
        else:
            rep.ok(rule, key, "the decoder's escape introducer %r is escaped by the encoder" % chr(i), [ii.span])


def r11j(ctx, rep, rule="R11j"):
    """a token that runs "up to a delimiter" stops at every token-starting character"""
    from .. import shapes
    facts = ctx["facts"]
    rep.rule(rule, "a scanner loop that ends a token when a character-class predicate becomes true (the `up to the next delimiter` "
             "form) absorbs every character the predicate does not name; the predicate must therefore name every character on "
             "which lex::scan starts a bracket, quote, hash or string token — this lexer's bracket spellings [ ] { } included. "
             "Otherwise a bracket written directly after such a token disappears from the token stream. (Loops that continue "
             "while a class predicate holds are covered by R11f; strings and comments end on a single character.)")
    scan = need(rep, rule, facts, "marwood::lex::scan")
    if scan is None:
        return
    starters = {}
    for bb, arms, other, t in char_switches(scan):
        for v, tg in arms.items():
            calls, _ = arm_effects(scan, tg, stop={other}, limit=3)
            if calls and calls[0] in ("marwood::lex::scan_simple_token", "marwood::lex::scan_hash_token", "marwood::lex::scan_string"):
                starters[v] = calls[0].rsplit("::", 1)[-1]
    rep.floor(rule, "token-starting characters in lex::scan's dispatch", len(starters), 11)
    n = 0
    for p, f in sorted(facts.fns.items()):
        if not p.startswith("marwood::lex::") or "::tests::" in p or "{closure" in p:
            continue
        for src, h in f.back_edges():
            body = (f.reach_from(h) & f.reach_back(src)) | {h, src}
            for bb in sorted(body):
                t = f.blocks[bb]["term"]
                if t["k"] != "switch" or t.get("opty") != "bool":
                    continue
                o = f.origin(t["op"])
                if o[0] != "call":
                    continue
                c = callee(o[1]) or ""
                if not o[1]["args"] or "Peekable" not in shapes.shape(f, o[1]["args"][0], 4):
                    continue
                true_t = t["otherwise"]
                if true_t in body:
                    continue            # positive form: the loop continues while the predicate holds
                n += 1
                key = "%s|%s|ends-on:%s" % (rule, f.short, short_path(c).rsplit("::", 1)[-1])
                g = facts.fns.get(c)
                named = set()
                if g is not None and c.startswith("marwood::lex::"):
                    for b2, j2, st in g.stmts():
                        rv = st["rv"]
                        if rv["k"] == "bin" and rv["op"] == "Eq":
                            for x in (rv["a"], rv["b"]):
                                cc = op_const(x)
                                if cc is not None and cc.get("ty") == "char" and "int" in cc:
                                    named.add(cc["int"])
                missing = sorted(v for v in starters if v not in named)
                if missing:
                    rep.fail(rule, key, "%s ends its token when %s becomes true, and %s does not name %s: a token of that kind absorbs "
                             "those characters, so e.g. a `]` written directly after it is not a bracket token any more" % (
                                 f.short, short_path(c), short_path(c), " ".join(repr(chr(v)) for v in missing)), [t.get("loc") or f.span])
                else:
                    rep.ok(rule, key, "%s ends its token on %s, which names every token-starting character" % (f.short, short_path(c)),
                           [t.get("loc") or f.span])
    if n == 0:
        rep.ok(rule, rule + "|none", "no scanner loop ends a token on a class predicate becoming true (all continue while a class holds)",
               [scan.span], nontrivial=False)


def r11f(ctx, rep, rule="R11f"):
    facts = ctx["facts"]
    rep.rule(rule, "characters that start a bracket, quote, hash or string token never continue an identifier: the characters "
             "lex::scan dispatches to scan_simple_token, scan_hash_token and scan_string are disjoint from the characters the "
             "identifier predicates (is_initial_identifier, is_special_subsequent, is_subsequent_identifier) accept by name. "
             "Otherwise the opener of `a#(b)` or `x(y)` is swallowed by the preceding atom and the token stream no longer "
             "matches the text's bracket structure.")
    scan = need(rep, rule, facts, "marwood::lex::scan")
    if scan is None:
        return
    starters = {}
    for bb, arms, other, t in char_switches(scan):
        for v, tg in arms.items():
            calls, _ = arm_effects(scan, tg, stop={other}, limit=3)
            if calls and calls[0] in ("marwood::lex::scan_simple_token", "marwood::lex::scan_hash_token", "marwood::lex::scan_string"):
                starters[v] = calls[0].rsplit("::", 1)[-1]
    rep.floor(rule, "token-starting characters in lex::scan's dispatch", len(starters), 11)
    named = {}
    n_pred = 0
    for nm in ("is_initial_identifier", "is_special_subsequent", "is_subsequent_identifier", "is_special_initial", "is_peculiar_identifier"):
        f = facts.fn("marwood::lex::" + nm)
        if f is None:
            continue
        n_pred += 1
        for bb, j, st in f.stmts():
            rv = st["rv"]
            if rv["k"] == "bin" and rv["op"] == "Eq":
                for o in (rv["a"], rv["b"]):
                    c = op_const(o)
                    if c is not None and c.get("ty") == "char" and "int" in c:
                        named.setdefault(c["int"], set()).add(nm)
        for bb, arms, other, t in char_switches(f):
            for v in arms:
                named.setdefault(v, set()).add(nm)
    rep.floor(rule, "identifier predicates of the scanner", n_pred, 3)
    clash = sorted(set(starters) & set(named))
    key = "%s|starters-vs-identifier-characters" % rule
    if clash:
        rep.fail(rule, key, "the character(s) %s start a token of their own in lex::scan (%s) but are also accepted inside "
                 "identifiers by %s: directly after an atom they are absorbed into it" % (
                     ", ".join(repr(chr(c)) for c in clash), ", ".join(sorted({starters[c] for c in clash})),
                     ", ".join(sorted(set().union(*(named[c] for c in clash))))), [scan.span])
    else:
        rep.ok(rule, key, "the %d token-starting characters are disjoint from the %d characters the identifier predicates name" % (
            len(starters), len(named)), [scan.span])
