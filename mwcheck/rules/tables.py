def r18d(ctx, rep):
    pass
