"""C13 — sliced execution is equivalent to uninterrupted execution (R13a-c)."""
from . import runloop


def run(ctx, rep):
    runloop.r13a(ctx, rep)
    runloop.r13g(ctx, rep)
    runloop.r13b(ctx, rep)
    runloop.r13c(ctx, rep)
    runloop.r13d(ctx, rep)
    # R13e: a sliced run collects at *every* slice end, i.e. at instruction boundaries an uninterrupted run never collects at:
    # the machine registers and the live stack must be complete roots there (C03's R03b and R03g, re-labelled)
    from . import C03
    sub = type(rep)(rep.prop)
    C03.r03b(ctx, sub)
    C03.r03g(ctx, sub)
    rep.rule("R13e", "a collection at a slice boundary is safe: every register and the whole live stack are roots on every "
             "path to the sweep (C03's R03b root completeness / adequacy / unconditional marking and R03g top-of-stack "
             "inclusion). Uninterrupted runs collect only every 8192 cycles and after HALT, so a root that is missing at "
             "some instruction boundaries is visible only to sliced execution.")
    for o in sub.obs:
        o.key = o.key.replace("R03b", "R13e", 1).replace("R03g", "R13e", 1)
        o.rule = "R13e"
        rep.obs.append(o)
    # R13f: what the roots reach stays alive, and the intern table follows the sweeper
    from . import C18
    sub = type(rep)(rep.prop)
    C03.r03c(ctx, sub)
    C03.r03k(ctx, sub)
    C18.r18b(ctx, sub)
    rep.rule("R13f", "a collection at a slice boundary frees nothing the resumed run can reach: the markers trace every "
             "reference-carrying field of every cell kind and payload (C03's R03c, including the environment and stack saved in "
             "a continuation), and a freed symbol leaves the intern table (C18's R18b), so a name interned again after the "
             "collection is not an alias of a recycled cell. Uninterrupted short runs never collect between the two events.")
    k = 0
    for o in sub.obs:
        o.key = o.key.replace("R03c", "R13f", 1).replace("R03k", "R13f", 1).replace("R18b", "R13f", 1)
        o.rule = "R13f"
        rep.obs.append(o)
        k += 1
    rep.floor("R13f", "trace / intern-table obligations", k, 40)
    rep.note("composes with C03: a collection at a slice boundary is an instruction-boundary collection (R03a-d)")
    rep.not_decided += ["value/effect equality of sliced and uninterrupted runs for concrete programs",
                        "the JavaScript resume loop of the wasm front end"]
