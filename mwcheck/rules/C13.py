"""C13 — sliced execution is equivalent to uninterrupted execution (R13a-c)."""
from . import runloop


def run(ctx, rep):
    runloop.r13a(ctx, rep)
    runloop.r13b(ctx, rep)
    runloop.r13c(ctx, rep)
    runloop.r13d(ctx, rep)
    rep.note("composes with C03: a collection at a slice boundary is an instruction-boundary collection (R03a-d)")
    rep.not_decided += ["value/effect equality of sliced and uninterrupted runs for concrete programs",
                        "the JavaScript resume loop of the wasm front end"]
