"""C05 — first-class continuations: capture/restore symmetry and ordering (R05a-d)."""
from ..facts import callee, op_place, short_path
from ..flow import places_read
from .common import *
from . import twins

CONT_ADT = "marwood::vm::continuation::Continuation"
NOT_REGISTERS = {"heap": "the object store: shared, not part of a control state",
                 "globenv": "global bindings: mutations made since capture must stay visible",
                 "sys": "host interface", "last_stacktrace": "diagnostic of the last failure"}


def vm_fields_written(facts, cg, roots):
    """Vm fields assigned / mutably borrowed by functions reachable from `roots`"""
    out = {}
    for p in cg.reachable_from(roots):
        f = facts.fns.get(p)
        if f is None:
            continue
        vmlocals = {i for i, t in enumerate(f.locals) if t == "&mut marwood::vm::Vm"}
        def visit(pl, how, loc):
            if pl["l"] in vmlocals and len(pl["p"]) >= 2 and pl["p"][0] == "*" and isinstance(pl["p"][1], dict) \
                    and "f" in pl["p"][1]:
                out.setdefault(pl["p"][1]["n"], []).append((f.short, how))
        for bb, j, s in f.stmts():
            visit(s["lhs"], "assign", s["loc"])
            if s["rv"]["k"] == "ref" and s["rv"]["mut"]:
                visit(s["rv"]["place"], "&mut", s["loc"])
        for bb, t in f.calls():
            visit(t["dest"], "assign", t["loc"])
    return out


def r05a(ctx, rep):
    facts, cg = ctx["facts"], ctx["cg"]
    rep.rule("R05a", "save/restore symmetry: the machine registers are the Vm fields written in the dynamic extent of "
             "run_one (minus the shared store, the global environment and host/diagnostic fields). "
             "Vm::to_continuation must read every register except the accumulator into the Continuation it builds, "
             "and Vm::restore_continuation must write every register.")
    written = vm_fields_written(facts, cg, [RUN_ONE])
    regs = sorted(f for f in written if f not in NOT_REGISTERS)
    rep.floor("R05a", "machine registers (Vm fields written by instructions)", len(regs), 5)
    toc = need(rep, "R05a", facts, CONT + "to_continuation")
    res = need(rep, "R05a", facts, CONT + "restore_continuation")
    if toc is None or res is None:
        return
    saved = set()
    for bb, j, s in toc.stmts():
        rv = s["rv"]
        if rv["k"] == "agg" and rv.get("adt") == CONT_ADT:
            for fname, op in zip(rv.get("fields", []), rv["ops"]):
                o = toc.origin(op)
                if o[0] == "call" and o[1]["args"]:
                    o = toc.origin(o[1]["args"][0])
                if o[0] == "arg" and o[1] == 1 and o[2] and isinstance(o[2][0], dict):
                    saved.add(o[2][0]["n"])
    restored = set(vm_fields_written(facts, cg, [res.path]).keys())
    # only direct effects of restore_continuation and its callees on self
    for r in regs:
        if r != "acc":
            key = "R05a|save|%s" % r
            if r in saved:
                rep.ok("R05a", key, "to_continuation saves register %s" % r, [toc.span])
            else:
                rep.fail("R05a", key, "to_continuation does not save register `%s`: invoking the continuation resumes "
                         "with whatever %s the invoker had" % (r, r), [toc.span])
        key = "R05a|restore|%s" % r
        if r in restored:
            rep.ok("R05a", key, "restore_continuation writes register %s" % r, [res.span])
        else:
            rep.fail("R05a", key, "restore_continuation does not write register `%s`: the resumed computation runs with "
                     "the invoker's %s" % (r, r), [res.span])


def r05b(ctx, rep):
    facts = ctx["facts"]
    rep.rule("R05b", "capture ordering in call/cc: both Stack::pop calls (argument count via pop_argc, receiver) "
             "dominate Vm::to_continuation, and to_continuation dominates both Stack::push calls and the ip.1 "
             "decrement: the saved stack holds neither the receiver nor the new frame, and the saved resume address is "
             "the instruction after the call.")
    f = need(rep, "R05b", facts, "marwood::vm::builtin::procedure::call_cc")
    if f is None:
        return
    cap = [bb for bb, t in f.calls() if callee(t) == CONT + "to_continuation"]
    pops = [(bb, t) for bb, t in f.calls() if callee(t) in (STACK + "pop", "marwood::vm::builtin::pop_argc",
                                                             RUN + "pop")]
    pushes = [(bb, t) for bb, t in f.calls() if callee(t) == STACK + "push"]
    decs = []
    for bb, j, s in f.stmts():
        if s["rv"]["k"] == "bin" and s["rv"]["op"] in ("SubWithOverflow", "Sub"):
            a = op_place(s["rv"]["a"])
            if a and [e.get("n") for e in a["p"] if isinstance(e, dict)] == ["ip", "1"]:
                decs.append((bb, s))
    if len(cap) != 1:
        rep.fail("R05b", "R05b|call_cc|capture", "call/cc captures the machine state %d times (expected once)" % len(cap), [f.span])
        return
    c = cap[0]
    rep.floor("R05b", "pops before capture in call/cc", len(pops), 2)
    rep.floor("R05b", "pushes after capture in call/cc", len(pushes), 2)
    for i, (bb, t) in enumerate(pops):
        ok = f.dominates(bb, c) and bb != c
        (rep.ok if ok else rep.fail)("R05b", "R05b|call_cc|pop#%d-before-capture" % (i + 1),
                                     "%s %s the capture" % (short_path(callee(t)), "dominates" if ok else
                                                            "does NOT dominate (the popped value stays on the saved stack)"),
                                     [t["loc"]])
    for i, (bb, t) in enumerate(pushes):
        ok = f.dominates(c, bb) and bb != c
        (rep.ok if ok else rep.fail)("R05b", "R05b|call_cc|push#%d-after-capture" % (i + 1),
                                     "Stack::push %s the capture" % ("is dominated by" if ok else
                                                                      "is NOT dominated by (the new frame is saved too)"),
                                     [t["loc"]])
    if len(decs) != 1:
        rep.fail("R05b", "R05b|call_cc|ip-decrement-after-capture", "call/cc decrements ip.1 %d times" % len(decs), [f.span])
    else:
        bb, s = decs[0]
        ok = f.dominates(c, bb) and bb != c
        (rep.ok if ok else rep.fail)("R05b", "R05b|call_cc|ip-decrement-after-capture",
                                     "the ip.1 decrement %s the capture" % ("follows" if ok else
                                     "does NOT follow (every invocation of k would re-execute the call/cc)"), [s["loc"]])


def r05e(ctx, rep):
    facts = ctx["facts"]
    rep.rule("R05e", "invocation protocol: in the Continuation sub-arm of CALL and TCALL the argument is popped "
             "before restore_continuation and the accumulator is written after it (restore resets the accumulator).")
    fn = need(rep, "R05e", facts, RUN_ONE)
    if fn is None:
        return
    arms = twins.call_arms(facts, fn)
    if arms is None:
        rep.anchor_lost("R05e", "Continuation sub-arms in run_one")
        return
    for name, a in zip(("CallAcc", "TCallAcc"), arms):
        reg = a["Continuation"]
        rs = [bb for bb, t in fn.calls() if bb in reg and callee(t) == CONT + "restore_continuation"]
        pops = [bb for bb, t in fn.calls() if bb in reg and callee(t) == STACK + "pop"]
        accw = [bb for bb, j, s in fn.stmts() if bb in reg and s["lhs"]["l"] == 1 and
                [e.get("n") for e in s["lhs"]["p"] if isinstance(e, dict)] == ["acc"]]
        key = "R05e|%s|pop-restore-deliver" % name
        ok = len(rs) == 1 and len(pops) >= 2 and all(fn.dominates(p, rs[0]) for p in pops) and accw and \
            all(fn.dominates(rs[0], w) for w in accw)
        (rep.ok if ok else rep.fail)(
            "R05e", key, ("%s: continuation invocation pops (x%d), then restores, then delivers the value in %%acc" % (name, len(pops)))
            if ok else ("%s: continuation invocation is not pop -> restore -> write %%acc (restores %d, pops %d, acc "
                        "writes %d): the value is lost or taken from the restored stack" % (name, len(rs), len(pops), len(accw))),
            [fn.span])


CALLABLE = ("Closure", "Lambda", "BuiltInProc", "Continuation")
CALLABLE_PRED = {"is_closure": "Closure", "is_lambda": "Lambda", "is_builtin_proc": "BuiltInProc", "is_continuation": "Continuation"}


def r05g(ctx, rep, rule="R05g"):
    """a continuation is a procedure wherever a value is classified as one"""
    from .. import shapes
    facts = ctx["facts"]
    rep.rule(rule, "a continuation is a procedure everywhere: every site that rejects a value as not-a-procedure (constructs "
             "Error::InvalidProcedure on the fall-through edge of a switch over the VCell variant, or behind negative "
             "is_closure/is_lambda/is_builtin_proc tests) lists all four callable variants — Closure, Lambda, BuiltInProc "
             "and Continuation — on the accepting side, as the CALL dispatch of run_one does. A classification that omits "
             "Continuation makes a stored k unusable through that path (apply, and map/for-each built on it).")
    n = 0
    for p, f in sorted(facts.fns.items()):
        if f.impl_trait in DERIVE_TRAITS or not p.startswith("marwood::"):
            continue
        for bb, j, s in f.stmts():
            rv = s["rv"]
            if not (rv["k"] == "agg" and rv.get("adt") == "marwood::error::Error" and rv.get("variant") == "InvalidProcedure"):
                continue
            n += 1
            key = "%s|%s|#%d" % (rule, f.short, sum(1 for k in rep.obs if k.key.startswith("%s|%s|" % (rule, f.short))) + 1)
            sws = {sw["bb"]: sw for sw in disc_switches(facts, f, VCELL)}
            listed, neg = None, set()
            for sbb, cond, taken, t in shapes.dominating_guards(f, bb):
                if sbb in sws and taken == "else":
                    arms = {v for v, tg in sws[sbb]["arms"].items() if tg != sws[sbb]["otherwise"]}
                    if arms & set(CALLABLE):
                        listed = arms if listed is None else (listed | arms)
                sh = shapes.shape(f, cond, 2)
                for pred, v in CALLABLE_PRED.items():
                    if ("VCell::%s(" % pred) in sh and taken == 0:
                        neg.add(v)
            accepted = (listed or set()) | neg
            if not accepted:
                rep.ok(rule, key, "%s raises InvalidProcedure without classifying by variant here" % f.short, [s["loc"]], nontrivial=False)
                continue
            missing = [v for v in CALLABLE if v not in accepted]
            if missing:
                rep.fail(rule, key, "%s rejects a value as not-a-procedure after accepting only %s: %s %s callable too (the CALL "
                         "dispatch invokes %s), so %s cannot be used through this path" % (
                             f.short, ", ".join(sorted(accepted & set(CALLABLE))), ", ".join(missing),
                             "is" if len(missing) == 1 else "are", "it" if len(missing) == 1 else "them",
                             "a stored continuation" if "Continuation" in missing else "such a procedure"), [s["loc"]])
            else:
                rep.ok(rule, key, "%s: the not-a-procedure exit is taken only after all four callable variants were accepted" % f.short, [s["loc"]])
    rep.floor(rule, "sites that raise InvalidProcedure", n, 2)


SLICE_COPY = ("slice::<impl [T]>::clone_from_slice", "slice::<impl [T]>::copy_from_slice")


def r05h(ctx, rep, rule="R05h"):
    """the saved stack is the whole stack, and it is reinstated whole"""
    from .. import shapes
    facts, cg = ctx["facts"], ctx["cg"]
    rep.rule(rule, "capture copies the live stack from slot 0 up to and including %sp, and restore writes the whole saved "
             "copy back: in Stack::to_continuation the copied range is 0..sp+1, and on the restore path (the Stack "
             "functions reachable from Vm::restore_continuation) the source of the slice copy is the entire saved vector "
             "— no sub-range of it. A partial copy leaves frames of the invoking computation under the resumed one.")
    cap = need(rep, rule, facts, STACK + "to_continuation")
    if cap is not None:
        rng = None
        for bb, t in cap.calls():
            c = callee(t) or ""
            if c.endswith("ops::Index<I>>::index") or c.endswith("std::ops::Index<I>>::index"):
                rng = shapes.shape(cap, t["args"][1], 4) if len(t["args"]) > 1 else None
        key = rule + "|capture|range"
        if rng is None:
            rep.anchor_lost(rule, "Stack::to_continuation no longer takes a range of self.stack")
        elif re.fullmatch(r"Range::Range\(c:0,\(Add a1\.sp c:1\)(\.0)?\)", rng) or re.fullmatch(r"RangeInclusive::new\(c:0,a1\.sp\)", rng) \
                or re.fullmatch(r"RangeToInclusive::RangeToInclusive\(a1\.sp\)", rng) or re.fullmatch(r"RangeTo::RangeTo\(\(Add a1\.sp c:1\)(\.0)?\)", rng):
            rep.ok(rule, key, "to_continuation copies slots 0..=sp (%s)" % rng, [cap.span])
        else:
            rep.fail(rule, key, "Stack::to_continuation copies %s of the live stack: the saved copy must hold every slot from 0 up to "
                     "and including %%sp, or the resumed computation misses frames (or its top slot)" % rng, [cap.span])
    res = need(rep, rule, facts, CONT + "restore_continuation")
    if res is None:
        return
    sites = []
    for p in sorted(cg.reachable_from([res.path])):
        f = facts.fns.get(p)
        if f is None or not p.startswith("marwood::vm::stack::"):
            continue
        for bb, t in f.calls():
            c = callee(t) or ""
            if c.endswith("clone_from_slice") or c.endswith("copy_from_slice"):
                sites.append((f, bb, t, shapes.shape(f, t["args"][1], 4)))
            elif c.endswith("Clone>::clone") and "Vec<" in c and "VCell" in (t.get("fnargs") or c):
                sites.append((f, bb, t, "whole:" + shapes.shape(f, t["args"][0], 4)))
    if not sites:
        rep.anchor_lost(rule, "no slice copy found on the restore path of the stack")
        return
    for i, (f, bb, t, src) in enumerate(sites):
        key = "%s|restore|%s|#%d" % (rule, f.short, i + 1)
        whole = src.startswith("whole:") or re.fullmatch(r"<vec::Vec<T, A> as ops::Deref>::deref\(a\d\.stack\)", src) \
            or re.search(r"RangeFull", src) or re.search(r"Range(From)?::Range(From)?\(c:0[,)]", src)
        if whole:
            rep.ok(rule, key, "%s writes back the entire saved vector (%s)" % (f.short, src), [t.get("loc") or f.span])
        else:
            rep.fail(rule, key, "%s restores only part of the saved stack (source %s): slots outside that range keep what the "
                     "invoking computation left there, so a continuation re-entered from another call chain resumes on the "
                     "wrong frames and operands" % (f.short, src), [t.get("loc") or f.span])


def r05j(ctx, rep, rule="R05j"):
    """library procedures that call back into user code build their results without mutation"""
    from . import prelude as P
    rep.rule(rule, "re-entry does not reach into results already returned: map and for-each call their procedure argument, which can "
             "capture a continuation and be re-entered after the call has returned; their definitions in the prelude therefore "
             "build results with cons only — no set-car!, set-cdr!, vector-set!, string-set! or set! of a variable shared "
             "between iterations. A loop that appends with set-cdr! to its `last cell` lets a re-entered iteration rewrite the "
             "list an earlier return already handed out (R7RS 6.10: map must not be affected by re-entry).")
    try:
        macros, forms, path = P.load_macros(ctx["root"])
    except (OSError, IndexError):
        rep.anchor_lost(rule, "prelude.scm")
        return
    MUT = ("set-car!", "set-cdr!", "vector-set!", "string-set!", "vector-fill!", "string-fill!")
    for name in ("map", "for-each", "map1"):
        d = None
        for fm in forms:
            if isinstance(fm, list) and len(fm) >= 3 and fm[0] == "define" and isinstance(fm[1], list) and fm[1] and fm[1][0] == name:
                d = fm
        if d is None and name == "map1":
            continue      # a helper: checked where it is defined, inside map / for-each or at top level
        if d is None:
            rep.anchor_lost(rule, "definition of %s in prelude.scm" % name)
            continue
        found = []

        def walk(x):
            if isinstance(x, list) and x:
                if isinstance(x[0], P.Sym) and str(x[0]) in MUT:
                    found.append(str(x[0]))
                if x[0] == "quote":
                    return
                for y in x:
                    walk(y)
        walk(d[2:])
        key = "%s|%s" % (rule, name)
        if found:
            rep.fail(rule, key, "the prelude's %s mutates the structure it builds (%s): a continuation captured in the procedure "
                     "argument and re-entered after %s returned rewrites the result of the earlier return" % (name, ", ".join(sorted(set(found))), name))
        else:
            rep.ok(rule, key, "%s builds its result without mutators" % name)


def _vpush_mutates(facts):
    """does the VPushAcc arm of run_one add to an existing vector in place (Vector::push / put on the popped operand)?"""
    ro = facts.fns.get(RUN_ONE)
    if ro is None:
        return True
    sws = [sw for sw in disc_switches(facts, ro, "marwood::vm::opcode::OpCode") if "VPushAcc" in sw["arms"]]
    if not sws:
        return True
    reg = arm_region(ro, sws[0], "VPushAcc")
    if not reg:
        return True
    for bb, t in ro.calls():
        if bb in reg and (callee(t) or "") in ("marwood::vm::vector::Vector::push", "marwood::vm::vector::Vector::put"):
            return True
    return False


def r05k(ctx, rep, rule="R05k"):
    """code emitted for a constructor does not mutate a half-built object across an evaluation"""
    facts = ctx["facts"]
    rep.rule(rule, "results are assembled after their parts have been evaluated: where the compiler emits, in one loop, the code that "
             "evaluates the parts of a template and a mutating opcode (VPUSH) that adds each part to the object under "
             "construction, a continuation captured while a part is evaluated holds that object; re-entering it pushes onto "
             "the result an earlier return already handed out — unless the opcode's handler leaves the object it is given alone "
             "and yields a new one per push (checked in the VPushAcc arm of run_one: no Vector::push / put). Lists are built the "
             "safe way (all parts on the stack, then CONS).")
    n = 0
    for p, f in sorted(facts.fns.items()):
        if not p.startswith(COMPILE) or "{closure" in p:
            continue
        for src, h in f.back_edges():
            body = (f.reach_from(h) & f.reach_back(src)) | {h, src}
            vp = [st for bb in body for st in f.blocks[bb]["stmts"] if st["rv"]["k"] == "agg" and (st["rv"].get("adt") or "").endswith("opcode::OpCode")
                  and st["rv"].get("variant") == "VPushAcc"]
            ev = [t for bb, t in f.calls() if bb in body and (callee(t) or "").startswith(COMPILE + "compile_")]
            if not vp:
                continue
            n += 1
            key = "%s|%s|vpush-between-evaluations" % (rule, f.short.rsplit("::", 1)[-1])
            if ev and not _vpush_mutates(facts):
                rep.ok(rule, key, "%s emits VPUSH between the evaluations of the elements, but the VPUSH handler builds a new vector "
                       "for every push and mutates none: the vector a captured continuation holds stays as it was" % f.short, [vp[0]["loc"]])
            elif ev:
                rep.fail(rule, key, "%s emits VPUSH inside the loop that also compiles the element expressions: the vector is mutated "
                         "between the evaluations of its elements, so a continuation captured in one element and re-entered after "
                         "the form has returned pushes onto the vector that was already returned" % f.short, [vp[0]["loc"]])
            else:
                rep.ok(rule, key, "%s emits VPUSH only after the elements have been evaluated" % f.short, [vp[0]["loc"]])
    if n == 0:
        rep.ok(rule, rule + "|none", "the compiler emits no VPUSH in a loop", nontrivial=False)


def run(ctx, rep):
    r05a(ctx, rep)
    r05b(ctx, rep)
    rep.rule("R05c", "twin agreement: the Continuation sub-arms of CallAcc and TCallAcc in run_one are the same "
             "sequence of resolved callees, constants, register writes and exits.")
    twins.twin_agreement(ctx, rep, "R05c", ["Continuation"], "a continuation invoked in tail position must behave as "
                         "one invoked in operand position")
    r05e(ctx, rep)
    r05g(ctx, rep)
    r05j(ctx, rep)
    r05k(ctx, rep)
    # R05i: nothing but the sweeper frees a cell (a captured continuation refers to environments the running code has left)
    from . import C03 as _C03
    sub = type(rep)(rep.prop)
    _C03.r03a(ctx, sub)
    rep.rule("R05i", "environments a continuation refers to are not released early: C03's R03a (no function in the extent of an "
             "instruction reaches the collector, and Heap::free is called by the sweeper only) re-checked here — a RET that "
             "returns the activation's environment to the free list is sound without continuations and frees what a captured k "
             "will resume in.")
    for o in sub.obs:
        o.rule = "R05i"
        o.key = o.key.replace("R03a", "R05i", 1)
        rep.obs.append(o)
    r05h(ctx, rep)
    from . import runloop
    runloop.r_stack_monotone(ctx, rep, "R05f")
    # R05d: the collector keeps continuations alive
    from . import C03
    rep.rule("R05d", "the collector keeps continuations alive: C03's trace-completeness obligations for "
             "VCell::Continuation and the Continuation payload.")
    sub = type(rep)(rep.prop)
    C03.r03c(ctx, sub)
    for o in sub.obs:
        if "Continuation" in o.key or "mark_continuation" in o.key:
            o.rule = "R05d"
            o.key = o.key.replace("R03c", "R05d")
            rep.obs.append(o)
    rep.not_decided += ["that the restored state is the right state for a given program shape (value-level)"]
