"""C05 — first-class continuations: capture/restore symmetry and ordering (R05a-d)."""
from ..facts import callee, op_place, short_path
from ..flow import places_read
from .common import *
from . import twins

CONT_ADT = "marwood::vm::continuation::Continuation"
NOT_REGISTERS = {"heap": "the object store: shared, not part of a control state",
                 "globenv": "global bindings: mutations made since capture must stay visible",
                 "sys": "host interface", "last_stacktrace": "diagnostic of the last failure"}


def vm_fields_written(facts, cg, roots):
    """Vm fields assigned / mutably borrowed by functions reachable from `roots`"""
    out = {}
    for p in cg.reachable_from(roots):
        f = facts.fns.get(p)
        if f is None:
            continue
        vmlocals = {i for i, t in enumerate(f.locals) if t == "&mut marwood::vm::Vm"}
        def visit(pl, how, loc):
            if pl["l"] in vmlocals and len(pl["p"]) >= 2 and pl["p"][0] == "*" and isinstance(pl["p"][1], dict) \
                    and "f" in pl["p"][1]:
                out.setdefault(pl["p"][1]["n"], []).append((f.short, how))
        for bb, j, s in f.stmts():
            visit(s["lhs"], "assign", s["loc"])
            if s["rv"]["k"] == "ref" and s["rv"]["mut"]:
                visit(s["rv"]["place"], "&mut", s["loc"])
        for bb, t in f.calls():
            visit(t["dest"], "assign", t["loc"])
    return out


def r05a(ctx, rep):
    facts, cg = ctx["facts"], ctx["cg"]
    rep.rule("R05a", "save/restore symmetry: the machine registers are the Vm fields written in the dynamic extent of "
             "run_one (minus the shared store, the global environment and host/diagnostic fields). "
             "Vm::to_continuation must read every register except the accumulator into the Continuation it builds, "
             "and Vm::restore_continuation must write every register.")
    written = vm_fields_written(facts, cg, [RUN_ONE])
    regs = sorted(f for f in written if f not in NOT_REGISTERS)
    rep.floor("R05a", "machine registers (Vm fields written by instructions)", len(regs), 5)
    toc = need(rep, "R05a", facts, CONT + "to_continuation")
    res = need(rep, "R05a", facts, CONT + "restore_continuation")
    if toc is None or res is None:
        return
    saved = set()
    for bb, j, s in toc.stmts():
        rv = s["rv"]
        if rv["k"] == "agg" and rv.get("adt") == CONT_ADT:
            for fname, op in zip(rv.get("fields", []), rv["ops"]):
                o = toc.origin(op)
                if o[0] == "call" and o[1]["args"]:
                    o = toc.origin(o[1]["args"][0])
                if o[0] == "arg" and o[1] == 1 and o[2] and isinstance(o[2][0], dict):
                    saved.add(o[2][0]["n"])
    restored = set(vm_fields_written(facts, cg, [res.path]).keys())
    # only direct effects of restore_continuation and its callees on self
    for r in regs:
        if r != "acc":
            key = "R05a|save|%s" % r
            if r in saved:
                rep.ok("R05a", key, "to_continuation saves register %s" % r, [toc.span])
            else:
                rep.fail("R05a", key, "to_continuation does not save register `%s`: invoking the continuation resumes "
                         "with whatever %s the invoker had" % (r, r), [toc.span])
        key = "R05a|restore|%s" % r
        if r in restored:
            rep.ok("R05a", key, "restore_continuation writes register %s" % r, [res.span])
        else:
            rep.fail("R05a", key, "restore_continuation does not write register `%s`: the resumed computation runs with "
                     "the invoker's %s" % (r, r), [res.span])


def r05b(ctx, rep):
    facts = ctx["facts"]
    rep.rule("R05b", "capture ordering in call/cc: both Stack::pop calls (argument count via pop_argc, receiver) "
             "dominate Vm::to_continuation, and to_continuation dominates both Stack::push calls and the ip.1 "
             "decrement: the saved stack holds neither the receiver nor the new frame, and the saved resume address is "
             "the instruction after the call.")
    f = need(rep, "R05b", facts, "marwood::vm::builtin::procedure::call_cc")
    if f is None:
        return
    cap = [bb for bb, t in f.calls() if callee(t) == CONT + "to_continuation"]
    pops = [(bb, t) for bb, t in f.calls() if callee(t) in (STACK + "pop", "marwood::vm::builtin::pop_argc",
                                                             RUN + "pop")]
    pushes = [(bb, t) for bb, t in f.calls() if callee(t) == STACK + "push"]
    decs = []
    for bb, j, s in f.stmts():
        if s["rv"]["k"] == "bin" and s["rv"]["op"] in ("SubWithOverflow", "Sub"):
            a = op_place(s["rv"]["a"])
            if a and [e.get("n") for e in a["p"] if isinstance(e, dict)] == ["ip", "1"]:
                decs.append((bb, s))
    if len(cap) != 1:
        rep.fail("R05b", "R05b|call_cc|capture", "call/cc captures the machine state %d times (expected once)" % len(cap), [f.span])
        return
    c = cap[0]
    rep.floor("R05b", "pops before capture in call/cc", len(pops), 2)
    rep.floor("R05b", "pushes after capture in call/cc", len(pushes), 2)
    for i, (bb, t) in enumerate(pops):
        ok = f.dominates(bb, c) and bb != c
        (rep.ok if ok else rep.fail)("R05b", "R05b|call_cc|pop#%d-before-capture" % (i + 1),
                                     "%s %s the capture" % (short_path(callee(t)), "dominates" if ok else
                                                            "does NOT dominate (the popped value stays on the saved stack)"),
                                     [t["loc"]])
    for i, (bb, t) in enumerate(pushes):
        ok = f.dominates(c, bb) and bb != c
        (rep.ok if ok else rep.fail)("R05b", "R05b|call_cc|push#%d-after-capture" % (i + 1),
                                     "Stack::push %s the capture" % ("is dominated by" if ok else
                                                                      "is NOT dominated by (the new frame is saved too)"),
                                     [t["loc"]])
    if len(decs) != 1:
        rep.fail("R05b", "R05b|call_cc|ip-decrement-after-capture", "call/cc decrements ip.1 %d times" % len(decs), [f.span])
    else:
        bb, s = decs[0]
        ok = f.dominates(c, bb) and bb != c
        (rep.ok if ok else rep.fail)("R05b", "R05b|call_cc|ip-decrement-after-capture",
                                     "the ip.1 decrement %s the capture" % ("follows" if ok else
                                     "does NOT follow (every invocation of k would re-execute the call/cc)"), [s["loc"]])


def r05e(ctx, rep):
    facts = ctx["facts"]
    rep.rule("R05e", "invocation protocol: in the Continuation sub-arm of CALL and TCALL the argument is popped "
             "before restore_continuation and the accumulator is written after it (restore resets the accumulator).")
    fn = need(rep, "R05e", facts, RUN_ONE)
    if fn is None:
        return
    arms = twins.call_arms(facts, fn)
    if arms is None:
        rep.anchor_lost("R05e", "Continuation sub-arms in run_one")
        return
    for name, a in zip(("CallAcc", "TCallAcc"), arms):
        reg = a["Continuation"]
        rs = [bb for bb, t in fn.calls() if bb in reg and callee(t) == CONT + "restore_continuation"]
        pops = [bb for bb, t in fn.calls() if bb in reg and callee(t) == STACK + "pop"]
        accw = [bb for bb, j, s in fn.stmts() if bb in reg and s["lhs"]["l"] == 1 and
                [e.get("n") for e in s["lhs"]["p"] if isinstance(e, dict)] == ["acc"]]
        key = "R05e|%s|pop-restore-deliver" % name
        ok = len(rs) == 1 and len(pops) >= 2 and all(fn.dominates(p, rs[0]) for p in pops) and accw and \
            all(fn.dominates(rs[0], w) for w in accw)
        (rep.ok if ok else rep.fail)(
            "R05e", key, ("%s: continuation invocation pops (x%d), then restores, then delivers the value in %%acc" % (name, len(pops)))
            if ok else ("%s: continuation invocation is not pop -> restore -> write %%acc (restores %d, pops %d, acc "
                        "writes %d): the value is lost or taken from the restored stack" % (name, len(rs), len(pops), len(accw))),
            [fn.span])


def run(ctx, rep):
    r05a(ctx, rep)
    r05b(ctx, rep)
    rep.rule("R05c", "twin agreement: the Continuation sub-arms of CallAcc and TCallAcc in run_one are the same "
             "sequence of resolved callees, constants, register writes and exits.")
    twins.twin_agreement(ctx, rep, "R05c", ["Continuation"], "a continuation invoked in tail position must behave as "
                         "one invoked in operand position")
    r05e(ctx, rep)
    from . import runloop
    runloop.r_stack_monotone(ctx, rep, "R05f")
    # R05d: the collector keeps continuations alive
    from . import C03
    rep.rule("R05d", "the collector keeps continuations alive: C03's trace-completeness obligations for "
             "VCell::Continuation and the Continuation payload.")
    sub = type(rep)(rep.prop)
    C03.r03c(ctx, sub)
    for o in sub.obs:
        if "Continuation" in o.key or "mark_continuation" in o.key:
            o.rule = "R05d"
            o.key = o.key.replace("R03c", "R05d")
            rep.obs.append(o)
    rep.not_decided += ["that the restored state is the right state for a given program shape (value-level)"]
