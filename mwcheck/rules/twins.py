"""R01c / R05c: the CallAcc and TCallAcc handlers of run_one duplicate the dispatch on the callee kind by hand."""
from ..facts import callee, op_const, op_place, short_path
from ..flow import rv_operands
from .common import *

OPCODE = "marwood::vm::opcode::OpCode"


def region_signature(fn, region):
    """source-ordered, line-free signature of a CFG region: resolved callees, constants, Vm fields
    written, and exits"""
    items = []
    for bb in region:
        b = fn.blocks[bb]
        if b.get("cleanup"):
            continue
        for s in b["stmts"]:
            l = s["lhs"]
            if l["l"] == 1 and l["p"] and l["p"][0] == "*":
                fs = [e["n"] for e in l["p"] if isinstance(e, dict) and "f" in e]
                items.append((s["loc"]["line"], s["loc"]["col"], "write self." + ".".join(fs)))
            rv = s["rv"]
            if rv["k"] == "agg" and rv.get("adt", "").startswith("marwood::"):
                items.append((s["loc"]["line"], s["loc"]["col"], "new %s::%s" % (
                    rv["adt"].rsplit("::", 1)[-1], rv.get("variant", ""))))
            for o in rv_operands(rv):
                c = op_const(o)
                if c is not None and ("int" in c or "str" in c) and c.get("ty") not in ("bool", "()"):
                    items.append((s["loc"]["line"], s["loc"]["col"], "const %s" % (c.get("str", c.get("int")),)))
        t = b["term"]
        if t["k"] == "call":
            c = callee(t)
            if "indirect" in t:
                c = "<fn pointer>"
            if c and not c.startswith("<std::result::Result") and "ops::Try" not in c and "FromResidual" not in c:
                items.append((t["loc"]["line"], t["loc"]["col"], "call " + short_path(c)))
            for a in t["args"]:
                k = op_const(a)
                if k is not None and ("int" in k or "str" in k) and k.get("ty") not in ("bool", "()"):
                    items.append((t["loc"]["line"], t["loc"]["col"], "const %s" % (k.get("str", k.get("int")),)))
        elif t["k"] == "return":
            items.append((t["loc"]["line"], t["loc"]["col"], "return"))
    items.sort()
    return [x[2] for x in items]


def call_arms(facts, fn):
    """(CallAcc sub-arms, TCallAcc sub-arms): dict variant -> region, for the match on the callee kind"""
    sws = [sw for sw in disc_switches(facts, fn, OPCODE) if "TCallAcc" in sw["arms"] and "CallAcc" in sw["arms"]]
    if not sws:
        return None
    out = []
    for op in ("CallAcc", "TCallAcc"):
        reg = arm_region(fn, sws[0], op)
        inner = [sw for sw in disc_switches(facts, fn, VCELL) if sw["bb"] in reg and
                 {"BuiltInProc", "Continuation"} <= set(sw["arms"])]
        if not inner:
            return None
        sw = inner[0]
        arms = {}
        for v in ("BuiltInProc", "Continuation", "Closure", "Lambda"):
            arms[v] = arm_region(fn, sw, v)
        o = sw["otherwise"]
        arms["<other>"] = {b for b in fn.reachable() if fn.dominates(o, b)} if len(fn.pred[o]) == 1 else set()
        out.append(arms)
    return out


def twin_agreement(ctx, rep, rule, subarms, why):
    facts = ctx["facts"]
    fn = need(rep, rule, facts, RUN_ONE)
    if fn is None:
        return
    arms = call_arms(facts, fn)
    if arms is None:
        rep.anchor_lost(rule, "CallAcc/TCallAcc dispatch on the callee kind in run_one")
        return
    ca, ta = arms
    for v in subarms:
        sa, st = region_signature(fn, ca[v]), region_signature(fn, ta[v])
        key = "%s|%s" % (rule, v)
        if not sa or not st:
            rep.fail(rule, key, "the %s sub-arm of CallAcc/TCallAcc could not be isolated (CallAcc %d items, TCallAcc %d)"
                     % (v, len(sa), len(st)), [fn.span], kind="anchor-lost")
            continue
        if sa == st:
            rep.ok(rule, key, "CallAcc and TCallAcc handle a %s callee identically (%d steps: %s ...)" % (
                v, len(sa), "; ".join(sa[:5])), [fn.span])
        else:
            onlya = [x for x in sa if x not in st]
            onlyt = [x for x in st if x not in sa]
            rep.fail(rule, key, "CallAcc and TCallAcc disagree on a %s callee (%s): only in CallAcc: %s; only in "
                     "TCallAcc: %s%s" % (v, why, onlya or "-", onlyt or "-",
                                         "" if (onlya or onlyt) else "; same steps in a different order"), [fn.span],
                     detail={"CallAcc": sa, "TCallAcc": st})
