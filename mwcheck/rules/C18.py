"""C18 — symbols are interned (R18a-d)."""
from ..facts import op_const, callee, op_place, place_str, short_path
from ..flow import places_read
from .common import *

PUTS = {HEAP + "put", HEAP + "maybe_put"}


def _returns_value(fn, local):
    """does `local` flow (moves only) into the return place, possibly wrapped in Ok(..)?"""
    seen = set()
    work = [local]
    while work:
        l = work.pop()
        if l in seen:
            continue
        seen.add(l)
        if l == 0:
            return True
        for bb, j, s in fn.stmts():
            rv = s["rv"]
            if any(p["l"] == l for p in places_read(rv)):
                if rv["k"] in ("use",) or (rv["k"] == "agg" and rv.get("variant") in ("Ok", "Some")):
                    work.append(s["lhs"]["l"])
    return False


def _direct_sinks(fn, local):
    """callees that receive `local` (after moves) as an argument"""
    out = []
    seen = set()
    work = [local]
    while work:
        l = work.pop()
        if l in seen:
            continue
        seen.add(l)
        for bb, j, s in fn.stmts():
            rv = s["rv"]
            if rv["k"] == "use" and any(p["l"] == l for p in places_read(rv)) and not s["lhs"]["p"]:
                work.append(s["lhs"]["l"])
        for bb, t in fn.calls():
            for a in t["args"]:
                p = op_place(a)
                if p is not None and p["l"] == l:
                    out.append((callee(t), t))
    return out


def symbol_sites(facts):
    """construction sites of VCell::Symbol outside derived impls, with constructor wrappers unfolded"""
    wrappers = set()
    sites = []
    for p, g in sorted(facts.fns.items()):
        if g.impl_trait in DERIVE_TRAITS and (g.impl_self or "").endswith("VCell"):
            continue
        for bb, j, s in g.stmts():
            rv = s["rv"]
            if rv["k"] == "agg" and rv.get("adt") == VCELL and rv.get("variant") == "Symbol":
                if not s["lhs"]["p"] and s["lhs"]["l"] == 0:
                    wrappers.add(p)
                else:
                    sites.append((g, s["lhs"], s["loc"], "aggregate"))
    for p, g in sorted(facts.fns.items()):
        for bb, t in g.calls():
            if callee(t) in wrappers:
                sites.append((g, t["dest"], t["loc"], "call " + short_path(callee(t))))
    return sites, wrappers


def r18a(ctx, rep, rule="R18a"):
    facts, cg = ctx["facts"], ctx["cg"]
    rep.rule(rule, "one way in: every construction of VCell::Symbol (the aggregate, or a call of a constructor wrapper "
             "that returns it) outside derived impls is the direct argument of Heap::put/maybe_put (the interning "
             "arms), or the Ok value of a registered builtin (which CALL/TCALL pass through maybe_put); in put and "
             "maybe_put the Symbol arm looks the name up first and every allocation in that arm is followed by an "
             "insert into the symbol table.")
    sites, wrappers = symbol_sites(facts)
    n = 0
    counts = {}
    for g, dest, loc, how in sites:
        counts[g.short] = counts.get(g.short, 0) + 1
        key = "%s|site|%s#%d" % (rule, g.short, counts[g.short])
        n += 1
        if dest["p"]:
            rep.fail(rule, key, "a Symbol cell is built directly into %s in %s, bypassing interning" % (
                place_str(dest), g.short), [loc])
            continue
        sinks = _direct_sinks(g, dest["l"])
        bad = [short_path(c) for c, t in sinks if c not in PUTS]
        ret = _returns_value(g, dest["l"])
        if bad:
            rep.fail(rule, key, "a Symbol cell built in %s (%s) is handed to %s instead of Heap::put/maybe_put: a second, "
                     "un-interned copy of the name can enter the heap and eq? on it is #f" % (g.short, how, ", ".join(bad)),
                     [loc])
        elif sinks:
            rep.ok(rule, key, "Symbol built in %s (%s) goes straight to %s" % (
                g.short, how, ", ".join(sorted({short_path(c) for c, t in sinks}))), [loc])
        elif ret and g.path in cg.registry:
            rep.ok(rule, key, "Symbol built in builtin %s (%s) is its Ok value; CALL/TCALL pass it through "
                   "Heap::maybe_put (see R01c)" % (g.short, how), [loc])
        elif ret:
            rep.fail(rule, key, "%s returns a fresh Symbol cell but is neither a constructor wrapper used only by "
                     "interning callers nor a registered builtin" % g.short, [loc])
        else:
            rep.fail(rule, key, "a Symbol cell built in %s (%s) is neither interned nor returned" % (g.short, how), [loc])
    rep.floor(rule, "VCell::Symbol construction sites", n, 3)
    # interning arms
    for pp in sorted(PUTS):
        fn = need(rep, rule, facts, pp)
        if fn is None:
            continue
        sws = [sw for sw in disc_switches(facts, fn, VCELL) if "Symbol" in sw["arms"]]
        if not sws:
            rep.anchor_lost(rule, "Symbol arm in %s" % short_path(pp))
            continue
        region = arm_region(fn, sws[0], "Symbol")
        gets = [bb for bb, t in fn.calls() if bb in region and "HashMap" in callee(t) and callee(t).endswith("::get")]
        ins = [bb for bb, t in fn.calls() if bb in region and "HashMap" in callee(t) and callee(t).endswith("::insert")]
        allocs = [(bb, t) for bb, t in fn.calls() if bb in region and callee(t) == HEAP + "alloc"]
        key = "%s|intern|%s" % (rule, short_path(pp))
        ok = bool(gets) and bool(allocs) and all(
            any(fn.dominates(g_, bb) for g_ in gets) and any(fn.dominates(bb, i) for i in ins) for bb, t in allocs)
        if ok:
            rep.ok(rule, key, "%s: in the Symbol arm the table lookup dominates the allocation and the allocation "
                   "dominates the table insert" % short_path(pp), [fn.span])
        else:
            rep.fail(rule, key, "%s: the Symbol arm does not have lookup -> allocate -> insert on every allocating "
                     "path (lookups %d, allocations %d, inserts %d): two cells can hold the same name" % (
                         short_path(pp), len(gets), len(allocs), len(ins)), [fn.span])
    # every other write into Heap.heap
    n_writers = 0
    for p, g in sorted(facts.fns.items()):
        if not p.startswith(HEAP):
            continue
        for bb, t in g.calls():
            c = callee(t)
            if c.endswith("get_mut") or c.endswith("deref_mut") or c.endswith("index_mut"):
                a0 = t["args"][0] if t["args"] else None
                o = g.origin(a0) if a0 else None
                if o and o[0] == "arg" and o[1] == 1 and o[2] and isinstance(o[2][0], dict) and o[2][0].get("n") == "heap":
                    n_writers += 1
    rep.ok(rule, "%s|writers" % rule, "mutable accesses to Heap.heap inside Heap: %d (put, maybe_put, free, "
           "get_at_index_mut)" % n_writers, nontrivial=False)


def r18b(ctx, rep, rule="R18b"):
    facts, cg = ctx["facts"], ctx["cg"]
    rep.rule(rule, "the table follows the sweeper: in Heap::free, on the edge where the freed cell is a Symbol, "
             "HashMap::remove on the symbol table is called, and it happens before the cell is overwritten with "
             "Undefined (the overwrite cannot reach the removal).")
    fn = need(rep, rule, facts, HEAP + "free")
    if fn is None:
        return
    sws = [sw for sw in disc_switches(facts, fn, VCELL) if "Symbol" in sw["arms"]]
    rem = [(bb, t) for bb, t in fn.calls() if "HashMap" in callee(t) and callee(t).endswith("::remove")]
    over = []
    for bb, j, s in fn.stmts():
        if s["lhs"]["p"] and s["lhs"]["p"][0] == "*" and "VCell" in s["lhs"]["ty"]:
            o = fn.origin(s["rv"].get("a")) if s["rv"]["k"] == "use" else None
            over.append(bb)
    key = "%s|free|remove-on-symbol" % rule
    if not sws or not rem:
        rep.fail(rule, key, "Heap::free has no symbol-table removal guarded by a test for VCell::Symbol: a later "
                 "string->symbol / literal of the same name resolves to a freed cell" , [fn.span])
        return
    region = arm_region(fn, sws[0], "Symbol")
    inreg = [bb for bb, t in rem if bb in region]
    if inreg:
        rep.ok(rule, key, "Heap::free removes the name from the symbol table on the Symbol edge", [rem[0][1]["loc"]])
    else:
        rep.fail(rule, key, "the HashMap::remove in Heap::free is not on the VCell::Symbol edge", [rem[0][1]["loc"]])
    key = "%s|free|remove-before-overwrite" % rule
    if not over:
        rep.anchor_lost(rule, "overwrite of the freed cell in Heap::free")
        return
    bad = [ob for ob in over for rb, _ in rem if rb in fn.reach_from(ob)]
    # the symbol test itself must also precede the overwrite
    bad2 = [ob for ob in over if sws[0]["bb"] in fn.reach_from(ob)]
    if bad or bad2:
        rep.fail(rule, key, "Heap::free overwrites the cell before it looks at it / removes its name: the name of a "
                 "freed symbol stays in the table", [fn.span])
    else:
        rep.ok(rule, key, "the Symbol test and the table removal precede the overwrite of the freed cell", [fn.span])


def r18b2(ctx, rep, rule="R18b"):
    """every path that frees a cell goes through Heap::free (where the table is cleaned)"""
    facts, cg = ctx["facts"], ctx["cg"]
    GCSET = "marwood::vm::gc::Map::set"
    n = 0
    for p, f in sorted(facts.fns.items()):
        if f.crate != "marwood" or p.startswith("marwood::vm::gc::"):
            continue
        for bb, t in f.calls():
            if callee(t) == GCSET and len(t["args"]) > 2:
                o = f.origin(t["args"][2])
                v = None
                if o[0] == "rv" and o[1]["rv"]["k"] == "agg":
                    v = o[1]["rv"].get("variant")
                elif o[0] == "const":
                    v = o[1].get("text")
                if v and "Free" in v:
                    n += 1
                    key = "%s|frees|%s" % (rule, f.short)
                    if p == HEAP + "free":
                        rep.ok(rule, key, "a cell is marked Free only in Heap::free", [t["loc"]])
                    else:
                        rep.fail(rule, key, "%s marks a cell Free itself, bypassing Heap::free and with it the symbol-table "
                                 "cleanup: a swept symbol's name keeps pointing at the freed (later recycled) cell" % f.short,
                                 [t["loc"]])
    rep.floor(rule, "sites that mark a cell Free", n, 1)
    sw = facts.fn(HEAP + "sweep")
    if sw is not None:
        ok = any(callee(t) == HEAP + "free" for bb, t in sw.calls())
        (rep.ok if ok else rep.fail)(rule, "%s|sweep-calls-free" % rule, "Heap::sweep releases cells through Heap::free" if ok else
                                     "Heap::sweep no longer releases cells through Heap::free (where a symbol's name is removed "
                                     "from the table)", [sw.span])
    for p, f in sorted(facts.fns.items()):
        if not p.startswith(HEAP) or p in (HEAP + "free", HEAP + "grow", HEAP + "new"):
            continue
        for bb, t in f.calls():
            if callee(t).endswith("Vec::<T, A>::push") and t["args"]:
                o = f.origin(t["args"][0])
                if o[0] == "arg" and o[1] == 1 and o[2] and isinstance(o[2][0], dict) and o[2][0].get("n") == "free_list":
                    rep.fail(rule, "%s|free_list-push|%s" % (rule, f.short), "%s returns a cell to the free list outside "
                             "Heap::free" % f.short, [t["loc"]])


def r18e(ctx, rep, rule="R18e"):
    facts = ctx["facts"]
    rep.rule(rule, "the decoder is applied on every path: string->symbol may emit an escape at any position of a name, so "
             "every Ok return of symbol->string must pass through the call of parse::parse_string (must-pass-through); "
             "a shortcut that returns the stored name verbatim breaks the round trip for names with escapes.")
    f = need(rep, rule, facts, "marwood::vm::builtin::symbol::symbol_string")
    if f is None:
        return
    ps = [bb for bb, t in f.calls() if callee(t) == "marwood::parse::parse_string"]
    oks = [bb for bb, j, s in f.stmts() if not s["lhs"]["p"] and s["lhs"]["l"] == 0 and s["rv"]["k"] == "agg"
           and s["rv"].get("variant") == "Ok"]
    if not ps or not oks:
        rep.anchor_lost(rule, "parse_string call / Ok return in symbol_string")
        return
    free = f.reach_from(0, avoid=ps)
    bad = [b for b in oks if b in free]
    (rep.fail if bad else rep.ok)(rule, "%s|symbol_string|decode-on-every-path" % rule,
                                  "symbol->string can return Ok without decoding the stored name: names whose encoding "
                                  "contains \\x..; escapes come back escaped" if bad else
                                  "every Ok return of symbol->string decodes the stored name", [f.span])


def r18c(ctx, rep):
    facts = ctx["facts"]
    rep.rule("R18c", "identity is pointer identity: Vm::eqv has no (Symbol, Symbol) arm; symbols compare equal only "
             "through the Ptr == Ptr fast path, which is sound given R18a. Reported as the dependency it is; a "
             "Symbol arm appearing in eqv is not an error but changes what R18a is needed for.")
    fn = facts.fn("marwood::vm::compare::<impl marwood::vm::Vm>::eqv")
    if fn is None:
        rep.anchor_lost("R18c", "Vm::eqv")
        return
    isptr = [t for bb, t in fn.calls() if callee(t) == VCELL + "::is_ptr"]
    eqs = [t for bb, t in fn.calls() if "vcell::VCell as std::cmp::PartialEq" in (t.get("fnargs") or "")]
    if len(isptr) >= 2 and eqs:
        rep.ok("R18c", "R18c|eqv|ptr-fast-path", "Vm::eqv decides two Ptr operands by pointer equality "
               "(is_ptr x%d, VCell == VCell x%d)" % (len(isptr), len(eqs)), [fn.span])
    else:
        rep.fail("R18c", "R18c|eqv|ptr-fast-path", "Vm::eqv no longer has the Ptr == Ptr fast path that makes "
                 "interned symbols eq?", [fn.span])


def r18g(ctx, rep, rule="R18g"):
    facts = ctx["facts"]
    rep.rule(rule, "what a builtin returns is interned before it becomes a value: in run_one, after each call of BuiltInProc::eval "
             "(the CALL and the TCALL arm), every path to the end of the instruction passes Heap::maybe_put — the interning "
             "arm for symbols — unless the result is already a heap pointer (the Ptr edge of the match on the result). "
             "string->symbol returns an inline VCell::Symbol; stored unboxed it is not eq? to the interned symbol of the "
             "same name.")
    f = need(rep, rule, facts, RUN_ONE)
    if f is None:
        return
    sites = [(bb, t) for bb, t in f.calls() if (callee(t) or "").endswith("BuiltInProc::eval")]
    if len(sites) < 2:
        rep.anchor_lost(rule, "BuiltInProc::eval call sites in run_one (CALL and TCALL arms)")
        return
    puts = {bb for bb, t in f.calls() if callee(t) == HEAP + "maybe_put"}
    rets = set(f.return_blocks())
    for i, (bb, t) in enumerate(sites):
        if t.get("target") is None:
            continue
        # the Ptr edge: a switch on the discriminant of a VCell derived from the result, arm `Ptr`
        ptr_targets = set()
        for sw in disc_switches(facts, f, VCELL):
            if "Ptr" in sw["arms"] and f.dominates(t["target"], sw["bb"]) and len(sw["arms"]) <= 2:
                ptr_targets.add(sw["arms"]["Ptr"])
        # the `?` on the result: the Err edge returns without producing a value
        err_blocks = {b2 for b2, t2 in f.calls() if "FromResidual" in (t2.get("fnargs") or "") and f.dominates(t["target"], b2)}
        reach = f.reach_from(t["target"], avoid=puts | ptr_targets | err_blocks)
        ok = not (reach & rets)
        (rep.ok if ok else rep.fail)(rule, "%s|run_one|builtin-result#%d" % (rule, i + 1),
                                     "the result of the builtin is passed through Heap::maybe_put (or is already a Ptr) before the instruction ends" if ok else
                                     "a builtin's result can become %acc without passing Heap::maybe_put: an inline symbol returned by "
                                     "string->symbol stays un-interned on that path (a tail call of it is not eq? to the literal)", [t["loc"]])


def r18f(ctx, rep, rule="R18f"):
    from .C10 import decode_template, TemplateError
    facts = ctx["facts"]
    rep.rule(rule, "the escape string->symbol emits carries the whole code point: the encoder (string_symbol and its closures) "
             "formats an escaped character with one template `\\x` + {:x} + `;` whose argument is the character cast to u32 — "
             "no masking, shifting or fixed-width digit table. parse_string reads the hex digits up to the `;` as one scalar "
             "value, so a truncated escape decodes to a different character and two names collide.")
    fns = [f for p, f in facts.fns.items() if p.startswith("marwood::vm::builtin::symbol::string_symbol")]
    if not fns:
        rep.anchor_lost(rule, "string_symbol")
        return
    found = []
    fiddling = []
    for f in fns:
        for bb, j, st in f.stmts():
            rv = st["rv"]
            if rv["k"] == "use":
                c = op_const(rv["a"])
                if c is not None and c.get("ty", "").startswith("&[u8") and "\\\\x" in c.get("text", ""):
                    try:
                        found.append((f, st, decode_template(c["text"])))
                    except TemplateError:
                        pass
            if rv["k"] == "bin" and rv["op"] in ("Shr", "Shl", "BitAnd", "Rem", "ShrUnchecked"):
                fiddling.append((f, st))
    key = "%s|string_symbol|escape" % rule
    if not found:
        rep.fail(rule, key, "string_symbol no longer formats its escape with a `\\x{:x};` template: the escape is assembled by hand%s "
                 "and may not carry the whole code point" % (" (bit operations on the code point are present)" if fiddling else ""),
                 [fiddling[0][1]["loc"]] if fiddling else [fns[0].span])
        return
    f, st, pieces = found[0]
    shape_ok = [p_[0] for p_ in pieces] == ["lit", "arg", "lit"] and pieces[0][1] == "\\x" and pieces[2][1] == ";"
    hexarg = any("new_lower_hex::<u32>" in (t.get("fnargs") or "") for bb, t in f.calls())
    cast = any(s2["rv"]["k"] == "cast" and s2["rv"].get("from") == "char" and s2["rv"].get("to") == "u32" for b2, j2, s2 in f.stmts())
    ok = shape_ok and hexarg and cast and not fiddling
    (rep.ok if ok else rep.fail)(rule, key, "string_symbol escapes a character as \\x{:x}; of its full scalar value (char as u32)" if ok else
                                 "the escape template / argument of string_symbol is not `\\x` + lower-hex of (char as u32) + `;`%s" % (
                                     " (bit operations on the code point are present)" if fiddling else ""), [st["loc"]])


def r18i(ctx, rep, rule="R18i"):
    """the reader and string->symbol agree on which first characters are written raw"""
    from .. import shapes
    facts = ctx["facts"]
    rep.rule(rule, "one spelling per name: string->symbol writes the first character of a name raw iff lex::is_initial_identifier "
             "accepts it and escapes it otherwise; the reader must then produce symbols only from tokens that start with such a "
             "character. Every scanner lex::scan dispatches to that can produce a Symbol token must be entered under "
             "is_initial_identifier — otherwise a name such as + or 1+ has two spellings (the reader's raw one, string->symbol's "
             "escaped one) and two symbols that are not eq? share one name.")
    scan = need(rep, rule, facts, "marwood::lex::scan")
    enc = [f for p, f in facts.fns.items() if p.startswith("marwood::vm::builtin::symbol::string_symbol")]
    if scan is None or not enc:
        if not enc:
            rep.anchor_lost(rule, "string_symbol")
        return
    if not any(callee(t) == "marwood::lex::is_initial_identifier" for f in enc for bb, t in f.calls()):
        rep.anchor_lost(rule, "string_symbol no longer decides the first character with lex::is_initial_identifier")
        return
    n = 0
    for bb, t in scan.calls():
        c = callee(t) or ""
        g = facts.fns.get(c)
        if g is None or not c.startswith("marwood::lex::scan_"):
            continue
        makes_symbol = any(st["rv"]["k"] == "agg" and (st["rv"].get("adt") or "").endswith("lex::TokenType") and st["rv"].get("variant") == "Symbol"
                           for b2, j, st in g.stmts())
        if not makes_symbol:
            continue
        n += 1
        key = "%s|%s" % (rule, short_path(c).rsplit("::", 1)[-1])
        guards = shapes.guard_shapes(scan, bb, None, 2)
        ok = any(x.startswith("lex::is_initial_identifier(") and x.endswith("=T") for x in guards)
        (rep.ok if ok else rep.fail)(
            rule, key, "%s produces symbols and is entered only on characters string->symbol writes raw" % short_path(c) if ok else
            "%s can produce a Symbol token but is entered on characters lex::is_initial_identifier rejects (%s): the reader spells "
            "such a name raw, string->symbol escapes its first character, and the two symbols are not eq?" % (
                short_path(c), "; ".join(x for x in guards if "is_initial" in x or x.endswith(("=46", "=43", "=45")))[:160]), [t["loc"]])
    rep.floor(rule, "scanners that can produce a Symbol token", n, 3)


def r18j(ctx, rep, rule="R18j"):
    """the reader does not canonicalise the escapes it lets into a symbol's spelling"""
    from .. import shapes
    facts = ctx["facts"]
    rep.rule(rule, "names are compared by spelling, so spellings must be canonical: symbol->string decodes the escapes of a symbol's "
             "spelling (parse_string), and the scanner lets the escape introducer `\\` into identifiers, so the parser may build a "
             "symbol from a token's text only through a canonicalising step (decode, then re-encode as string->symbol does) — "
             "never from the raw span. With the raw span, '\\x41; and 'A are two symbols both named \"A\".")
    sites = []
    for nm in ("marwood::parse::parse",):      # number-started tokens end at `;`, so they cannot hold a complete hex escape
        f = facts.fn(nm)
        if f is None:
            continue
        for bb, t in f.calls():
            if callee(t) == "marwood::cell::Cell::new_symbol" and t["args"]:
                sites.append((f, t["loc"], shapes.shape(f, t["args"][0], 4)))
        for bb, j, st in f.stmts():
            rv = st["rv"]
            if rv["k"] == "agg" and rv.get("variant") == "Symbol" and (rv.get("adt") or "").endswith("cell::Cell"):
                sites.append((f, st["loc"], shapes.shape(f, rv["ops"][0], 4)))
    if not sites:
        rep.anchor_lost(rule, "symbol constructions in the parser")
        return
    intro_is_ident = False
    ii = facts.fn("marwood::lex::is_initial_identifier")
    if ii is not None:
        for bb, j, st in ii.stmts():
            rv = st["rv"]
            if rv["k"] == "bin" and rv["op"] == "Eq":
                for o in (rv["a"], rv["b"]):
                    c = op_const(o)
                    if c is not None and c.get("ty") == "char" and c.get("int") == 92:
                        intro_is_ident = True
    for i, (f, loc, sh) in enumerate(sites):
        key = "%s|%s|symbol#%d" % (rule, f.short.rsplit("::", 1)[-1], i + 1)
        raw = re.fullmatch(r"(<T as string::ToString>::to_string\()?lex::Token::span\(.*\)\)?", sh) is not None
        if raw and intro_is_ident:
            rep.fail(rule, key, "%s builds a symbol from the raw text of a token, and the scanner admits `\\` into identifiers: the "
                     "spellings \\x41; and A (or \\x041; and \\x41;) become different symbols whose symbol->string results are "
                     "equal" % f.short, [loc])
        else:
            rep.ok(rule, key, "%s: %s" % (f.short, "the spelling goes through %s" % sh[:80] if not raw else
                                          "raw token text, but the escape introducer is no identifier character"), [loc])


def run(ctx, rep):
    r18a(ctx, rep)
    r18b(ctx, rep)
    r18b2(ctx, rep)
    r18e(ctx, rep)
    r18f(ctx, rep)
    r18g(ctx, rep)
    r18c(ctx, rep)
    from . import tables
    tables.r18d(ctx, rep)
    r18i(ctx, rep)
    from . import C11
    C11.r11m(ctx, rep, rule="R18m")
    from . import C03
    C03.r03g(ctx, rep, rule="R18k")
    C03.r03i(ctx, rep, rule="R18l")
    r18j(ctx, rep)
    from . import C10
    C10.r10j(ctx, rep, rule="R18h")
    rep.rules["R18h"] = "symbol->string decodes every name string->symbol can build: " + rep.rules["R18h"]
    rep.not_decided += ["symbol identity across collection schedules directly (follows from C03's rules)",
                        "round trip of names beyond the escape-introducer clause (R18d)"]
