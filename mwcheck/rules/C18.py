def r18a(ctx, rep, rule="R18a"):
    pass
def r18b(ctx, rep, rule="R18b"):
    pass
def run(ctx, rep):
    pass
